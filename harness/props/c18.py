"""C18 — simulation honours the requested design."""
from __future__ import annotations

import ast
import contextlib
import io
import itertools
import json
import math
import warnings
from fractions import Fraction

from harness.common import Run, SRC, coq_Q, coq_Z, coq_bool, coq_list, coq_string, frac
from harness.translate import c18_gen, pysym, pyvalid
from harness.translate.pysym import Emit, Untranslatable, definition, dotted

META = dict(
    technique="Coq theorems on a model of SimulationAlgorithm (constructor as a decision function over abstract Python values, "
              "crash conditions of _run, post-processing on lists over Q/Z); requirement rows, key lists, constants, beta "
              "parameters, the precision loop and the value of rounding_precision before it regenerated from the Python AST and "
              "proved equal to the model; exhaustive decision-table and exact-rational list correspondence against the running "
              "code inside Coq (vm_compute); the generation (draws of the individual parameters, visit ages of both visit types, rounding, "
              "de-duplication, sort) as an interpreter of a program regenerated from the AST, parameterised by the arithmetic, re-executed in "
              "binary64 inside Coq on the recorded tape of numpy.random.normal of every completed call (bit for bit)",
    level_text="Unbounded theorems: beta parameters positive after the clamp, clip range, values in [0,1] (beta.rvs as a stated oracle), "
               "the rounding precision is total (0..3 for every spacing, 3 below 0.001: leaspy 6d6bb6f) and for every spacing the ages "
               "are rounded to it, strictly increasing after rounding/keep-first de-duplication/sorting, every requested visit present "
               "at its rounded age with the values of the first such visit; every spacing >= 0 is accepted and runs (the former F10 "
               "refutation is now the theorem C18_min_spacing_runs); individuals exact (ids '0'..'n-1' / table ids, one parameter row "
               "each), a LeaspyAlgoInputError can only come from the constructor, exact characterisation of the calls that complete "
               "(C18_completes_iff: accepted + runnable_core; C18_accepted_runs stays refuted by the remaining families F10b-i), "
               "visit loop termination/divergence.  Generation as a function of a tape of draws (every arithmetic, every tape): requested number of "
               "individuals, ages = integers in units of the chosen precision, strictly increasing, consecutive ones >= one unit apart, exactly the "
               "rounded generated ages / the table's ages per ID whatever the row order (C18_generation_random / _table / _table_accepted / "
               "_age_units, C18_table_row_order_irrelevant), draws consumed (4+S)n + later visits resp. (2+S)*n_groups.  The regenerated program is "
               "statically well-formed (prog_wf, decided on gen_prog_src), hence on every accepted design the generation crashes exactly for a bool count / "
               "a non-string table ID and is otherwise the table, GExhausted or GMismatch (C18_generation_never_crashes); a table design on (2+S) vectors "
               "of n_groups values completes (C18_generation_table_total).",
    level_note="Trusted: Coq kernel; python-ast translators (pysym, pyvalid); pandas round/duplicated/groupby, numpy RNG, scipy beta.rvs, "
               "leaspy estimate (the model values are taken from the implementation); float arithmetic compared with stated tolerances; "
               "NaN/inf parameters and mixed-type ID columns are outside the model.",
    design_ref="DESIGN.md section 4 C18",
)

OBLIGATIONS = [
    "C18_beta_params_positive", "C18_beta_mean", "C18_clamp_factor_needed", "C18_clip_range", "C18_values_in_unit",
    "C18_ages_unique_increasing", "C18_ages_complete_rounded", "C18_first_visit_kept", "C18_round_half_even_tie",
    "C18_individuals_random", "C18_individuals_table", "C18_individuals_exact",
    "C18_refuses_before_generation", "C18_precision_total", "C18_precision_finest", "C18_precision_some", "C18_default_precision",
    "C18_min_spacing_runs", "C18_ages_rounded_every_spacing",
    "C18_accepted_crash_families_refuted", "C18_refusal_class_refuted",
    "C18_run_ok_iff", "C18_accepted_spacing_ok", "C18_completes_iff", "C18_accepted_runs_partial",
    "C18_visits_increasing", "C18_visits_terminate", "C18_visits_diverge_refuted",
    "C18_tie_rows", "C18_tie_keys", "C18_tie_final", "C18_tie_precision", "C18_tie_precision_init", "C18_tie_beta", "C18_tie_adj_var",
    "C18_tie_constants", "C18_tie_options", "C18_tie_order",
    "C18_ages_wellformed_meaning", "C18_generation_random", "C18_generation_table", "C18_generation_table_accepted", "C18_table_row_order_irrelevant",
    "C18_generation_age_units", "C18_draws_random_design_only_refuted", "C18_tie_generation",
    "C18_tie_generation_wf", "C18_generation_never_crashes", "C18_generation_random_no_crash", "C18_generation_table_total",
]

HEADER = """(* REGENERATED on every run from $VERIF_REPO/src/leaspy by harness/props/c18.py — do not edit *)
From Coq Require Import ZArith QArith Qround Bool List String.
From Leaspy Require Import Base.QAux Api.Simulate Api.SimulateGen.
Import ListNotations.
"""


# ----------------------------------------------------------------------------- translator


class Ex(pysym.Exec):
    def call(self, node, env, state):
        name = dotted(node.func)
        if name in ("np.minimum", "numpy.minimum") and len(node.args) == 2 and not node.keywords:
            return ("fn", "min", self.expr(node.args[0], env, state), self.expr(node.args[1], env, state))
        return super().call(node, env, state)


def _assigns(fn, name):
    out = []
    for n in ast.walk(fn):
        if isinstance(n, ast.Assign) and len(n.targets) == 1 and isinstance(n.targets[0], ast.Name) and n.targets[0].id == name:
            out.append(n)
    return out


def _one(fn, name):
    a = _assigns(fn, name)
    if len(a) != 1:
        raise Untranslatable(f"{len(a)} assignments to `{name}` in {fn.name}")
    return a[0].value


def _norm(node) -> str:
    return ast.unparse(node)


def _class(path, name) -> ast.ClassDef:
    for n in ast.walk(ast.parse(path.read_text())):
        if isinstance(n, ast.ClassDef) and n.name == name:
            return n
    raise Untranslatable(f"no class {name}")


def _body(fn):
    return [s for s in fn.body if not (isinstance(s, ast.Expr) and isinstance(s.value, ast.Constant))]


CHECK_FEATURES_SHAPE = [
    "if not isinstance(self.features, list):\n    raise LeaspyAlgoInputError",
    "if len(self.features) == 0:\n    raise LeaspyAlgoInputError",
    "for i, feature in enumerate(self.features):\n    if not isinstance(feature, str):\n        raise LeaspyAlgoInputError\n"
    "    if not feature.strip():\n        raise LeaspyAlgoInputError",
]


class _StripRaise(ast.NodeTransformer):
    """raise X(<message>) -> raise X   (messages are irrelevant to the decision)"""

    def visit_Raise(self, node):
        exc = node.exc.func if isinstance(node.exc, ast.Call) else node.exc
        return ast.Raise(exc=exc, cause=None)


def _shape(stmts) -> list[str]:
    out = []
    for s in stmts:
        s2 = _StripRaise().visit(ast.parse(ast.unparse(s)).body[0])
        out.append(ast.unparse(ast.fix_missing_locations(s2)))
    return out


def translate(run: Run) -> bool:
    try:
        path = SRC / "algo" / "simulate" / "simulate.py"
        cls = _class(path, "SimulationAlgorithm")
        M = {f.name: f for f in cls.body if isinstance(f, ast.FunctionDef)}
        base = pysym.load_methods(SRC / "algo" / "simulate" / "base.py", "BaseSimulationAlgorithm")
        out = [HEADER]
        gd = M["_generate_dataset"]
        qt = {"mu": "Q", "var": "Q", "max_var": "Q", "adj_var": "Q"}
        ex = Ex(pysym.Spec(types=qt))
        env = {k: ("var", k) for k in qt}
        em = Emit(qt, "Q")

        # clip bounds
        clips = [n for n in ast.walk(gd) if isinstance(n, ast.Call) and isinstance(n.func, ast.Attribute) and n.func.attr == "clip"]
        if len(clips) != 1 or clips[0].args or sorted(k.arg for k in clips[0].keywords) != ["max", "min"]:
            raise Untranslatable("expected exactly one `.clip(max=..., min=...)`")
        kw = {k.arg: pyvalid.const_float(k.value) for k in clips[0].keywords}
        out.append(f"Definition gen_clip_lo : Q := {pyvalid.coq_q(kw['min'])}.\nDefinition gen_clip_hi : Q := {pyvalid.coq_q(kw['max'])}.\n")
        # the clipped values are what the noise is built from
        if not isinstance(clips[0].func.value, ast.Subscript) or dotted(clips[0].func.value.value) != "values":
            raise Untranslatable("clip is not applied to the estimated values")

        # variance clamp, beta parameters
        e_max = ex.expr(_one(gd, "max_var"), env, {})
        out.append(definition("gen_max_var", [("mu", "Q")], "Q", em.num(e_max)))
        e_adj = ex.expr(_one(gd, "adj_var"), env, {})
        if not (e_adj[0] == "fn" and e_adj[1] == "min" and e_adj[2] == ("var", "var") and e_adj[3][0] == "bin" and e_adj[3][1] == "*"
                and e_adj[3][2][0] == "fconst" and e_adj[3][3] == ("var", "max_var")):
            raise Untranslatable("adj_var is not `np.minimum(var, <factor> * max_var)`: " + _norm(_one(gd, "adj_var")))
        out.append(f"Definition gen_clamp_factor : Q := {pyvalid.coq_q(e_adj[3][2][1])}.\n")
        out.append(definition("gen_adj_var", [("var", "Q"), ("max_var", "Q")], "Q", em.num(e_adj)))
        out.append(definition("gen_alpha", [("mu", "Q"), ("adj_var", "Q")], "Q", em.num(ex.expr(_one(gd, "alpha_param"), env, {}))))
        out.append(definition("gen_beta", [("mu", "Q"), ("adj_var", "Q")], "Q", em.num(ex.expr(_one(gd, "beta_param"), env, {}))))
        rvs = [n for n in ast.walk(gd) if isinstance(n, ast.Call) and dotted(n.func) == "beta.rvs"]
        if len(rvs) != 1 or [_norm(a) for a in rvs[0].args] != ["alpha_param", "beta_param"] or rvs[0].keywords:
            raise Untranslatable("expected exactly one `beta.rvs(alpha_param, beta_param)`")
        for nm in ("mu",):
            for a in _assigns(gd, nm):
                if _norm(a.value) != "df_long[feat + '_no_noise']":
                    raise Untranslatable("mu is not the clipped noiseless value")

        # rounding precision
        opts_node = _one(gd, "rounding_options")
        if not isinstance(opts_node, ast.Dict):
            raise Untranslatable("rounding_options is not a dict literal")
        opts = []
        for k, v in zip(opts_node.keys, opts_node.values):
            if not (isinstance(k, ast.Constant) and isinstance(k.value, int) and not isinstance(k.value, bool)):
                raise Untranslatable("rounding_options key")
            opts.append((k.value, pyvalid.const_float(v)))
        loops = [n for n in gd.body if isinstance(n, ast.For)]
        loop = [l for l in loops if _norm(l.iter) == "sorted(rounding_options.items())"]
        if len(loop) != 1:
            raise Untranslatable("no `for ... in sorted(rounding_options.items())`")
        loop = loop[0]
        if _norm(loop.target) != "(precision, val)" or loop.orelse or len(loop.body) != 1:
            raise Untranslatable("precision loop shape")
        iff = loop.body[0]
        if not (isinstance(iff, ast.If) and not iff.orelse and [_norm(s) for s in iff.body] == ["rounding_precision = precision", "break"]):
            raise Untranslatable("precision loop body: " + _norm(iff))
        # value of rounding_precision before the loop: `max(rounding_options)` / `min(...)` (largest / smallest key; the model's max_key / min_key),
        # an int literal, or None (the code before the repair 6d6bb6f: round(None) raises when no option fits)
        init = [a for a in gd.body if isinstance(a, ast.Assign) and len(a.targets) == 1 and _norm(a.targets[0]) == "rounding_precision"]
        stores = [n for n in ast.walk(gd) if isinstance(n, ast.Name) and n.id == "rounding_precision" and not isinstance(n.ctx, ast.Load)]
        i_opts = [i for i, s in enumerate(gd.body) if getattr(s, "value", None) is opts_node]
        if len(init) != 1 or len(stores) != 2 or len(i_opts) != 1 or not (i_opts[0] < gd.body.index(init[0]) < gd.body.index(loop)):
            raise Untranslatable("rounding_precision is not bound exactly once between rounding_options and the loop (and once inside it)")
        iv = init[0].value
        if isinstance(iv, ast.Constant) and iv.value is None:
            init_coq = "None"
        elif isinstance(iv, ast.Constant) and isinstance(iv.value, int) and not isinstance(iv.value, bool):
            init_coq = f"Some ({iv.value})%Z"
        elif _norm(iv) == "max(rounding_options)":
            init_coq = "max_key gen_rounding_options"
        elif _norm(iv) == "min(rounding_options)":
            init_coq = "min_key gen_rounding_options"
        else:
            raise Untranslatable("initial value of rounding_precision: " + _norm(iv))
        zt = {"min_spacing_between_visits": "Q"}
        exz = pysym.Exec(pysym.Spec(types=zt))
        body = "gen_precision_init"
        for p, v in reversed(sorted(opts)):        # sorted(): by key, as the code does
            c = exz.expr(iff.test, {"val": ("fconst", v), "precision": pysym.const(Fraction(p)),
                                    "min_spacing_between_visits": ("var", "min_spacing_between_visits")}, {})
            body = f"(if {Emit(zt, 'Q').boolean(c)} then Some ({p})%Z else {body})"
        out.append("Definition gen_rounding_options : list (Z * Q) := [" + "; ".join(f"(({p})%Z, {pyvalid.coq_q(v)})" for p, v in sorted(opts)) + "].\n")
        out.append(f"Definition gen_precision_init : option Z := {init_coq}.\n")
        out.append(definition("gen_precision", [("min_spacing_between_visits", "Q")], "option Z", body))
        # order of the post-processing statements: round, then keep-first de-duplication
        srcs = [_norm(s) for s in gd.body]
        i_round = [i for i, s in enumerate(srcs) if ".round(rounding_precision)" in s]
        i_dup = [i for i, s in enumerate(srcs) if "duplicated(" in s]
        if len(i_round) != 1 or len(i_dup) != 1:
            raise Untranslatable("expected one rounding statement and one de-duplication statement")
        if srcs[i_round[0]] != "df_sim.loc[:, 'TIME'] = df_sim['TIME'].round(rounding_precision)":
            raise Untranslatable("rounding statement: " + srcs[i_round[0]])
        dup = [n for n in ast.walk(gd.body[i_dup[0]]) if isinstance(n, ast.Call) and isinstance(n.func, ast.Attribute) and n.func.attr == "duplicated"][0]
        keep = {k.arg: k.value for k in dup.keywords}
        if dup.args or set(keep) - {"keep"} or ("keep" in keep and not isinstance(keep["keep"], ast.Constant)):
            raise Untranslatable("duplicated(...) arguments")
        keep_first = ("keep" not in keep) or keep["keep"].value == "first"
        if srcs[i_dup[0]].replace("keep='first'", "") != "df_sim = df_sim[~df_sim.index.duplicated()]":
            if keep_first:
                raise Untranslatable("de-duplication statement: " + srcs[i_dup[0]])
        out.append(f"Definition gen_keep_first : bool := {coq_bool(keep_first)}.\n")
        out.append(f"Definition gen_round_before_dedup : bool := {coq_bool(i_round[0] < i_dup[0])}.\n")

        # default spacing (_run)
        gets = [n for n in ast.walk(base["_run"]) if isinstance(n, ast.Call) and isinstance(n.func, ast.Attribute) and n.func.attr == "get"
                and dotted(n.func.value) == "self.param_study"]
        if len(gets) != 1 or len(gets[0].args) != 2 or _norm(gets[0].args[0]) != "'min_spacing_between_visits'":
            raise Untranslatable("expected `self.param_study.get('min_spacing_between_visits', <default>)` in _run")
        out.append(f"Definition gen_default_spacing : Q := {pyvalid.coq_q(pyvalid.const_float(gets[0].args[1]))}.\n")

        # _set_param_study
        sp = _body(M["_set_param_study"])
        if len(sp) != 1 or not isinstance(sp[0], ast.If) or _norm(sp[0].test) != "self.visit_type == VisitType.DATAFRAME":
            raise Untranslatable("_set_param_study shape")
        if [_norm(s) for s in sp[0].body] != [
                "patient_number = dict_param['df_visits'].groupby('ID').size().shape[0]",
                "self.param_study = {'patient_number': patient_number, 'df_visits': dict_param['df_visits']}"]:
            raise Untranslatable("_set_param_study, dataframe branch")
        el = sp[0].orelse
        if len(el) != 1 or not isinstance(el[0], ast.If) or _norm(el[0].test) != "self.visit_type == VisitType.RANDOM" or el[0].orelse:
            raise Untranslatable("_set_param_study, random branch")
        rb = el[0].body
        d0 = rb[0]
        if not (isinstance(d0, ast.Assign) and _norm(d0.targets[0]) == "self.param_study" and isinstance(d0.value, ast.Dict)):
            raise Untranslatable("random branch does not start with `self.param_study = {...}`")
        required = []
        for k, v in zip(d0.value.keys, d0.value.values):
            if not (isinstance(k, ast.Constant) and _norm(v) == f"dict_param[{k.value!r}]"):
                raise Untranslatable("param_study entry " + _norm(v))
            required.append(k.value)
        optional = []
        for st in rb[1:]:
            if not (isinstance(st, ast.If) and not st.orelse and isinstance(st.test, ast.Compare) and isinstance(st.test.left, ast.Constant)
                    and _norm(st.test) == f"{st.test.left.value!r} in dict_param" and len(st.body) == 1
                    and _norm(st.body[0]) == f"self.param_study[{st.test.left.value!r}] = dict_param[{st.test.left.value!r}]"):
                raise Untranslatable("optional key block " + _norm(st)[:80])
            optional.append(st.test.left.value)
        out.append("Definition gen_random_required : list string := " + coq_list(coq_string(k) for k in required) + ".\n")
        out.append("Definition gen_random_optional : list string := " + coq_list(coq_string(k) for k in optional) + ".\n")

        # __init__ order
        if [_norm(s) for s in _body(M["__init__"])] != [
                "super().__init__(settings)", "self.features = settings.parameters['features']",
                "self.visit_type = settings.parameters['visit_parameters']['visit_type']",
                "self._set_param_study(settings.parameters['visit_parameters'])", "self._validate_algo_parameters()"]:
            raise Untranslatable("__init__ shape")

        # _check_params rows
        reqs = pyvalid.literal_requirements(cls)
        if sorted(reqs) != ["dataframe", "random"]:
            raise Untranslatable("visit types of _PARAM_REQUIREMENTS: " + str(sorted(reqs)))
        out.append("Definition gen_rows_random : list row := " + pyvalid.coq_rows(pyvalid.compile_check_params(M["_check_params"], reqs["random"])) + ".\n")
        out.append("Definition gen_rows_frame : list row := " + pyvalid.coq_rows(pyvalid.compile_check_params(M["_check_params"], reqs["dataframe"])) + ".\n")

        # _validate_algo_parameters
        vb = _body(M["_validate_algo_parameters"])
        shape = _shape(vb[:-1])
        want = ["self._check_features()", "requirements = self._PARAM_REQUIREMENTS.get(self.visit_type)",
                "if not requirements:\n    raise LeaspyAlgoInputError", "self._check_params(requirements)",
                "if self.visit_type == VisitType.DATAFRAME:\n    df = self.param_study['df_visits']\n"
                "    if 'ID' not in df.columns or 'TIME' not in df.columns:\n        raise LeaspyAlgoInputError\n"
                "    if df['TIME'].isnull().any():\n        raise LeaspyAlgoInputError"]
        if shape != want:
            raise Untranslatable("_validate_algo_parameters shape:\n" + "\n".join(shape))
        last = vb[-1]
        if not (isinstance(last, ast.If) and _norm(last.test) == "self.visit_type == VisitType.RANDOM" and not last.orelse
                and len(last.body) == 1 and isinstance(last.body[0], ast.If) and not last.body[0].orelse
                and len(last.body[0].body) == 1 and isinstance(last.body[0].body[0], ast.Raise)
                and dotted(last.body[0].body[0].exc.func) == "LeaspyAlgoInputError"):
            raise Untranslatable("random branch of _validate_algo_parameters")
        t = last.body[0].test
        conj = t.values if isinstance(t, ast.BoolOp) and isinstance(t.op, ast.And) else [t]
        final = []
        for c in conj:
            if not (isinstance(c, ast.Compare) and len(c.ops) == 1 and isinstance(c.left, ast.Subscript) and dotted(c.left.value) == "self.param_study"
                    and isinstance(c.left.slice, ast.Constant) and isinstance(c.comparators[0], ast.Constant) and c.comparators[0].value == 0
                    and isinstance(c.ops[0], (ast.LtE, ast.Lt))):
                raise Untranslatable("final random test " + _norm(c))
            final.append(f"({coq_string(c.left.slice.value)}, {'Le0' if isinstance(c.ops[0], ast.LtE) else 'Lt0'})")
        out.append("Definition gen_random_final : list (string * cmpop) := " + coq_list(final) + ".\n")

        # _check_features: known shape (its decision is tied by exhaustive correspondence)
        if _shape(_body(M["_check_features"])) != CHECK_FEATURES_SHAPE:
            raise Untranslatable("_check_features shape:\n" + "\n".join(_shape(_body(M["_check_features"]))))
        # the generation statements (draws of the individual parameters, visit ages, pipeline order)
        out.append(c18_gen.translate_generation(M, base["_run"]))
        run.gen("GenC18", "\n".join(out))
        run.trusted.append("translator harness/translate/pyvalid.py + pysym.py + harness/props/c18.py (python ast -> requirement rows, key lists, "
                           "constants, beta parameters, precision loop and the value bound before it, statement order of simulate.py / base.py); "
                           "harness/translate/c18_gen.py (generation statements -> gen_prog_src); Coq primitive floats = IEEE binary64 (SimulateGenFloat.v)")
        return True
    except (Untranslatable, KeyError, OSError, SyntaxError, IndexError, AttributeError) as e:
        run.broken("translate:GenC18", f"{type(e).__name__}: {e}", kind="broken-translation")
        return False



# ----------------------------------------------------------------------------- abstract designs <-> python / coq
# a parameter value: ("int", z) ("bool", b) ("float", x) ("str",) ("none",) ("frame", has_id, has_time, rows)
# rows: [(id, time)] with id = str | int | None and time = float | None


def pv_py(v):
    import pandas as pd
    k = v[0]
    if k in ("int", "bool", "float"):
        return v[1]
    if k == "str":
        return "abc"
    if k == "none":
        return None
    if k == "frame":
        _, has_id, has_time, rows = v
        cols = {}
        cols["ID" if has_id else "IDENT"] = [r[0] for r in rows]
        cols["TIME" if has_time else "AGE"] = [float("nan") if r[1] is None else r[1] for r in rows]
        df = pd.DataFrame(cols)
        if not rows:
            df = df.astype({c: (object if c.startswith("ID") else float) for c in df.columns})
        # the row labels of the caller's table carry no meaning (only the ID and TIME columns are required): tables arrive with
        # repeated labels (two tables concatenated without ignore_index) or in another label order as often as with 0..n-1
        n = len(rows)
        if n >= 2 and n % 2 == 0:
            df.index = [j % (n // 2) for j in range(n)]
        elif n >= 3 and n % 3 == 0:
            df.index = list(range(n - 1, -1, -1))
        return df
    raise ValueError(v)


def coq_id(i):
    if i is None:
        return "IdNull"
    if isinstance(i, int):
        return f"(IdInt {coq_Z(i)})"
    return f"(IdStr {coq_string(i)})"


def pv_coq(v):
    k = v[0]
    if k == "int":
        return f"(VInt {coq_Z(v[1])})"
    if k == "bool":
        return f"(VBool {coq_bool(v[1])})"
    if k == "float":
        return f"(VFloat {coq_Q(v[1])})"
    if k == "str":
        return "VStr"
    if k == "none":
        return "VNone"
    if k == "frame":
        _, has_id, has_time, rows = v
        rs = coq_list(f"({coq_id(i)}, {'None' if t is None else 'Some ' + coq_Q(t)})" for i, t in rows)
        return f"(VFrame {{| has_id := {coq_bool(has_id)}; has_time := {coq_bool(has_time)}; rows := {rs} |}})"
    raise ValueError(v)


def feats_py(f):
    # ("notlist", obj) | ("list", [str | ("other", obj)])
    if f[0] == "notlist":
        return f[1]
    return [x if isinstance(x, str) else x[1] for x in f[1]]


def feats_coq(f):
    if f[0] == "notlist":
        return "FsNotList"
    return "(FsList " + coq_list(f"(FStr {coq_string(x)})" if isinstance(x, str) else "FOther" for x in f[1]) + ")"


def design_py(d):
    vp = {k: pv_py(v) for k, v in d["params"].items()}
    if d["visit_type"] is not None:
        vp["visit_type"] = d["visit_type"]
    return feats_py(d["features"]), vp


def design_coq(d):
    vt = {None: "None", "random": "(Some VtRandom)", "dataframe": "(Some VtDataframe)"}.get(d["visit_type"], "(Some VtOther)")
    ps = coq_list(f"({coq_string(k)}, {pv_coq(v)})" for k, v in d["params"].items())
    return f"{{| d_features := {feats_coq(d['features'])}; d_visit_type := {vt}; d_params := {ps} |}}"


def design_json(d):
    def j(v):
        if v[0] == "frame":
            return dict(kind="frame", has_id=v[1], has_time=v[2], rows=[[i, t] for i, t in v[3]])
        return list(v)
    return dict(features=[d["features"][0], [x if isinstance(x, str) else "<non-str>" for x in d["features"][1]] if d["features"][0] == "list" else repr(d["features"][1])],
                visit_type=d["visit_type"], params={k: j(v) for k, v in d["params"].items()})


def design_from_json(j):
    def u(v):
        if isinstance(v, dict):
            return ("frame", v["has_id"], v["has_time"], [(i, t) for i, t in v["rows"]])
        return tuple(v)
    f = j["features"]
    feats = ("list", [x if x != "<non-str>" else ("other", 3) for x in f[1]]) if f[0] == "list" else ("notlist", None)
    return dict(features=feats, visit_type=j["visit_type"], params={k: u(v) for k, v in j["params"].items()})


RANDOM_KEYS = ["patient_number", "first_visit_mean", "first_visit_std", "time_follow_up_mean", "time_follow_up_std",
               "distance_visit_mean", "distance_visit_std"]
GOOD = {"patient_number": ("int", 4), "first_visit_mean": ("float", 0.0), "first_visit_std": ("float", 0.4),
        "time_follow_up_mean": ("int", 4), "time_follow_up_std": ("float", 0.5), "distance_visit_mean": ("float", 0.5),
        "distance_visit_std": ("float", 0.1)}


def is_num(v):
    return v[0] in ("int", "bool", "float")


def documented_ok(d) -> bool:
    """The documented requirements (class docstring, _check_features/_check_params docstrings, error messages),
    written independently of the code."""
    f = d["features"]
    if f[0] != "list" or not f[1] or any((not isinstance(x, str)) or not x.strip() for x in f[1]):
        return False
    P = d["params"]
    if d["visit_type"] == "random":
        for k in RANDOM_KEYS:
            if k not in P:
                return False
        if P["patient_number"][0] not in ("int", "bool") or P["patient_number"][1] <= 0:
            return False
        for k in RANDOM_KEYS[1:]:
            if not is_num(P[k]):
                return False
            if k.endswith("_std") and P[k][1] < 0:
                return False
        if "min_spacing_between_visits" in P:
            v = P["min_spacing_between_visits"]
            if not is_num(v) or v[1] < 0:
                return False
        if P["distance_visit_mean"][1] <= 0 and P["distance_visit_std"][1] <= 0:
            return False
        return True
    if d["visit_type"] == "dataframe":
        v = P.get("df_visits")
        if v is None or v[0] != "frame" or not v[1] or not v[2]:
            return False
        return all(t is not None for _, t in v[3])
    return False


def crash_reason(d, shape):
    """Which side condition of `runnable` (SimulateProofs.v) an accepted design violates; None when it should run."""
    P = d["params"]
    n_feat = len(d["features"][1])
    names = d["features"][1]
    if d["visit_type"] == "random":
        pn = P["patient_number"]
        if pn[0] == "bool":
            return "run:bool-patient-number"
        n = pn[1]
        ids = []
    else:
        ids = [i for i, _ in P["df_visits"][3]]
        n = len({i for i in ids if i is not None})
    if any(i is None for i in ids):
        return "run:table-null-id"
    if shape[1] == 0:
        return "run:model-without-sources"
    if n_feat != shape[0]:
        return "run:feature-count-differs-from-model"
    if any(isinstance(i, int) for i in ids):
        return "run:table-non-string-ids"
    if n <= 0:
        return "run:table-empty"
    if n == 1:
        return "run:single-individual"
    if len(set(names)) != len(names):
        return "run:duplicate-feature-names"
    if d["visit_type"] == "random" and "min_spacing_between_visits" in P and P["min_spacing_between_visits"][1] < 0.001:
        return "run:min-spacing-below-0.001"      # repaired by leaspy 6d6bb6f (fixed finding): a crash here is a regression
    return None


# ----------------------------------------------------------------------------- implementation side


class Recorder:
    """Wraps (never replaces) the generators used by simulate: numpy normal draws, scipy beta.rvs, estimate,
    _generate_visit_ages.  Everything is restored by close()."""

    class Budget(Exception):
        pass

    def __init__(self, model, scalar_budget=20000):
        import numpy as np
        import leaspy.algo.simulate.simulate as sim_mod
        self.np, self.sim_mod, self.model = np, sim_mod, model
        self.normal_calls = []      # (size, result)
        self.normal_args = []       # (loc, scale) of the same calls
        self.rvs = []               # dict(mu, var, adj, a, b, y) per feature
        self.estimate_out = None
        self.timepoints = None
        self.scalar_budget = scalar_budget
        self.n_scalar = 0
        rec = self
        self._orig_normal = np.random.normal
        self._orig_beta = sim_mod.beta
        self._orig_gva = sim_mod.SimulationAlgorithm._generate_visit_ages

        def normal(*a, **k):
            r = rec._orig_normal(*a, **k)
            size = k.get("size", a[2] if len(a) > 2 else None)
            if size is None:
                rec.n_scalar += 1
                if rec.n_scalar > rec.scalar_budget:
                    raise Recorder.Budget(f"more than {rec.scalar_budget} scalar draws")
            rec.normal_calls.append((size, r))
            rec.normal_args.append((k.get("loc", a[0] if len(a) > 0 else 0.0), k.get("scale", a[1] if len(a) > 1 else 1.0)))
            return r

        class BetaProxy:
            def __getattr__(self, name):
                return getattr(rec._orig_beta, name)

            def rvs(self, a, b, *args, **kw):
                import sys
                y = rec._orig_beta.rvs(a, b, *args, **kw)
                loc = sys._getframe(1).f_locals
                rec.rvs.append(dict(mu=loc.get("mu"), var=loc.get("var"), adj=loc.get("adj_var"), a=a, b=b, y=y, feat=loc.get("feat")))
                return y

        def gva(self_, df):
            r = rec._orig_gva(self_, df)
            rec.timepoints = {k: list(v) for k, v in r.items()}
            return r

        np.random.normal = normal
        sim_mod.beta = BetaProxy()
        sim_mod.SimulationAlgorithm._generate_visit_ages = gva
        orig_est = model.estimate

        def est(*a, **k):
            r = orig_est(*a, **k)
            rec.estimate_out = {i: (v.detach().clone() if hasattr(v, "detach") else v.copy()) for i, v in r.items()}
            return r
        model.estimate = est

    def close(self):
        self.np.random.normal = self._orig_normal
        self.sim_mod.beta = self._orig_beta
        self.sim_mod.SimulationAlgorithm._generate_visit_ages = self._orig_gva
        try:
            del self.model.estimate
        except AttributeError:
            pass


def rng_fingerprint():
    import numpy as np, torch, random, hashlib
    st = np.random.get_state()
    h = hashlib.sha1()
    h.update(st[1].tobytes()); h.update(str(st[2:]).encode())
    h.update(torch.get_rng_state().numpy().tobytes())
    h.update(repr(random.getstate()).encode())
    return h.hexdigest()


def call_simulate(model, d, seed, record=True, budget=20000):
    """-> (outcome 'ok'|'refuse'|'crash', result|exception, recorder, drew_before_outcome)"""
    from leaspy.exceptions import LeaspyAlgoInputError
    import numpy as np
    feats, vp = design_py(d)
    np.random.seed(seed % (2 ** 31))
    rec = Recorder(model, budget)
    fp0 = rng_fingerprint()
    try:
        with warnings.catch_warnings(), contextlib.redirect_stdout(io.StringIO()):
            warnings.simplefilter("ignore")
            r = model.simulate(algorithm="simulate", features=feats, visit_parameters=vp)
        return "ok", r, rec, True
    except LeaspyAlgoInputError as e:
        drew = (rng_fingerprint() != fp0) or bool(rec.normal_calls) or bool(rec.rvs)
        return "refuse", e, rec, drew
    except Recorder.Budget as e:
        return "budget", e, rec, True
    except Exception as e:  # noqa
        return "crash", e, rec, True
    finally:
        rec.close()


def call_constructor(d):
    from leaspy.algo import AlgorithmSettings
    from leaspy.algo.simulate.simulate import SimulationAlgorithm
    from leaspy.exceptions import LeaspyAlgoInputError
    feats, vp = design_py(d)
    try:
        with warnings.catch_warnings():
            warnings.simplefilter("ignore")
            st = AlgorithmSettings("simulate", features=feats, visit_parameters=vp)
            SimulationAlgorithm(st)
        return "ok", None
    except LeaspyAlgoInputError as e:
        return "refuse", e
    except Exception as e:  # noqa
        return "crash", e


CODE = {"ok": 0, "refuse": 1, "crash": 2}
HDR = ("From Coq Require Import ZArith QArith Qabs Bool List String.\nFrom Leaspy Require Import Base.QAux Api.Simulate Api.SimulateProofs Api.SimulateTie.\n"
       "From LeaspyGen Require Import GenC18.\nImport ListNotations.\n"
       "Definition oc {A} (o : outcome A) : nat := match o with Ok _ => 0 | Refuse => 1 | Crash => 2 end.\n"
       "Definition qclose (tol a b : Q) : bool := Qle_bool (Qabs (a - b)) (tol * (Qabs a + Qabs b) + (1 # 1000000000000)).\n")


# ---- C. decision table of the constructor


def decision_table(run: Run, thorough: bool):
    rng = run.rng("table")
    classes = {
        "patient_number": [[("int", 4), ("int", 1), ("int", 7), ("bool", True)], [("int", 0), ("int", -3), ("float", 2.5), ("float", 3.0)],
                           [None, ("str",), ("none",)]],
        "mean": [[("float", 0.5), ("int", 2), ("float", -1.5), ("int", 0)], [("bool", False), ("float", 0.0)], [None, ("str",), ("none",)]],
        "std": [[("float", 0.25), ("int", 0), ("float", 0.0), ("int", 1)], [("float", -0.5), ("int", -1)], [None, ("str",), ("none",)]],
        "min_spacing_between_visits": [[None, ("float", 0.125), ("int", 1), ("float", 0.00048828125), ("int", 0)], [("float", -0.5), ("int", -2)],
                                       [("str",), ("none",)]],
    }
    keys = RANDOM_KEYS + ["min_spacing_between_visits"]
    designs = []
    good_feats = ("list", ["Y0", "Y1"])
    for combo in itertools.product(range(3), repeat=len(keys)):
        P = {}
        for k, c in zip(keys, combo):
            cl = classes[k] if k in classes else classes["std" if k.endswith("_std") else "mean"]
            v = rng.choice(cl[c])
            if v is not None:
                P[k] = v
        designs.append(dict(features=good_feats, visit_type="random", params=P, grid=True))
    # the final sign rule, full grid
    for m, s_ in itertools.product([-1.0, 0.0, 0, 0.5, 2, False, True], [0.0, 0, 0.5, 1, -0.5, False]):
        P = dict(GOOD)
        P["distance_visit_mean"] = ("bool", m) if isinstance(m, bool) else (("int", m) if isinstance(m, int) else ("float", m))
        P["distance_visit_std"] = ("bool", s_) if isinstance(s_, bool) else (("int", s_) if isinstance(s_, int) else ("float", s_))
        designs.append(dict(features=good_feats, visit_type="random", params=P))
    # features x visit types
    feats = [("list", ["Y0", "Y1"]), ("list", []), ("notlist", "Y0"), ("notlist", ("Y0", "Y1")), ("notlist", None), ("list", ["Y0", ("other", 3)]),
             ("list", ["Y0", " "]), ("list", ["", "Y1"]), ("list", ["\t\n", "Y1"]), ("list", [("other", None)]), ("list", ["a b", "Y0"]),
             ("list", ["Y0", "Y0"]), ("list", [" x "]), ("list", ["\x1f"]), ("list", ["\x0b\x0c "]), ("notlist", {"Y0": 1})]
    frames = [("frame", True, True, [("a", 50.0), ("b", 51.0), ("a", 52.5)]), ("frame", True, True, []), ("frame", False, True, [("a", 50.0)]),
              ("frame", True, False, [("a", 50.0)]), ("frame", False, False, []), ("frame", True, True, [("a", None), ("b", 51.0)]),
              ("frame", True, True, [(1, 50.0), (2, 51.0)]), ("frame", True, True, [("a", 50.0), (None, 51.0)]), ("frame", True, False, [("a", None)])]
    for f in feats:
        designs.append(dict(features=f, visit_type="random", params=dict(GOOD)))
        designs.append(dict(features=f, visit_type="dataframe", params={"df_visits": frames[0]}))
        designs.append(dict(features=f, visit_type="regular", params=dict(GOOD)))
        designs.append(dict(features=f, visit_type=None, params=dict(GOOD)))
        designs.append(dict(features=f, visit_type="random", params={"patient_number": ("int", 3)}))
        designs.append(dict(features=f, visit_type="dataframe", params={}))
    for fr in frames:
        designs.append(dict(features=good_feats, visit_type="dataframe", params={"df_visits": fr}))
        designs.append(dict(features=good_feats, visit_type="dataframe", params={"df_visits": fr, "min_spacing_between_visits": ("str",)}))
    for v in [("str",), ("none",), ("int", 3), ("float", 1.5)]:
        designs.append(dict(features=good_feats, visit_type="dataframe", params={"df_visits": v}))
    designs.append(dict(features=good_feats, visit_type="dataframe", params=dict(GOOD)))
    designs.append(dict(features=good_feats, visit_type="random", params=dict(GOOD, df_visits=frames[0])))

    cases, meta = [], []
    for d in designs:
        o, e = call_constructor(d)
        doc = documented_ok(d)
        run.case(("ctor", repr(design_json(d))), nontrivial=(o != "ok") or "min_spacing_between_visits" in d["params"])
        run.count("constructor-outcome", o)
        if d.get("grid"):
            args = " ".join(("(Some " + pv_coq(d["params"][k]) + ")") if k in d["params"] else "None" for k in keys)
            cases.append(f"(R8 {args}, {CODE[o]}%nat)")
        else:
            cases.append(f"({design_coq(d)}, {CODE[o]}%nat)")
        meta.append((d, o, e))
        if o == "crash" and not doc:
            site = "missing-key" if isinstance(e, (KeyError, AttributeError)) else "uncomparable-value"
            if d["visit_type"] is None:
                site = "missing-key"
            run.fail(f"validate:{site}-raises-{type(e).__name__}",
                     f"a design violating the documented requirements is refused with {type(e).__name__}, not LeaspyAlgoInputError",
                     design_json(d), expected="LeaspyAlgoInputError", observed=f"{type(e).__name__}: {str(e)[:120]}")
        elif o == "crash" and doc:
            run.fail(f"validate:documented-design-raises-{type(e).__name__}", "constructor raises on a design that satisfies the documented requirements",
                     design_json(d), expected="accepted", observed=f"{type(e).__name__}: {str(e)[:120]}")
        elif o == "ok" and not doc:
            run.fail("validate:accepts-undocumented-design", "constructor accepts a design that violates the documented requirements",
                     design_json(d), expected="LeaspyAlgoInputError", observed="accepted")
        elif o == "refuse" and doc:
            run.fail("validate:refuses-documented-design", "constructor refuses a design that satisfies the documented requirements",
                     design_json(d), expected="accepted", observed=str(e)[:160])
    run.log(f"{len(cases)} constructor calls done")
    run.sample(dict(kind="constructor", design=design_json(designs[1234 % len(designs)]), outcome=meta[1234 % len(designs)][1]))
    r8 = ("Definition opt (k : string) (v : option pyval) : dict := match v with Some x => [(k, x)] | None => [] end.\n"
          "Definition R8 (a b c d e f g h : option pyval) : design := {| d_features := two_features; d_visit_type := Some VtRandom; d_params := ("
          + " ++ ".join(f"opt {coq_string(k)} {x}" for k, x in zip(keys, "abcdefgh")) + ")%list |}.\n")
    bad = run.vm_bad_indices("ctor", HDR + r8, "design * nat", cases, "(fun c => Nat.eqb (oc (construct (fst c))) (snd c))", shard=450)
    for i in bad or []:
        d, o, e = meta[i]
        run.fail(f"decision-table:impl-{o}", "constructor outcome differs from the model's decision function (construct)", design_json(d),
                 expected="model: see Api/Simulate.v construct", observed=f"{o} {type(e).__name__ if e else ''}")
    run.extra["decision_table_cases"] = len(cases)


# ---- D/E. runs


def build_models(run: Run, thorough: bool):
    from harness import synth
    cfgs = [(2, 1, "gaussian-diagonal"), (3, 2, "gaussian-scalar"), (4, 2, "gaussian-diagonal"), (1, None, None), (3, 0, None)]
    if thorough:
        cfgs += [(3, 1, "gaussian-diagonal"), (4, 1, "gaussian-scalar"), (2, 1, "gaussian-scalar"), (2, 0, "gaussian-diagonal")]
    out = []
    for j, (nf, sd, noise) in enumerate(cfgs):
        m, _ = synth.fit("logistic", n_iter=15, seed=(run.seed + j) % 1000, n_feat=nf, source_dimension=sd, noise=noise, n_ind=10)
        out.append((m, (nf, int(m.source_dimension)), dict(n_feat=nf, source_dimension=int(m.source_dimension), noise=noise or "default",
                                                          noise_std=[float(x) for x in m.parameters["noise_std"].reshape(-1)])))
    return out


def random_designs(rng, nf, thorough):
    feats = ("list", [f"Y{i}" for i in range(nf)])
    out = []
    specs = [
        dict(),                                                     # no explicit spacing -> 3 decimals
        dict(min_spacing_between_visits=("float", 0.01)),
        dict(min_spacing_between_visits=("int", 1), distance_visit_mean=("float", 0.3), distance_visit_std=("float", 0.2)),
        dict(min_spacing_between_visits=("float", 0.1), distance_visit_mean=("float", 0.05), distance_visit_std=("float", 0.04),
             patient_number=("int", 3), time_follow_up_mean=("float", 1.5)),
        dict(min_spacing_between_visits=("float", 0.5), distance_visit_std=("int", 0)),
        dict(patient_number=("int", 2), first_visit_mean=("float", 40.0)),          # far after onset: values near 1, clamp active
        dict(patient_number=("int", 3), first_visit_mean=("float", -60.0), min_spacing_between_visits=("float", 0.001)),
        dict(patient_number=("int", 12), time_follow_up_mean=("int", 0), time_follow_up_std=("int", 0)),     # single visit or two
        dict(first_visit_mean=("float", 1e4)), dict(first_visit_mean=("float", -1e4)),                       # clip bounds
        dict(distance_visit_mean=("float", 0.0), distance_visit_std=("float", 0.5), time_follow_up_mean=("int", 1)),
        dict(patient_number=("int", 5), min_spacing_between_visits=("int", 3), time_follow_up_mean=("float", -6.0)),
        # spacings below the finest option (accepted; 3 decimals since leaspy 6d6bb6f), visits dense enough to collide after rounding
        dict(min_spacing_between_visits=("float", 0.0002), distance_visit_mean=("float", 0.0015), distance_visit_std=("float", 0.001),
             time_follow_up_mean=("float", 0.02), time_follow_up_std=("float", 0.005)),
        dict(min_spacing_between_visits=("int", 0), patient_number=("int", 3), distance_visit_mean=("float", 0.0004),
             distance_visit_std=("float", 0.0001), time_follow_up_mean=("float", 0.006), time_follow_up_std=("float", 0.001)),
        dict(min_spacing_between_visits=("float", 0.00099999)),
    ]
    for sp in specs:
        out.append(dict(features=feats, visit_type="random", params=dict(GOOD, **sp)))
    for _ in range(6 if thorough else 2):
        P = dict(GOOD, patient_number=("int", rng.randint(2, 9)), first_visit_mean=("float", rng.uniform(-15, 15)),
                 first_visit_std=("float", rng.uniform(0, 3)), time_follow_up_mean=("float", rng.uniform(0, 6)),
                 distance_visit_mean=("float", rng.uniform(0.02, 1.5)), distance_visit_std=("float", rng.uniform(0, 0.5)))
        if rng.random() < 0.7:
            P["min_spacing_between_visits"] = ("float", rng.choice([0.0, 1e-6, 0.0005, 0.001, 0.002, 1 / 365, 0.01, 0.05, 0.1, 0.25, 1.0, 2.5]))
        out.append(dict(features=feats, visit_type="random", params=P))
    return out


def table_designs(rng, nf, thorough):
    feats = ("list", [f"F{i}" for i in range(nf)])
    out = []
    tables = [
        [("p1", 50.0), ("p1", 51.0), ("p2", 52.0)],
        [("b", 70.25), ("a", 60.0), ("b", 65.5), ("a", 59.0), ("b", 70.2504), ("b", 70.2496)],      # unsorted, duplicates after rounding
        [("a", 50.0), ("a", 50.0), ("a", 50.0001), ("b", 60.00049), ("b", 60.0), ("b", 61)],
        [("x", 55.0), ("y", 80.0)],                                                                # one visit each
        [("10", 71.1234), ("9", 72.9876), ("10", 71.1236), ("2", 60.5)],
        [("late", 150.0), ("late", 151.0), ("early", -20.0), ("early", -19.0)],
    ]
    for _ in range(5 if thorough else 2):
        ids = [f"s{j}" for j in range(rng.randint(2, 5))]
        rows = []
        for i in ids:
            base = rng.uniform(55, 85)
            for _k in range(rng.randint(1, 6)):
                t = round(base + rng.uniform(0, 5), 3) + rng.choice([0, 0, 0.0002, -0.0003, 0.0004, 0.00049])
                rows.append((i, t))
                if rng.random() < 0.25:
                    rows.append((i, t + rng.choice([0.0, 0.0001, -0.0001])))
        rng.shuffle(rows)
        tables.append(rows)
    for rows in tables:
        out.append(dict(features=feats, visit_type="dataframe", params={"df_visits": ("frame", True, True, [(i, float(t)) for i, t in rows])}))
    return out


def directed_designs(nf):
    """One violated side condition at a time (plus refused designs for the timing check)."""
    feats = ("list", [f"Y{i}" for i in range(nf)])
    fr = lambda rows: {"df_visits": ("frame", True, True, rows)}
    out = [
        dict(features=feats, visit_type="random", params=dict(GOOD, min_spacing_between_visits=("float", 0.0005))),
        dict(features=feats, visit_type="random", params=dict(GOOD, min_spacing_between_visits=("int", 0))),
        dict(features=feats, visit_type="random", params=dict(GOOD, patient_number=("int", 1))),
        dict(features=feats, visit_type="random", params=dict(GOOD, patient_number=("bool", True))),
        dict(features=("list", [f"Y{i}" for i in range(nf + 1)]), visit_type="random", params=dict(GOOD)),
        dict(features=feats, visit_type="dataframe", params=fr([(1, 50.0), (1, 51.0), (2, 52.0)])),
        dict(features=feats, visit_type="dataframe", params=fr([("a", 50.0), (None, 51.0), ("b", 52.0)])),
        dict(features=feats, visit_type="dataframe", params=fr([])),
        dict(features=feats, visit_type="dataframe", params=fr([("a", 50.0), ("a", 51.0)])),
        # refused
        dict(features=feats, visit_type="random", params=dict(GOOD, patient_number=("int", 0))),
        dict(features=feats, visit_type="random", params=dict(GOOD, first_visit_std=("float", -1.0))),
        dict(features=feats, visit_type="random", params=dict(GOOD, distance_visit_mean=("int", 0), distance_visit_std=("int", 0))),
        dict(features=("list", []), visit_type="random", params=dict(GOOD)),
        dict(features=feats, visit_type="dataframe", params=fr([("a", 50.0), ("a", None)])),
        dict(features=feats, visit_type="regular", params=dict(GOOD)),
        dict(features=feats, visit_type="random", params=dict(GOOD, min_spacing_between_visits=("float", -0.01))),
    ]
    if nf >= 2:
        out.append(dict(features=("list", ["Y0"] * nf), visit_type="random", params=dict(GOOD)))
        out.append(dict(features=("list", [f"Y{i}" for i in range(nf - 1)]), visit_type="random", params=dict(GOOD)))
    return out


def expected_precision(d):
    """Documented precision, written independently of the code: the coarsest of 0..3 decimals whose unit 10^-p is <= the
    requested spacing; nobody wants more than a day (0.001 year), so finer spacings (0 included) get 3 decimals."""
    ms = d["params"].get("min_spacing_between_visits", ("float", 1 / 365))[1] if d["visit_type"] == "random" else 1 / 365
    for p, v in enumerate([1, 0.1, 0.01, 0.001]):
        if v <= ms:
            return p
    return 3


def tape_replay(d, nsrc, rec):
    """From-scratch recomputation (binary64, numpy scalars) of the requested visit ages from the TAPE of numpy.random.normal: the values
    the successive calls returned.  Also checks which call was made (location, scale, size).  -> (requested per id, problem | None)"""
    import numpy as np
    P = d["params"]
    ids = requested_ids(d)
    n = len(ids)
    calls = list(zip(rec.normal_calls, rec.normal_args))
    pos = [0]

    def take(size, loc=None, scale=None):
        if pos[0] >= len(calls):
            raise LookupError("the tape is shorter than the documented generation")
        (sz, r), (lo, sc) = calls[pos[0]]
        pos[0] += 1
        if (sz is None) != (size is None) or (size is not None and int(sz) != size):
            raise LookupError(f"call {pos[0] - 1}: size {sz}, documented {size}")
        if loc is not None and (float(lo) != float(loc) or float(sc) != float(scale)):
            raise LookupError(f"call {pos[0] - 1}: normal({float(lo)}, {float(sc)}), documented normal({float(loc)}, {float(scale)})")
        return np.float64(r) if size is None else np.asarray(r, dtype=np.float64).reshape(-1)
    try:
        take(n)                        # xi
        tau = take(n)
        for _ in range(nsrc):
            take(n, 0.0, 1.0)
        if d["visit_type"] != "random":
            req = {i: [np.float64(t) for j, t in P["df_visits"][3] if j == i] for i in ids}
        else:
            base = tau + take(n, P["first_visit_mean"][1], P["first_visit_std"][1])
            fu = base + np.abs(take(n, P["time_follow_up_mean"][1], P["time_follow_up_std"][1]))
            req = {}
            for k, i in enumerate(ids):
                t = base[k]
                ages = [t]
                while t < fu[k]:
                    t = t + take(None, P["distance_visit_mean"][1], P["distance_visit_std"][1])
                    ages.append(t)
                req[i] = ages
        if pos[0] != len(calls):
            raise LookupError(f"{len(calls) - pos[0]} more numpy.random.normal calls than the documented generation makes")
    except LookupError as e:
        return None, str(e)
    return req, None


def check_result(run: Run, d, shape, seed, res, rec, info):
    """Property oracles on one completed run; returns the recorded rows for the model correspondence."""
    import numpy as np
    inp = dict(design=design_json(d), model=info, seed=seed)
    feats = d["features"][1]
    df = res.data.to_dataframe()
    ip = res.individual_parameters
    p = expected_precision(d)
    ok = True

    def bad(sig, what, exp=None, obs=None):
        nonlocal ok
        ok = False
        run.fail(sig, what, inp, expected=exp, observed=obs)

    ids_data = [str(x) for x in df["ID"].unique()]
    if d["visit_type"] == "random":
        want_ids = [str(i) for i in range(d["params"]["patient_number"][1])]
    else:
        want_ids = []
        for i, _ in d["params"]["df_visits"][3]:
            if i not in want_ids:
                want_ids.append(i)
    if sorted(ids_data) != sorted(want_ids) or len(set(ids_data)) != len(ids_data):
        bad("result:individuals", "the individuals of the simulated data are not exactly the requested ones", sorted(want_ids), sorted(ids_data))
    ip_ids = [str(x) for x in ip.index]
    if ip_ids != want_ids:
        bad("result:individual-parameters", "not exactly one reported parameter row per requested individual (in request order)", want_ids, ip_ids)
    if list(df.columns) != ["ID", "TIME"] + list(feats):
        bad("result:features", "columns of the simulated data are not the requested features", feats, list(df.columns))
    for i in set(ids_data):
        ages = df.loc[df["ID"] == i, "TIME"].to_numpy(dtype=float)
        if len(ages) == 0 or not np.all(np.isfinite(ages)) or not np.all(np.diff(ages) > 0):
            bad("result:ages-not-increasing", "ages of an individual are not unique and increasing", None, dict(id=i, ages=ages.tolist()))
        sc = ages * 10 ** p        # every spacing has a documented precision (3 decimals below 0.001)
        if len(ages) and np.max(np.abs(sc - np.rint(sc))) > 1e-6 * max(1.0, np.max(np.abs(sc))):
            bad("result:ages-not-rounded", f"ages are not multiples of 10^-{p}", None, dict(id=i, ages=ages.tolist()))
    if ok:
        vals = df[list(feats)].to_numpy(dtype=float)
        if not np.all(np.isfinite(vals)) or vals.min() < 0 or vals.max() > 1:
            bad("result:values-outside-unit-interval", "a simulated value is missing, not finite or outside [0,1]", "[0,1]",
                dict(min=float(np.nanmin(vals)), max=float(np.nanmax(vals)), nan=int(np.isnan(vals).sum())))
    if d["visit_type"] == "random" and ok and rec is not None and rec.timepoints is not None:
        # the ages requested by the visit generator, rounded to the documented precision (duplicates dropped) — for every spacing
        req = {str(k): v for k, v in rec.timepoints.items()}
        for i in want_ids:
            want = sorted({float(np.round(float(t), p)) for t in req.get(i, [])})
            got = df.loc[df["ID"].astype(str) == i, "TIME"].to_numpy(dtype=float).tolist()
            if len(want) != len(got) or any(abs(a - b) > 1e-9 for a, b in zip(want, got)):
                bad("result:generated-ages", f"ages of an individual are not the generated visit ages rounded to {p} decimals "
                    "(the documented precision for this spacing)", want, got)
                break
    if ok and rec is not None and rec.timepoints is not None and len(rec.normal_args) == len(rec.normal_calls):
        # the whole generation recomputed from the tape of draws: baseline = tau + N(first_visit_mean, first_visit_std), follow-up = baseline +
        # |N(time_follow_up_mean, time_follow_up_std)|, one N(distance_visit_mean, distance_visit_std) per further visit until the follow-up age is
        # passed; the table's ages per ID for a table; rounded to the documented precision, duplicates dropped, sorted — compared exactly
        req, why = tape_replay(d, shape[1], rec)
        if req is None:
            bad("generation:draws", "the draws made are not the documented ones (which distribution parameters, how many, in which order)", None, why)
        else:
            got_req = {str(k): [float(t) for t in v] for k, v in rec.timepoints.items()}
            for i in want_ids:
                if [float(t) for t in req[i]] != got_req.get(i):
                    bad("generation:requested-ages", "the visit ages generated for an individual are not those the tape of draws gives", 
                        [float(t) for t in req[i]][:12], (got_req.get(i) or [])[:12])
                    break
                want = sorted({float(np.round(np.float64(t), p)) for t in req[i]})
                got = df.loc[df["ID"].astype(str) == i, "TIME"].to_numpy(dtype=float).tolist()
                if want != got:
                    bad("generation:returned-ages", f"the returned ages of an individual are not the ages the tape of draws gives, rounded to {p} decimals, "
                        "duplicates dropped, sorted", want[:12], got[:12])
                    break
    if d["visit_type"] == "dataframe" and ok:
        rows = d["params"]["df_visits"][3]
        for i in want_ids:
            want = sorted({float(np.round(t, 3)) for j, t in rows if j == i})
            got = df.loc[df["ID"] == i, "TIME"].to_numpy(dtype=float).tolist()
            if len(want) != len(got) or any(abs(a - b) > 1e-9 for a, b in zip(want, got)):
                bad("result:table-ages", "ages of a table-driven individual are not the table's ages rounded to 3 decimals", want, got)
    return ok


def rows_case(run: Run, d, res, rec):
    """(p, rows_in, expected visits per individual) as a Coq literal, or None when a requested age sits on a rounding tie."""
    import numpy as np
    p = expected_precision(d)
    feats = d["features"][1]
    if rec.timepoints is None or len(rec.rvs) != len(feats):
        return "unrecorded"
    order = list(rec.estimate_out.keys())
    if sum(len(v) for v in rec.timepoints.values()) > 110:
        return "big"
    rows_in = []
    k = 0
    ys = [np.asarray(r["y"], dtype=float) for r in rec.rvs]
    for i in order:
        for t in rec.timepoints[i]:
            t = float(t)
            x = frac(t) * 10 ** p
            if abs((x - math.floor(x)) - Fraction(1, 2)) < Fraction(1, 10 ** 6):
                return None
            rows_in.append((str(i), t, [float(y[k]) for y in ys]))
            k += 1
    df = res.data.to_dataframe()
    exp = []
    for i in dict.fromkeys(str(x) for x in order):
        sub = df.loc[df["ID"].astype(str) == i]
        vis = []
        for _, r in sub.iterrows():
            key = int(round(float(r["TIME"]) * 10 ** p))
            vis.append(f"({coq_string(i)}, {coq_Z(key)}, {coq_list(coq_Q(float(r[f])) for f in feats)})")
        exp.append(f"({coq_string(i)}, {coq_list(vis)})")
    rin = coq_list(f"({coq_string(i)}, {coq_Q(t)}, {coq_list(coq_Q(v) for v in vs)})" for i, t, vs in rows_in)
    return f"({coq_Z(p)}, {rin}, {coq_list(exp)})"


ROWS_CHECKER = ("(fun c => match c with (p, l, e) => forallb (fun ie => let got := visits_of p (fst ie) l in "
                "Nat.eqb (List.length got) (List.length (snd ie)) && forallb (fun gw => String.eqb (fst (fst (fst gw))) (fst (fst (snd gw))) && "
                "Z.eqb (snd (fst (fst gw))) (snd (fst (snd gw))) && Nat.eqb (List.length (snd (fst gw))) (List.length (snd (snd gw))) && "
                "forallb (fun ab => qclose (1 # 10000000) (fst ab) (snd ab)) (combine (snd (fst gw)) (snd (snd gw)))) (combine got (snd ie))) e "
                "&& Nat.eqb (List.length (individuals p l)) (List.length e) end)")


def noise_cases(run: Run, rec, rng, limit):
    """cases for clip / clamp / beta parameters from the recorded locals of _generate_dataset"""
    import numpy as np
    out = []
    order = list(rec.estimate_out.keys())
    raw = np.concatenate([np.asarray(rec.estimate_out[i], dtype=np.float64).reshape(len(rec.timepoints[i]), -1) for i in order], axis=0)
    for j, r in enumerate(rec.rvs):
        if r["mu"] is None or r["adj"] is None or r["var"] is None:
            return None
        mu = np.asarray(r["mu"]); adj = np.asarray(r["adj"]); a = np.asarray(r["a"]); b = np.asarray(r["b"])
        var = float(np.asarray(r["var"]).reshape(-1)[0])
        idx = list(range(len(mu)))
        rng.shuffle(idx)
        # always include the extremes
        idx = sorted(set(idx[:limit] + [int(np.argmax(mu)), int(np.argmin(mu))]))
        for k in idx:
            out.append(f"({coq_Q(float(raw[k, j]))}, {coq_Q(float(mu[k]))}, {coq_Q(var)}, {coq_Q(float(adj[k]))}, {coq_Q(float(a[k]))}, {coq_Q(float(b[k]))})")
    return out


NOISE_CHECKER = ("(fun c => match c with (x, mu, var, adj, a, b) => "
                 "Qle_bool (Qabs (clip gen_clip_lo gen_clip_hi x - mu)) (6 # 100000000) && "
                 "qclose (1 # 100000) (adj_var gen_clamp_factor mu var) adj && "
                 "match beta_params mu adj with Some (a', b') => qclose (1 # 1000) a' a && qclose (1 # 1000) b' b && Qlt_bool 0 a && Qlt_bool 0 b "
                 "| None => false end end)")


def loop_cases(run: Run, d, rec):
    """visit loop: (t0, follow_up, steps, ages) per individual from the recorded draws"""
    import numpy as np
    n = d["params"]["patient_number"][1]
    sized = [r for s, r in rec.normal_calls if s is not None]
    scal = [float(r) for s, r in rec.normal_calls if s is None]
    if len(sized) < 2:
        return None
    fu_draw = np.asarray(sized[-1], dtype=float)
    out, k = [], 0

    def zq(x, c):
        # the loop model is invariant under a common positive scaling: all numbers of one case are multiplied by the
        # common denominator 2^c so that the rational arithmetic inside Coq stays on integers
        v = frac(x) * c
        assert v.denominator == 1
        return f"({v.numerator} # 1)%Q"
    for j, i in enumerate(rec.timepoints.keys()):
        ages = [float(t) for t in rec.timepoints[i]]
        m = len(ages) - 1
        steps = scal[k:k + m]
        k += m
        if m > 120:
            continue
        fu = ages[0] + abs(float(fu_draw[j]))
        c = max(frac(x).denominator for x in [fu] + ages + steps)
        out.append(f"({zq(ages[0], c)}, {zq(fu, c)}, {coq_list(zq(s, c) for s in steps)}, {coq_list(zq(a, c) for a in ages)})")
    if k != len(scal):
        return None
    return out


LOOP_CHECKER = ("(fun c => match c with (t0, fu, steps, ages) => match visit_ages t0 fu steps with None => false | Some l => "
                "Nat.eqb (List.length l) (List.length ages) && forallb (fun ab => Qle_bool (Qabs (fst ab - snd ab)) ((1 # 1000000000000) * (Qabs (fst ab) + Qabs (snd ab)))) (combine l ages) end "
                "&& match steps with [] => true | _ => match visit_ages t0 fu (removelast steps) with None => true | Some _ => false end end end)")


def hexf(x) -> str:
    x = float(x)
    if x != x:
        return "nan%float"
    if x in (float("inf"), float("-inf")):
        return "infinity%float" if x > 0 else "neg_infinity%float"
    return f"({x.hex()})%float"


HDR_GEN = ("From Coq Require Import ZArith QArith Bool List String PrimFloat.\n"
           "From Leaspy Require Import Base.QAux Api.Simulate Api.SimulateGen Api.SimulateGenFloat.\n"
           "From LeaspyGen Require Import GenC18.\nImport ListNotations.\n")
GEN_CASE_T = "model_shape * design * valuation * list (draw float) * observed"
GEN_CHECKER = ("(fun c => match c with (m, d, v, tp, ob) => check_generation gen_rounding_options gen_precision_init gen_default_spacing "
               "model_prog m d v tp ob end)")


def requested_ids(d):
    if d["visit_type"] == "random":
        return [str(i) for i in range(d["params"]["patient_number"][1])]
    out = []
    for i, _ in d["params"]["df_visits"][3]:
        if i not in out:
            out.append(i)
    return out


def generation_case(d, shape, model, res, rec, limit=700):
    """One completed call as a case of SimulateGenFloat.check_generation: the design, the values the symbolic parameters of the draws
    stand for, the TAPE (values returned by the successive numpy.random.normal calls, binary64 bits) and what the implementation
    produced (requested ages, returned ages, the calls with their arguments)."""
    import numpy as np
    if rec.timepoints is None or len(rec.normal_args) != len(rec.normal_calls):
        return "unrecorded"
    if sum(1 if s is None else int(s) for s, _ in rec.normal_calls) > limit:
        return "big"
    tape, rcalls = [], []
    for (size, r), (loc, scale) in zip(rec.normal_calls, rec.normal_args):
        if size is None:
            tape.append(f"DScal {hexf(r)}")
            rcalls.append(f"({coq_Q(float(loc))}, {coq_Q(float(scale))}, None)")
        else:
            tape.append("DVec " + coq_list(hexf(x) for x in np.asarray(r, dtype=float).reshape(-1)))
            rcalls.append(f"({coq_Q(float(loc))}, {coq_Q(float(scale))}, Some {int(size)}%nat)")
    val = []
    for kind, table in (("hyper", model.hyperparameters), ("model", model.parameters)):
        for k, v in table.items():
            try:
                val.append(f"({coq_string(kind)}, {coq_string(str(k))}, {coq_Q(float(v))})")
            except (TypeError, ValueError, RuntimeError):
                pass
    for k, v in d["params"].items():
        if v[0] in ("int", "float", "bool"):
            val.append(f"({coq_string('study')}, {coq_string(k)}, {coq_Q(float(v[1]))})")
    p = expected_precision(d)
    ids = requested_ids(d)
    req = {str(k): v for k, v in rec.timepoints.items()}
    df = res.data.to_dataframe()
    requested, keys, ages = [], [], []
    for i in ids:
        requested.append(f"({coq_string(i)}, {coq_list(hexf(t) for t in req.get(i, []))})")
        ts = [float(t) for t in df.loc[df["ID"].astype(str) == i, "TIME"].to_numpy(dtype=float)]
        keys.append(f"({coq_string(i)}, {coq_list(coq_Z(int(round(t * 10 ** p))) for t in ts)})")
        ages.append(f"({coq_string(i)}, {coq_list(hexf(t) for t in ts)})")
    ob = (f"{{| ob_precision := {coq_Z(p)}; ob_requested := {coq_list(requested)}; ob_keys := {coq_list(keys)}; "
          f"ob_ages := {coq_list(ages)}; ob_calls := {coq_list(rcalls)} |}}")
    return (f"({{| dimension := {shape[0]}; source_dimension := {shape[1]} |}}, {design_coq(d)}, {coq_list(val)}, "
            f"{coq_list(tape)}, {ob})")


def runs(run: Run, thorough: bool):
    models = build_models(run, thorough)
    seeds = [run.seed % 100000, (run.seed // 7) % 100000 + 1] + ([11, 12] if thorough else [])
    out_cases, out_meta = [], []
    row_cases, row_meta, noise, noise_meta, loops, loop_meta = [], [], [], [], [], []
    gen_cases, gen_meta, gen_big = [], [], 0
    skipped_ties = skipped_big = 0
    for mi, (model, shape, info) in enumerate(models):
        rng = run.rng("designs", mi)
        ds = [(d, "random") for d in random_designs(rng, shape[0], thorough)] + [(d, "table") for d in table_designs(rng, shape[0], thorough)] \
            + [(d, "directed") for d in directed_designs(shape[0])]
        for di, (d, kind) in enumerate(ds):
            for seed in (seeds if kind != "directed" else seeds[:1]):
                o, res, rec, drew = call_simulate(model, d, seed)
                doc = documented_ok(d)
                inp = dict(design=design_json(d), model=info, seed=seed)
                run.count("run-outcome", o)
                run.count("design-kind", kind)
                run.count("model", f"{shape[0]} features, {shape[1]} sources")
                run.case(("run", mi, repr(design_json(d)), seed), nontrivial=(o != "ok") or len(rec.rvs) > 0)
                if o == "budget":
                    dm = (d.get("params") or {}).get("distance_visit_mean")
                    if d["visit_type"] == "random" and dm is not None and dm[0] in ("int", "float") and dm[1] <= 0:
                        # the listed family: a non-positive mean step with a positive spread is accepted (the rule refuses only when BOTH are
                        # <= 0) and the visit loop is a random walk without drift towards the follow-up age
                        run.fail("run:negative-distance-mean-does-not-terminate",
                                 "distance_visit_mean <= 0 with distance_visit_std > 0 is accepted; the visit loop does not reach the follow-up age "
                                 "within the draw budget", inp, observed=str(res))
                    else:
                        run.fail("run:visit-loop-does-not-terminate", "an accepted design does not run to completion (draw budget exhausted in the visit loop)",
                                 inp, observed=str(res))
                    continue
                out_cases.append(f"({{| dimension := {shape[0]}; source_dimension := {shape[1]} |}}, {design_coq(d)}, {CODE[o]}%nat)")
                out_meta.append((inp, o, res))
                if o == "refuse":
                    if drew:
                        run.fail("refusal:after-generation", "LeaspyAlgoInputError raised after random numbers were drawn", inp)
                    if doc:
                        run.fail("validate:refuses-documented-design", "a design satisfying the documented requirements is refused", inp, observed=str(res)[:160])
                    continue
                if o == "crash":
                    if not doc:
                        continue     # reported by the decision table with its own signature
                    why = crash_reason(d, shape) or f"run:accepted-design-raises-{type(res).__name__}"
                    run.fail(why, f"an accepted design does not run to completion: {type(res).__name__}: {str(res)[:140]}", inp,
                             expected="a Result", observed=f"{type(res).__name__}: {str(res)[:200]}")
                    continue
                # completed
                if not doc:
                    run.fail("validate:accepts-undocumented-design", "a design violating the documented requirements ran", inp)
                good = check_result(run, d, shape, seed, res, rec, info)
                rc = rows_case(run, d, res, rec)
                if rc == "unrecorded":
                    run.broken("record:generate-dataset", "beta.rvs / _generate_visit_ages were not observed as expected", kind="broken-correspondence")
                elif rc is None:
                    skipped_ties += 1
                elif rc == "big":
                    skipped_big += 1
                else:
                    row_cases.append(rc); row_meta.append(inp)
                nc = noise_cases(run, rec, run.rng("noise", mi, di, seed), 3 if not thorough else 25)
                if nc is None:
                    run.broken("record:locals", "locals mu / var / adj_var of _generate_dataset not found", kind="broken-correspondence")
                else:
                    noise += nc; noise_meta += [inp] * len(nc)
                if d["visit_type"] == "random":
                    lc = loop_cases(run, d, rec)
                    if lc is None:
                        run.broken("record:draws", "normal draws of _generate_visit_ages could not be attributed", kind="broken-correspondence")
                    else:
                        loops += lc; loop_meta += [inp] * len(lc)
                gc = generation_case(d, shape, model, res, rec)
                if gc == "unrecorded":
                    run.broken("record:generation", "numpy.random.normal calls / _generate_visit_ages were not observed as expected", kind="broken-correspondence")
                elif gc == "big":
                    gen_big += 1
                else:
                    gen_cases.append(gc); gen_meta.append(inp)
                    run.count("generation-tape", d["visit_type"])
                if len(run.samples) < 4 and kind != "directed":
                    run.sample(dict(kind="run", **inp, outcome=o, n_rows=int(len(res.data.to_dataframe())), precision=expected_precision(d)))
        # non-termination: negative mean step (accepted by the constructor)
        if mi == 0:
            d = dict(features=("list", [f"Y{i}" for i in range(shape[0])]), visit_type="random",
                     params=dict(GOOD, distance_visit_mean=("float", -1.0), distance_visit_std=("float", 0.1)))
            o, res, rec, _ = call_simulate(model, d, seeds[0], budget=5000)
            run.case(("run-negative-step",), nontrivial=True)
            if o == "budget":
                run.fail("run:negative-distance-mean-does-not-terminate",
                         "distance_visit_mean <= 0 with distance_visit_std > 0 is accepted; the visit loop walks away from the follow-up age "
                         "(stopped after 5000 scalar draws for one design)", dict(design=design_json(d), model=info, seed=seeds[0]), observed=str(res))
            elif o != "refuse":
                pass
    run.extra["rounding_tie_cases_skipped"] = skipped_ties
    run.extra["row_sets_over_160_rows_skipped"] = skipped_big
    run.log(f"model correspondence: {len(out_cases)} outcomes, {len(row_cases)} row sets, {len(noise)} noise cases, {len(loops)} visit loops")
    bad = run.vm_bad_indices("outcome", HDR, "model_shape * design * nat", out_cases,
                             "(fun c => match c with (m, d, o) => Nat.eqb (oc (sim m d)) o end)", shard=300)
    for i in bad or []:
        inp, o, res = out_meta[i]
        run.fail(f"run-outcome:impl-{o}", "outcome of model.simulate differs from the model (simulate_outcome): "
                 + (f"{type(res).__name__}: {str(res)[:120]}" if o != "ok" else "completed"), inp)
    run.log("rows")
    if not thorough and len(row_cases) > 64:
        sel = sorted(run.rng("rowsel").sample(range(len(row_cases)), 64))
        row_cases, row_meta = [row_cases[i] for i in sel], [row_meta[i] for i in sel]
    bad = run.vm_bad_indices("rows", HDR, "Z * list (string * Q * list Q) * list (string * list srow)", row_cases, ROWS_CHECKER, shard=8)
    for i in bad or []:
        run.fail("post-processing:rows", "returned visits differ from round -> keep-first de-duplication -> sort of the generated rows", row_meta[i])
    run.log("noise")
    bad = run.vm_bad_indices("noise", HDR, "Q * Q * Q * Q * Q * Q", noise, NOISE_CHECKER, shard=250)
    for i in bad or []:
        run.fail("post-processing:noise-parameters", "clip / variance clamp / beta parameters differ from the model", dict(noise_meta[i], case=noise[i]))
    run.log("loop")
    bad = run.vm_bad_indices("loop", HDR, "Q * Q * list Q * list Q", loops, LOOP_CHECKER, shard=60)
    for i in bad or []:
        run.fail("visit-loop", "generated visit ages differ from the loop model (t0; while t < follow_up: t += step)", dict(loop_meta[i], case=loops[i][:400]))
    run.log("generation")
    bad = run.vm_bad_indices("generation", HDR_GEN, GEN_CASE_T, gen_cases, GEN_CHECKER, shard=12)
    for i in bad or []:
        run.fail("generation:tape-replay", "the generation model (regenerated program, binary64) re-executed inside Coq on the recorded tape of numpy.random.normal "
                 "does not reproduce the call: precision, requested ages, returned ages (integers and bits), calls made or draws consumed differ", gen_meta[i])
    run.extra.update(generation_cases=len(gen_cases), generation_cases_over_700_draws_skipped=gen_big)
    run.extra.update(outcome_cases=len(out_cases), row_cases=len(row_cases), noise_cases=len(noise), loop_cases=len(loops))


def rounding_unit(run: Run):
    """pandas' Series.round against the model's round-half-even (validates the modelled-not-verified rounding)."""
    import pandas as pd
    rng = run.rng("round")
    xs = [0.5, 1.5, 2.5, -0.5, -1.5, 50.5, 51.5, 70.0, 70.4999, 70.5001, 0.0, -3.5]
    cases = []
    for p in (0, 1, 2, 3):
        vals = list(xs) + [rng.uniform(-100, 100) for _ in range(40)] + [round(rng.uniform(40, 90), 3) + 0.0004 for _ in range(10)]
        got = pd.Series(vals).round(p).tolist()
        for x, g in zip(vals, got):
            sc = frac(x) * 10 ** p
            if p > 0 and abs((sc - math.floor(sc)) - Fraction(1, 2)) < Fraction(1, 10 ** 6):
                continue
            cases.append(f"({coq_Z(p)}, {coq_Q(x)}, {coq_Z(int(round(g * 10 ** p)))})")
            run.case(("round", p, x), nontrivial=True)
    bad = run.vm_bad_indices("round", HDR, "Z * Q * Z", cases, "(fun c => match c with (p, x, k) => Z.eqb (age_key p x) k end)")
    for i in bad or []:
        run.fail("rounding-model", "Series.round differs from round-half-even of x*10^p", cases[i])


def check(run: Run):
    from harness.common import use_impl
    use_impl()
    thorough = run.tier == "thorough"
    run.rule = ("(C) exhaustive 3^8 grid of {good, wrong sign/type but comparable, missing or uncomparable} over the 8 random-design fields "
                "(representative drawn per class), the full sign grid of the final distance rule, 16 feature shapes x 6 designs, 9 visit-table shapes; "
                "(D) model.simulate on logistic models (1-4 features, 0-2 sources, scalar/diagonal noise) x random / table / directed designs x seeds; "
                "non-trivial = constructor does not accept, or min_spacing given, or a run that raised or drew noise; distinct by canonical design+model+seed; "
                "every completed call (<= 700 draws) is also a generation case: its recorded tape re-executed inside Coq.")
    run.log("constructor decision table")
    decision_table(run, thorough)
    run.log("rounding unit correspondence")
    rounding_unit(run)
    run.log("runs")
    runs(run, thorough)


def main(run: Run):
    ok_t = translate(run)
    ok_p = run.prove("C18", OBLIGATIONS) if ok_t else False
    run.assumptions += [
        "the values returned by numpy.random.normal are the tape of the generation model (their distribution is numpy's); the generation theorems "
        "are stated for the tapes on which the generation ends (GOk): a tape too short is GExhausted (visit loop not terminated); GCrash is proved to be "
        "exactly a bool count / a non-string table ID on accepted designs (C18_generation_never_crashes)",
        "scipy.stats.beta.rvs is defined and returns values in [0,1] whenever both parameters are positive (hypothesis of C18_values_in_unit)",
        "model values returned by estimate are taken from the implementation (any rational is covered by the theorems)",
        "float32/float64 rounding is outside the theorems; comparisons use stated tolerances, requested ages within 1e-6 of a rounding tie are skipped",
        "NaN/inf parameters and ID columns mixing types are outside the model",
    ]
    run.explanation = ("Theorems (Coq, all designs / visit lists / precisions / model values) on a model whose requirement rows, key lists, constants, "
                       "beta-parameter formulas, precision loop and the precision bound before it are regenerated from the Python AST and proved equal to the hand-written model; the "
                       "constructor's decision function, the outcome of model.simulate, the row post-processing, the noise parameters and the visit loop are "
                       "run inside Coq (vm_compute, exact rationals) on what the implementation just did; property oracles run on every completed call.")
    if not ok_t or not ok_p:
        # tie or proofs broken: still search the implementation for a failing input (the model side may not build)
        try:
            check(run)
        except Exception as e:  # noqa
            import traceback
            run.broken("search", f"{type(e).__name__}: {e}\n{traceback.format_exc()[-800:]}")
    else:
        check(run)
    return run.finish()


def replay(run: Run, path: str):
    """Re-run one recorded design on the current tree and print what happens."""
    from harness.common import use_impl
    use_impl()
    from harness import synth
    rec = json.load(open(path))
    inp = rec.get("input") or {}
    if not isinstance(inp, dict) or ("design" not in inp and "features" not in inp):
        print("replay: this file records a broken obligation or a model-level case; re-running the check:", [b["name"] for b in rec.get("broken", [])])
        return main(run)
    if "design" not in inp:        # constructor-only case
        d = design_from_json(inp)
        o, e = call_constructor(d)
        print(f"constructor outcome: {o} {type(e).__name__ if e else ''} {str(e)[:200] if e else ''}; documented_ok={documented_ok(d)}")
        bad = (o == "crash") or (o == "ok") != documented_ok(d)
        print("REPLAY", "FAILS" if bad else "passes")
        return 1 if bad else 0
    d = design_from_json(inp["design"])
    info = inp["model"]
    noise = None if info["noise"] == "default" else info["noise"]
    sd = info["source_dimension"] if info["n_feat"] > 1 else None
    model, _ = synth.fit("logistic", n_iter=15, seed=run.seed % 1000, n_feat=info["n_feat"], source_dimension=sd, noise=noise, n_ind=10)
    o, res, rec_, drew = call_simulate(model, d, int(inp.get("seed", 0)), budget=5000)
    print(f"model.simulate outcome: {o}" + ("" if o == "ok" else f" {type(res).__name__}: {str(res)[:300]}"))
    bad = o in ("crash", "budget") or (o == "refuse" and (drew or documented_ok(d)))
    if o == "ok":
        r2 = Run(run.prop, run.tier, run.seed)
        r2.known = {}
        good = check_result(r2, d, (info["n_feat"], info["source_dimension"]), int(inp.get("seed", 0)), res, rec_, info)
        for f in r2._fails:
            print("  ", f["signature"], f["what"], f.get("observed"))
        bad = not good
    print("REPLAY", "FAILS" if bad else "passes")
    return 1 if bad else 0
