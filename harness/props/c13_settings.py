"""C13 (part): `AlgorithmSettings` — T1 (harness/translate/settings.py -> coq/gen/GenSettings.v) and T2: the model's `resolve`,
`ctor_view`, `save`/`load` and the heap-level construction (coq/theories/Api/Settings.v) evaluated inside Coq on generated
(algorithm name, keyword arguments) pairs against the real `AlgorithmSettings(...)`, the algorithm built from it and a run.
Called from harness/props/c13.py."""
from __future__ import annotations

import contextlib
import copy
import io
import json
import os
import tempfile
import warnings

from harness.common import SRC, Run
from harness.translate import settings as tr_settings
from harness.translate.settings import coq_json, coq_str

OBLIGATIONS = [
    "C13_settings_explicit_key_wins", "C13_settings_default_key_kept", "C13_settings_nested_key_updates",
    "C13_settings_resolution_idempotent", "C13_settings_replacement_refuted",
    "C13_settings_deepcopy_isolates", "C13_settings_second_algorithm_same_view", "C13_settings_src_isolated",
    "C13_settings_src_resolve", "C13_settings_copy_kinds_refuted", "C13_settings_merge_writes_logged_partial",
    "C13_settings_shared_defaults_refuted", "C13_settings_examples",
]

NAMES = ["mcmc_saem", "lme_fit", "scipy_minimize", "mean_posterior", "mode_posterior", "constant_prediction", "lme_personalize", "simulate"]
VISITS = {"patient_number": 3, "visit_type": "random", "first_visit_mean": 0.0, "first_visit_std": 0.4,
          "time_follow_up_mean": 3, "time_follow_up_std": 0.5, "distance_visit_mean": 1.0, "distance_visit_std": 0.2,
          "min_spacing_between_visits": 1}


def translate(run: Run) -> bool:
    try:
        return tr_settings.translate(run)
    except Exception as e:  # noqa
        import traceback
        run.broken("translate:GenSettings", f"translator crashed: {type(e).__name__}: {e}\n{traceback.format_exc()[-800:]}", kind="broken-translation")
        run.gen("GenSettings", "(* the translation of this run FAILED (harness/translate/settings.py) *)\n")
        return False


# ----------------------------------------------------------------------------- cases


def directed(name, defaults):
    """Keyword dictionaries that exercise every row of the update table on this algorithm's defaults."""
    p = defaults["parameters"]
    out = [{}]
    out.append({"seed": 3})
    out.append({"seed": None, "algorithm_initialization_method": "random"})
    out.append({"brand_new_key": 5})
    out.append({"brand_new_dict": {"a": 1, "b": {"c": [1, 2.5, None]}}, "brand_new_list": [1, "x", False]})
    atoms = [k for k, v in p.items() if not isinstance(v, dict)]
    dicts = [k for k, v in p.items() if isinstance(v, dict)]
    for k in atoms[:3]:
        out.append({k: None})
    if name == "simulate":
        return out + [{"features": ["y0", "y1"], "visit_parameters": dict(VISITS)}, {"features": ["y0"], "visit_parameters": dict(VISITS), "prefix": "S_"}]
    if "n_iter" in p:
        out += [{"n_iter": 40}, {"n_iter": 37, "n_burn_in_iter": 11}, {"n_iter": 40, "n_burn_in_iter": 11, "n_burn_in_iter_frac": None},
                {"n_iter": 40, "n_burn_in_iter_frac": 0.7}, {"n_iter": 10, "n_burn_in_iter_frac": 0.7}, {"n_iter": 100, "n_burn_in_iter_frac": 0.29},
                {"n_burn_in_iter": None, "n_burn_in_iter_frac": None}, {"n_burn_in_iter": 0}, {"progress_bar": False, "n_iter": 12}]
    for k in dicts:
        sub = p[k]
        first = next(iter(sub))
        out.append({k: {}})
        out.append({k: {first: 7}})
        out.append({k: {first: 7, "extra_nested": {"z": 1}}})
        out.append({k: 3})                     # a non-dictionary where the default is a dictionary: refused
        out.append({k: None})
    if "annealing" in p:
        out += [{"annealing": {"do_annealing": True}, "n_iter": 40}, {"annealing": {"do_annealing": True, "n_iter": 13}, "n_iter": 40},
                {"annealing": {"do_annealing": True, "n_iter": 13, "n_iter_frac": None}, "n_iter": 40},
                {"annealing": {"do_annealing": True, "n_iter_frac": 0.3}, "n_iter": 50},
                {"annealing": {"do_annealing": True, "n_iter_frac": None}, "n_iter": 50},
                {"annealing": {"n_iter": 13}}, {"annealing": {"do_annealing": True, "initial_temperature": 5, "n_plateau": 3}, "n_iter": 30, "n_burn_in_iter": 20}]
    if "device" in defaults:
        out += [{"device": "cpu"}, {"device": "cuda:1"}, {"device": "cuda"}]
    else:
        out += [{"device": "cpu"}]
    if name == "scipy_minimize":
        out += [{"custom_scipy_minimize_params": {"method": "BFGS", "options": {"maxiter": 5}}}, {"use_jacobian": False, "n_jobs": 1}]
    if name == "lme_fit":
        out += [{"force_independent_random_effects": True}, {"force_independent_random_effects": True, "method": ["powell"]},
                {"force_independent_random_effects": True, "method": None}, {"force_independent_random_effects": False},
                {"force_independent_random_effects": 0}, {"force_independent_random_effects": 1, "with_random_slope_age": True}]
    if name == "constant_prediction":
        out += [{"prediction_type": "mean"}]
    return out


def random_kwargs(rng, name, defaults):
    p = defaults["parameters"]
    kw = {}
    keys = list(p)
    for _ in range(rng.randrange(0, 4)):
        if keys and rng.random() < 0.7:
            k = rng.choice(keys)
            v = p[k]
            if isinstance(v, dict):
                sub = {}
                for kk in rng.sample(list(v), rng.randrange(0, min(3, len(v)) + 1)):
                    sub[kk] = rng.choice([None, 5, 0.25, v[kk]])
                if rng.random() < 0.3:
                    sub["u%d" % rng.randrange(3)] = rng.choice([1, {"w": 2}, [0.5]])
                kw[k] = sub
            elif name == "simulate":
                continue
            elif isinstance(v, bool):
                kw[k] = rng.choice([True, False])
            elif isinstance(v, int):
                kw[k] = rng.choice([10, 20, 33, 64])
            elif isinstance(v, float) and k != "burn_in_step_power":       # its guard is C05's, not this model's
                kw[k] = rng.choice([0.5, 0.75, 0.9, 0.3])
            elif v is None and k in ("n_burn_in_iter",):
                kw[k] = rng.choice([None, 0, 4, 9])
        else:
            kw["x%d" % rng.randrange(4)] = rng.choice([None, True, 2, 0.125, "s", [1, 2], {"a": {"b": 1}}, {}])
    if rng.random() < 0.4:
        kw["seed"] = rng.choice([None, 0, 7, 123])
    if name == "simulate":
        kw.setdefault("features", ["y0", "y1"])
        kw.setdefault("visit_parameters", dict(VISITS))
    return kw


# ----------------------------------------------------------------------------- observation of the implementation


def caller_dicts(x, acc):
    if isinstance(x, dict):
        acc.append(x)
        for v in x.values():
            caller_dicts(v, acc)
    return acc


def shared_paths(params, caller, prefix=()):
    out = []
    for k, v in params.items():
        if isinstance(v, dict):
            if any(v is c for c in caller):
                out.append(list(prefix) + [k])
            else:
                out += shared_paths(v, caller, prefix + (k,))
    return out


def observe_settings(st):
    return dict(name=st.name.value if hasattr(st.name, "value") else str(st.name), seed=st.seed, init=st.algorithm_initialization_method,
                device=getattr(st, "device", "<absent>"), parameters=st.parameters)


def coq_settings(o) -> str:
    dev = "None" if o["device"] == "<absent>" else f"(Some {coq_json(o['device'])})"
    if not isinstance(o["parameters"], dict):
        raise ValueError("parameters is not a dictionary")
    return ("{| s_name := %s; s_seed := %s; s_init := %s; s_device := %s; s_params := %s |}"
            % (coq_str(o["name"]), coq_json(o["seed"]), coq_json(o["init"]), dev, coq_dict(o["parameters"])))


def coq_dict(d) -> str:
    return "[" + "; ".join(f"({coq_str(k)}, {coq_json(v)})" for k, v in d.items()) + "]"


def json_like(x) -> bool:
    if x is None or isinstance(x, (bool, int, str)):
        return True
    if isinstance(x, float):
        return x == x and abs(x) != float("inf")
    if isinstance(x, (list, tuple)):
        return all(json_like(e) for e in x)
    if isinstance(x, dict):
        return all(isinstance(k, str) and json_like(v) for k, v in x.items())
    return False


def one_case(name, kw, defaults, emit):
    """Run the real constructor / algorithm factory / save+load on one (name, kwargs); returns the Coq case text or None."""
    from leaspy.algo import AlgorithmSettings, algorithm_factory
    from leaspy.algo.algo_with_annealing import AlgorithmWithAnnealingMixin
    from leaspy.algo.algo_with_samplers import AlgorithmWithSamplersMixin
    from leaspy.algo.base import get_algorithm_class
    from leaspy.exceptions import LeaspyAlgoInputError
    inp = dict(name=name, kwargs=copy.deepcopy(kw))
    cls = get_algorithm_class(name)
    snap = copy.deepcopy(kw)
    caller = []
    for v in kw.values():
        caller_dicts(v, caller)
    kind, obs, st = 0, None, None
    try:
        st = AlgorithmSettings(name, **kw)
        obs = observe_settings(st)
    except LeaspyAlgoInputError:
        kind = 1
    except Exception:  # noqa
        kind = 2
    if kw != snap:
        emit("settings:constructor-changes-caller-kwargs", "AlgorithmSettings(name, **kwargs) modified an object given by the caller",
             inp, json.dumps(snap, default=str), json.dumps(kw, default=str))
    # a later default construction must not see this one's keyword arguments
    fresh = AlgorithmSettings(name)
    if fresh.parameters != defaults["parameters"]:
        emit("settings:defaults-polluted-by-earlier-construction", "AlgorithmSettings(name) built AFTER a customised construction does not hold the "
             "defaults of the json file", inp, json.dumps(defaults["parameters"]), json.dumps(fresh.parameters, default=str))
    akind, aobs, lkind, lobs, shared = 3, None, 3, None, []
    if st is not None:
        shared = shared_paths(st.parameters, caller)
        before = copy.deepcopy(st.parameters)
        try:
            algo = algorithm_factory(st)
            akind, aobs = 0, algo.algo_parameters
        except LeaspyAlgoInputError:
            akind = 1
        except Exception:  # noqa
            akind = 2
        if akind != 0 and not (issubclass(cls, AlgorithmWithSamplersMixin) or issubclass(cls, AlgorithmWithAnnealingMixin)):
            akind = 3          # the own validation of an algorithm without the two mixins: not part of this model
        if st.parameters != before:
            emit("settings:algorithm-construction-changes-settings", "building the algorithm changed settings.parameters",
                 inp, json.dumps(before, default=str), json.dumps(st.parameters, default=str))
        if akind == 0:
            # the algorithm's view is a deep copy: no dictionary object in common with the settings, whatever the depth
            mine = caller_dicts(st.parameters, [])
            theirs = caller_dicts(algo.algo_parameters, [])
            if any(a is b for a in mine for b in theirs):
                emit("settings:algorithm-shares-dictionary-with-settings", "algo_parameters and settings.parameters have a dictionary object in common",
                     inp, "no common object", "common object")
            try:
                algo2 = algorithm_factory(st)
                if algo2.algo_parameters != algo.algo_parameters:
                    emit("settings:second-algorithm-different-view", "a second algorithm built from the same settings object has other parameters",
                         inp, json.dumps(algo.algo_parameters, default=str), json.dumps(algo2.algo_parameters, default=str))
            except Exception as e:  # noqa
                emit("settings:second-algorithm-refused", f"a second algorithm from the same settings object: {type(e).__name__}: {e}", inp)
        # save -> load
        fd, path = tempfile.mkstemp(suffix=".json", prefix="c13set-")
        os.close(fd)
        try:
            try:
                st.save(path)
                with contextlib.redirect_stdout(io.StringIO()):
                    st2 = AlgorithmSettings.load(path)
                lkind, lobs = 0, observe_settings(st2)
            except LeaspyAlgoInputError:
                lkind = 1
            except Exception:  # noqa
                lkind = 2
        finally:
            os.unlink(path)
        if st.parameters != before:
            emit("settings:save-changes-settings", "save / load changed settings.parameters", inp)
    for o in (obs, lobs):
        if o is not None and not json_like([o["seed"], o["init"], None if o["device"] == "<absent>" else o["device"], o["parameters"]]):
            return None, inp
    if aobs is not None and not json_like(aobs):
        return None, inp
    text = ("{| c_file := %s; c_det := %s; c_kwargs := %s; c_kind := %d; c_obs := %s; c_samplers := %s; c_annealing := %s; "
            "c_akind := %d; c_aobs := %s; c_lkind := %d; c_lobs := %s; c_shared := %s |}"
            % (coq_dict(defaults), "true" if cls.deterministic else "false", coq_dict(kw), kind,
               "None" if obs is None else f"(Some {coq_settings(obs)})",
               "true" if issubclass(cls, AlgorithmWithSamplersMixin) else "false",
               "true" if issubclass(cls, AlgorithmWithAnnealingMixin) else "false",
               akind, "None" if aobs is None else f"(Some {coq_dict(aobs)})",
               lkind, "None" if lobs is None else f"(Some {coq_settings(lobs)})",
               "[" + "; ".join("[" + "; ".join(coq_str(s) for s in p) + "]" for p in shared) + "]"))
    inp["observed"] = dict(kind=kind, algo_kind=akind, load_kind=lkind, shared=shared,
                           parameters=None if obs is None else obs["parameters"], algo_parameters=aobs)
    return text, inp


# ----------------------------------------------------------------------------- runs: the caller's object after real calls


def run_probe(run: Run, emit):
    """Real fit / personalize calls with customised settings objects: the settings object (every level) is as before, and is
    reusable (same object, second call: same answer)."""
    from harness import synth
    from leaspy.algo import AlgorithmSettings
    import torch
    df = synth.make_df(n_ind=6, n_feat=2, seed=11)
    data = synth.make_data(df, "logistic")
    specs = [("mcmc_saem", dict(n_iter=12, seed=5, progress_bar=False, annealing={"do_annealing": True, "n_plateau": 3, "initial_temperature": 4})),
             ("mcmc_saem", dict(n_iter=10, seed=5, progress_bar=False, n_burn_in_iter=4, n_burn_in_iter_frac=None, sampler_ind_params={"acceptation_history_length": 5})),
             ("scipy_minimize", dict(seed=2, progress_bar=False, custom_scipy_minimize_params={"method": "BFGS", "options": {"maxiter": 3}})),
             ("mean_posterior", dict(seed=2, n_iter=12, progress_bar=False, annealing={"do_annealing": True, "n_plateau": 2})),
             ("mode_posterior", dict(seed=2, n_iter=12, progress_bar=False, n_burn_in_iter=3, n_burn_in_iter_frac=None))]
    fitted = None
    for name, kw in specs:
        inp = dict(name=name, kwargs=copy.deepcopy(kw), call="fit" if name == "mcmc_saem" else "personalize")
        snap_kw = copy.deepcopy(kw)
        st = AlgorithmSettings(name, **kw)
        before = copy.deepcopy(observe_settings(st))
        ids_before = {id(d) for d in caller_dicts(st.parameters, [])}
        outs = []
        try:
            with warnings.catch_warnings(), contextlib.redirect_stdout(io.StringIO()):
                warnings.simplefilter("ignore")
                for _ in range(2):
                    if name == "mcmc_saem":
                        m = synth.make_model("logistic", 2)
                        m.fit(data, algorithm_settings=st)
                        outs.append({k: v.clone() for k, v in m.parameters.items()})
                        fitted = m
                    else:
                        ip = fitted.personalize(data, algorithm_settings=st)
                        outs.append(ip.to_dataframe().values.copy())
        except Exception as e:  # noqa
            emit("settings:run-with-customised-settings-raises", f"{inp['call']} with a customised settings object: {type(e).__name__}: {e}", inp)
            continue
        run.count("settings_runs", name)
        after = observe_settings(st)
        if after != before or {id(d) for d in caller_dicts(st.parameters, [])} != ids_before:
            emit("settings:run-changes-settings", f"{inp['call']} changed the settings object it was given", inp,
                 json.dumps(before, default=str), json.dumps(after, default=str))
        if kw != snap_kw:
            emit("settings:run-changes-caller-kwargs", f"{inp['call']} changed a dictionary the caller had given to AlgorithmSettings", inp)
        if name == "mcmc_saem":
            same = all(torch.equal(outs[0][k], outs[1][k]) for k in outs[0])
        else:
            import numpy as np
            same = np.array_equal(outs[0], outs[1], equal_nan=True)
        if not same:
            emit("settings:reused-settings-different-answer", f"{inp['call']} twice with the same settings object gives different results", inp)


# ----------------------------------------------------------------------------- entry


def observe(run: Run, thorough: bool, box: dict):
    """Implementation side (no Coq): generated constructions, algorithms built from them, save/load, real runs."""
    from harness.common import use_impl
    use_impl()

    def emit(sig, what, inp, expected=None, observed=None):
        run.fail(sig, what, inp, expected, observed)

    cases, metas = [], []
    skipped = 0
    with warnings.catch_warnings(), contextlib.redirect_stdout(io.StringIO()):
        warnings.simplefilter("ignore")
        for name in NAMES:
            defaults = json.loads((SRC / "algo" / "data" / f"default_{name}.json").read_text())
            kws = directed(name, defaults)
            rng = run.rng("settings", name)
            kws += [random_kwargs(rng, name, defaults) for _ in range(60 if thorough else 14)]
            for kw in kws:
                try:
                    text, inp = one_case(name, kw, defaults, emit)
                except Exception as e:  # noqa
                    import traceback
                    run.broken("settings:harness", f"{name} {kw}: {type(e).__name__}: {e}\n{traceback.format_exc()[-600:]}", kind="broken-correspondence")
                    continue
                if text is None:
                    skipped += 1
                    continue
                nested = any(isinstance(v, dict) for v in kw.values())
                run.case(("settings", name, json.dumps(kw, sort_keys=True, default=str)), nontrivial=bool(kw))
                run.count("settings_algorithm", name)
                run.count("settings_kwargs", "nested-dictionary" if nested else ("atoms" if kw else "defaults"))
                run.count("settings_outcome", ["built", "refused", "other-exception"][inp["observed"]["kind"]])
                if inp["observed"]["shared"]:
                    run.count("settings_kwargs", "caller-dictionary-shared")
                cases.append(text)
                metas.append(inp)
        try:
            run_probe(run, emit)
        except Exception as e:  # noqa
            import traceback
            run.broken("settings:run-probe", f"{type(e).__name__}: {e}\n{traceback.format_exc()[-800:]}", kind="broken-correspondence")
    run.extra["settings_cases"] = len(cases)
    run.extra["settings_cases_not_json_like"] = skipped
    if metas:
        run.sample(dict(settings_case=metas[len(metas) // 3]))
    box["cases"], box["metas"] = cases, metas


def compare(run: Run, box: dict):
    """Coq side: the model evaluated on the recorded constructions (theories/Api/SettingsExec.vo; also builds the source-level tie SettingsTie.vo)."""
    from harness.common import make
    cases, metas = box.get("cases", []), box.get("metas", [])
    ok, out = make(["theories/Api/SettingsExec.vo"], jobs=6)
    if not ok:
        run.broken("build:SettingsExec", out[-1500:])
    ok_tie, out = make(["theories/Api/SettingsTie.vo"], jobs=6)
    if not ok_tie:
        run.broken("build:SettingsTie", out[-1500:])
    if not cases:
        run.broken("settings:no-case", "no construction was recorded", kind="broken-correspondence")
    if ok and cases:
        header = ("From Coq Require Import List ZArith String.\nFrom Leaspy Require Import Api.Settings Api.SettingsExec.\n"
                  "Local Open Scope string_scope.")
        bad = run.vm_bad_indices("settings", header, "ctor_case", cases, "ctor_check", shard=60)
        if bad is None:
            run.broken("settings:vm", "Coq failed on the settings cases", kind="broken-correspondence")
        else:
            for i in bad:
                m = metas[i]
                run.fail("settings:model-disagrees", "AlgorithmSettings(name, **kwargs) / the algorithm built from it / save+load / the sharing of "
                         "dictionaries is not what the model of Api/Settings.v computes for this input", m,
                         "resolve / ctor_view / load(save) / hresolve of the model (evaluate ctor_check in Coq)", json.dumps(m["observed"], default=str)[:1500])
    run.assumptions += ["python dictionaries have distinct keys (NoDup hypotheses of the C13_settings_* theorems); json.dump -> json.load is the "
                        "identity on the values met (checked on every generated case by comparing the reloaded object)",
                        "lists inside settings are values (no algorithm assigns into a list of its parameters)"]
    run.trusted += ["harness/props/c13_settings.py: encoding of python values as `jv` literals (floats by as_integer_ratio), identity walk (`is`) of the dictionaries"]


def settings_tie(run: Run, thorough: bool, translated: bool):
    box = {}
    observe(run, thorough, box)
    compare(run, box)


def replay_one(run: Run, inp: dict) -> int:
    """Re-run one recorded (name, kwargs) on the current tree: python-side oracles + the Coq comparison."""
    from harness.common import use_impl
    use_impl()
    name, kw = inp["name"], copy.deepcopy(inp["kwargs"])
    print(f"replaying AlgorithmSettings({name!r}, **{kw})")
    if inp.get("call"):
        before = len(run._fails)
        run_probe(run, lambda sig, what, i, e=None, o=None: run.fail(sig, what, i, e, o))
        bad = len(run._fails) > before
    else:
        defaults = json.loads((SRC / "algo" / "data" / f"default_{name}.json").read_text())
        fails = []
        with warnings.catch_warnings(), contextlib.redirect_stdout(io.StringIO()):
            warnings.simplefilter("ignore")
            text, meta = one_case(name, kw, defaults, lambda sig, what, i, e=None, o=None: fails.append(sig))
        box = dict(cases=[text] if text else [], metas=[meta] if text else [])
        before = len(run._fails)
        compare(run, box)
        bad = bool(fails) or len(run._fails) > before
        print("python-side signatures:", sorted(set(fails)) or "none", "| observed:", json.dumps(meta.get("observed"), default=str)[:600])
    print("REPLAY", "FAILS" if bad else "passes")
    return 1 if bad else 0
