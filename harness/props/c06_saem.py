"""C06 — the noise estimate after burn-in: the memory phase of MCMC-SAEM on the statistics of `noise_std`.

* `saem_tie`     T2: the REAL `TensorMcmcSaemAlgorithm._maximization_step` driven on a real (tiny) `State` holding the real variables
                 of `FullGaussianObservationModel.with_noise_std_as_model_parameter` (y, y_L2 / n_obs, the collected y_x_model /
                 model_x_model, noise_std and its update rule), `model` being a data variable that the harness sets before each
                 step.  After each step: `algo.sufficient_statistics` (y_x_model: its WEIGHTS, its values where the weight is not 0;
                 model_x_model) and the variance handed to `compute_std_from_variance` are compared inside Coq with
                 Masked/Saem.v (`check_saem_case`), exactly (float64 inputs on which everything but the final division is exact:
                 half-integers, burn_in_step_power = 1 and iterations n_burn_in_iter + 2^j so that e = 2^-j).
* `saem_oracle`  real fits of every shipped kind x scalar / diagonal noise on a cohort with partially observed visits, several
                 iterations past burn-in (n_iter 10, n_burn_in_iter 3): at EVERY iteration the adopted noise_std^2 is recomputed from
                 the statistics handed to `update_parameters` with the explicit mask of the dataset (observed entries only, n_obs =
                 their number); the same fits with garbage under the mask must give bit-identical statistics / noise_std / parameters.
"""
from __future__ import annotations

import contextlib
import io
import math
import warnings

from harness.props import c06_pipeline as P

N_BURN_IN = 3
SAEM_HDR = ("From Coq Require Import List NArith ZArith QArith Bool.\nFrom Leaspy Require Import Base.Atoms Masked.Weighted Masked.Pipeline Masked.Saem.\n"
            "Import ListNotations.\nLocal Close Scope Q_scope.\n")
SAEM_TYPE = "bool * list nat * list atom * list N * list atom * list (atom * atom * list atom) * list obs_step"
LOST = "saem-blend:statistic-lost-weights"

# the example of Masked/SaemExamples.v (run a): y of the F3 witness, three steps (memory-less, e = 1/2, e = 1/4)
WITNESS = dict(scenario="saem-witness", y=[[[1.0, None]], [[2.0, 3.0]]],
               models=[[[[1.0, 5.0]], [[2.0, 2.0]]], [[[1.0, 3.0]], [[2.0, 1.0]]], [[[0.0, 1.0]], [[2.0, 1.0]]]],
               iterations=[N_BURN_IN + 1, N_BURN_IN + 2, N_BURN_IN + 4])


class TinyFit:
    """A real State over the real variables of the Gaussian observation model + the real algorithm object."""

    def __init__(self, diagonal, n_feat):
        import torch
        import leaspy.models.obs_models._gaussian as gm
        from leaspy.algo import AlgorithmSettings, algorithm_factory
        from leaspy.models import McmcSaemCompatibleModel
        from leaspy.variables.dag import VariablesDAG
        from leaspy.variables.specs import DataVariable, NamedVariables
        from leaspy.variables.state import State
        self.torch, self.gm, self.model_cls = torch, gm, McmcSaemCompatibleModel
        self.diagonal = diagonal
        self.om = gm.FullGaussianObservationModel.with_noise_std_as_model_parameter(n_feat if diagonal else 1)
        nv = NamedVariables({"model": DataVariable()})
        nv.update(self.om.get_variables_specs(named_attach_vars=False))
        self.state = State(VariablesDAG.from_dict(nv))
        with warnings.catch_warnings():
            warnings.simplefilter("ignore")
            self.algo = algorithm_factory(AlgorithmSettings("mcmc_saem", n_iter=64, n_burn_in_iter=N_BURN_IN, burn_in_step_power=1.0,
                                                            seed=0, progress_bar=False))
        self.n_feat = n_feat

    def coefficients(self, iteration):
        """(1.0 - e, e) exactly as `_maximization_step` computes them, or None for a memory-less step"""
        nb = self.algo.algo_parameters["n_burn_in_iter"]
        if iteration <= nb + 1:
            return None
        e = iteration - nb
        e **= -self.algo.algo_parameters["burn_in_step_power"]
        return (1.0 - e, e)

    def run(self, values, mask, models, iterations):
        """-> ("S", [per step: dict(weight, yxm, mxm, var)]) or ("X", step, exception class name)"""
        import types
        torch, gm = self.torch, self.gm
        st = self.state
        st["y"] = self.om.getter(types.SimpleNamespace(values=values, mask=mask))
        st["noise_std"] = torch.ones(self.n_feat if self.diagonal else 1, dtype=torch.float64)
        self.algo.sufficient_statistics = None
        seen = []
        orig = gm.compute_std_from_variance

        def recorder(variance, *a, **k):
            seen.append(variance.detach().clone())
            return orig(variance, *a, **k)
        gm.compute_std_from_variance = recorder
        out = []
        try:
            for step, (model, it) in enumerate(zip(models, iterations)):
                st["model"] = model
                self.algo.current_iteration = it
                n0 = len(seen)
                try:
                    self.algo._maximization_step(self.model_cls, st)
                except Exception as e:  # noqa: BLE001  (a variance <= 0 / NaN -> LeaspyConvergenceError AFTER the variance was recorded)
                    if len(seen) != n0 + 1:
                        return ("X", step, type(e).__name__)
                if len(seen) != n0 + 1:
                    return ("X", step, f"compute_std_from_variance called {len(seen) - n0} times")
                ss = self.algo.sufficient_statistics
                yxm, mxm = ss["y_x_model"], ss["model_x_model"]
                w = getattr(yxm, "weight", None)
                v = getattr(yxm, "value", yxm).detach().double().clone()
                if w is not None:
                    v = v.masked_fill(w == 0, 0.0)
                out.append(dict(weight=None if w is None else w.detach().clone(), weighted=hasattr(yxm, "weight"), yxm=v,
                                mxm=getattr(mxm, "value", mxm).detach().double().clone(), var=seen[-1].double()))
        finally:
            gm.compute_std_from_variance = orig
        return ("S", out)


def _case_tensors(inp):
    import torch
    from harness.props.c06_api import unjson
    if "mask" in inp:
        values = torch.tensor(unjson(inp["values"]), dtype=torch.float64)
        mask = torch.tensor(inp["mask"], dtype=torch.float64)
    else:
        values = torch.tensor([[[float("nan") if x is None else float(x) for x in v] for v in i] for i in inp["y"]], dtype=torch.float64)
        mask = (~values.isnan()).double()
    models = [torch.tensor(unjson(m), dtype=torch.float64) for m in inp["models"]]
    return values, mask, models, list(inp["iterations"])


def _coq_case(diagonal, values, mask, models, coeffs, steps):
    from harness.props.c06_api import atom, lst, ns, opt, rshape
    flat = lambda t: lst(atom(x) for x in t.reshape(-1).tolist())  # noqa: E731
    obs = lst(f"({opt(s['weight'], lambda w: ns(w.reshape(-1).tolist()))}, {flat(s['yxm'])}, {flat(s['mxm'])}, {rshape(s['var'].shape)}, {flat(s['var'])})"
              for s in steps)
    st = lst(f"({atom(c[0])}, {atom(c[1])}, {flat(m)})" for c, m in zip(coeffs, models[1:]))
    return (f"({'true' if diagonal else 'false'}, {rshape(values.shape)}, {flat(values)}, {ns(mask.reshape(-1).tolist())}, {flat(models[0])}, "
            f"{st}, {obs})")


def saem_tie(run, n, only=None):
    import torch
    from harness.props.c06_api import jsonable
    obs_vals = [k / 2 for k in range(-6, 7)]
    garbage_y = [0.0, 7.5, -2.0, 1e30, float("nan"), float("inf"), float("-inf")]
    garbage_m = [7.5, -2.0, float("nan"), float("inf"), float("-inf")]
    todo = []
    if only is not None:
        for inp in only:
            values, mask, models, its = _case_tensors(inp)
            rules = [inp["rule"] == "diagonal"] if "rule" in inp else [False, True]
            todo += [(inp, values, mask, models, its, d) for d in rules]
    else:
        values, mask, models, its = _case_tensors(WITNESS)
        todo += [(WITNESS, values, mask, models, its, False), (WITNESS, values, mask, models, its, True)]
        for c in range(n):
            r = run.rng("saem-tie", c)
            diagonal = r.random() < 0.5
            ni, nvis, nf = r.randint(1, 3), r.randint(1, 3), (r.randint(2, 3) if diagonal else r.randint(1, 3))
            p = r.choice([0.15, 0.4, 0.7])
            mask = torch.tensor([[[0.0 if r.random() < p else 1.0 for _ in range(nf)] for _ in range(nvis)] for _ in range(ni)], dtype=torch.float64)
            if not bool(mask.any()):
                mask[r.randrange(ni), r.randrange(nvis), r.randrange(nf)] = 1.0
            gy = r.random() < 0.6
            values = torch.tensor([[[r.choice(obs_vals) if mask[i, j, k] else (r.choice(garbage_y) if gy else 0.0) for k in range(nf)]
                                    for j in range(nvis)] for i in range(ni)], dtype=torch.float64)
            n_mem = r.randint(1, 4)
            its = [r.choice([1, 2, N_BURN_IN, N_BURN_IN + 1])] + [N_BURN_IN + 2 ** j for j in sorted(r.sample(range(1, 6), n_mem))]
            models = []
            for _ in its:
                gm_ = r.random() < 0.35  # non-finite / other garbage model values where y is missing
                models.append(torch.tensor([[[r.choice(obs_vals) if (mask[i, j, k] or not gm_) else r.choice(garbage_m) for k in range(nf)]
                                             for j in range(nvis)] for i in range(ni)], dtype=torch.float64))
            inp = dict(scenario="saem-tie", rule="diagonal" if diagonal else "scalar", values=jsonable(values.tolist()),
                       mask=[[[int(x) for x in v] for v in i] for i in mask.tolist()], models=[jsonable(m.tolist()) for m in models], iterations=its)
            todo.append((inp, values, mask, models, its, diagonal))
    fits = {}
    cases, meta = [], []
    for inp, values, mask, models, its, diagonal in todo:
        rule = "diagonal" if diagonal else "scalar"
        nf = values.shape[-1]
        key = (diagonal, nf if diagonal else 1)
        if key not in fits:
            fits[key] = TinyFit(diagonal, nf)
        tf = fits[key]
        w = mask.bool()
        leak = any(bool((~w & (m != 0)).any()) for m in models[1:])  # a model tensor of a memory step is not 0 somewhere y is missing
        partial_visit = bool((~w & w.any(dim=-1, keepdim=True)).any())
        run.case(("saem-tie", rule, tuple(values.shape), repr(values.reshape(-1).tolist()), tuple(mask.reshape(-1).tolist()),
                  tuple(its), repr([m.reshape(-1).tolist() for m in models])), nontrivial=leak)
        run.count("oracle", "saem-step-tie")
        run.count("saem-tie-rule", rule)
        run.count("saem-tie-memory-steps", len(its) - 1)
        run.count("saem-tie-partially-observed-visit", partial_visit)
        coeffs = [tf.coefficients(it) for it in its[1:]]
        if tf.coefficients(its[0]) is not None or any(c is None for c in coeffs):
            run.broken("saem-tie:iterations", f"iterations {its}: the first step must be memory-less and the others with memory (n_burn_in_iter = "
                       f"{tf.algo.algo_parameters['n_burn_in_iter']})", kind="broken-correspondence")
            continue
        res = tf.run(values, mask, models, its)
        if res[0] == "X":
            run.count("saem-tie-outcome", res[2])
            run.fail(f"saem-step:raises:{res[2]}", f"_maximization_step (iteration {its[res[1]]}, {rule} noise) raised {res[2]} before handing a variance to "
                     "compute_std_from_variance", dict(inp, rule=rule))
            continue
        steps = res[1]
        run.count("saem-tie-outcome", "nan" if any(bool(s["var"].isnan().any()) for s in steps) else "finite")
        cases.append(_coq_case(diagonal, values, mask, models, coeffs, steps))
        meta.append((inp, rule, mask, its, steps, _own_variances(values, mask, models, coeffs, diagonal)))
    if only is None and meta:
        inp, rule, mask, its, steps, _ = meta[0]
        run.sample(dict(kind="saem-step-tie", case=inp, rule=rule, on_code=[dict(iteration=it, y_x_model_weight=None if s["weight"] is None else
                        [int(x) for x in s["weight"].reshape(-1).tolist()], variance=jsonable(s["var"].reshape(-1).tolist())) for it, s in zip(its, steps)]))
    bad = run.vm_bad_indices("saem", SAEM_HDR, SAEM_TYPE, cases, "check_saem_case")
    for b in bad or []:
        inp, rule, mask, its, steps, own = meta[b]
        lost = [it for it, s in zip(its, steps) if s["weight"] is None or s["weight"].shape != mask.shape
                or not bool((s["weight"].double() == mask).all())]
        observed = [dict(iteration=it, y_x_model=("WeightedTensor" if s["weighted"] else "Tensor"), has_weights=s["weight"] is not None,
                         variance=jsonable(s["var"].reshape(-1).tolist())) for it, s in zip(its, steps)]
        leak = [it for it, s, o in zip(its, steps, own) if s["var"].shape != o.shape or not bool(torch.isclose(s["var"], o, rtol=1e-12, atol=0.0, equal_nan=True).all())]
        if lost:
            run.fail(LOST + (":noise-not-from-observed-entries-only" if leak else ""), (f"the variance handed to compute_std_from_variance at iteration(s) {leak} is not "
                     "(sum_obs y^2 + sum_obs(-2 avg(y*model) + avg(model^2))) / n_obs over observed entries; " if leak else "") + f"after _maximization_step at iteration(s) {lost} (n_burn_in_iter {N_BURN_IN}) the stored y_x_model no longer carries the "
                     f"weights of y ({rule} noise): the update rule masks model_x_model only through these weights, so model^2 at entries missing on an "
                     "observed visit enters the residual sum while n_obs counts observed entries only",
                     dict(inp, rule=rule), expected="weights of y on the averaged y_x_model (C06_saem_statistics_carry_weights), variance of "
                     f"noise_var_{rule}_saem (Masked/Saem.v)", observed=observed)
        else:
            run.fail(f"saem-step-differs-from-model:{rule}", f"the statistics / variance left by the real _maximization_step ({rule} noise, iterations {its}) are "
                     "not those of Masked/Saem.v (the theorem C06_noise_observed_only_after_burn_in is about the model)", dict(inp, rule=rule),
                     expected=f"saem_stats / noise_var_{rule}_saem of Masked/Saem.v", observed=observed)
    run.extra["saem_tie_cases"] = len(cases)
    return bad


def _own_variances(values, mask, models, coeffs, diagonal):
    """float64, from scratch: the variance after each step when y * model and model^2 are averaged over OBSERVED entries only"""
    obs = mask.bool()
    dims = (0, 1) if diagonal else (0, 1, 2)
    y0 = values.masked_fill(~obs, 0.0)
    out, avg = [], None
    for k, m in enumerate(models):
        m = m.masked_fill(~obs, 0.0)
        cur = (y0 * m, m ** 2)
        avg = cur if k == 0 else tuple(a * coeffs[k - 1][0] + coeffs[k - 1][1] * c for a, c in zip(avg, cur))
        out.append(((y0 ** 2).sum(dim=dims) + (-2 * avg[0] + avg[1]).sum(dim=dims)) / obs.sum(dim=dims).double())
    return out


# ----------------------------------------------------------------------------- real fits running past burn-in

SAEM_CONFIGS = [  # kind, noise, source_dimension, n_feat
    ("logistic", "gaussian-scalar", None, 3),
    ("logistic", "gaussian-diagonal", 1, 3),
    ("linear", "gaussian-scalar", None, 3),
    ("linear", "gaussian-diagonal", 1, 3),
    ("shared_speed_logistic", "gaussian-scalar", None, 3),
    ("shared_speed_logistic", "gaussian-diagonal", 1, 3),
    ("joint", "gaussian-scalar", None, 3),
    ("joint", "gaussian-diagonal", None, 3),
    ("mixture_logistic", "gaussian-diagonal", 2, 3),
]


def phase(it, n_burn_in):
    return "burn-in" if it <= n_burn_in else ("first-memory" if it == n_burn_in + 1 else "memory")


def fit_saem_record(kind, noise, src, n_feat, df, seed, n_iter, n_burn_in, tamper=None):
    """Real fit; `update_parameters` is wrapped (record only): the statistics it is handed, the model tensor of the iteration and the
    noise_std adopted.  Returns (records name -> tensor, per-iteration list of dicts)."""
    from harness import synth
    rec, its = {}, []
    model = synth.make_model(kind, n_feat, src, noise)
    real = model.update_parameters

    def spy(state, suff, *, burn_in):
        d = dict(burn_in=burn_in)
        for k in ("y_x_model", "model_x_model"):
            if k in suff:
                v = suff[k]
                d[k] = getattr(v, "value", v).detach().double().clone()
                d[k + ":weight"] = None if getattr(v, "weight", None) is None else v.weight.detach().clone()
                d[k + ":type"] = type(v).__name__
        if "model" in state.dag:
            m = state["model"]
            d["model"] = getattr(m, "value", m).detach().double().clone()
        for k, v in suff.items():
            rec[f"it{len(its) + 1}:suffstat:{k}"] = P._plain(v)
        try:
            real(state, suff, burn_in=burn_in)
        finally:
            if "noise_std" in state.dag:
                d["noise_std"] = state["noise_std"].detach().double().clone()
                rec[f"it{len(its) + 1}:noise_std"] = state["noise_std"].detach().clone()
            its.append(d)
    model.update_parameters = spy
    try:
        with (tamper or contextlib.nullcontext()):
            synth.fit(kind, n_iter=n_iter, seed=seed, df=df, model=model, n_burn_in_iter=n_burn_in)
            for k, v in model.parameters.items():
                rec[f"param:{k}"] = P._plain(v)
    finally:
        del model.update_parameters
    return rec, its


def noise_each_iteration(its, values, mask, n_burn_in, power):
    """From scratch, for each iteration: the variance the noise rule has to adopt given the statistics it was handed, with the explicit
    mask of the dataset — (sum_obs y^2 + sum_obs(-2 * y_x_model + model_x_model)) / n_obs — and, independently of the stored statistics,
    the one obtained by averaging y * model_k and model_k^2 over the iterations oneself (observed entries only).
    Yields (iteration, got variance, expected from the statistics or None, expected from own average, scalar?)."""
    obs = mask.bool()
    y0 = values.double().masked_fill(~obs, 0.0)
    avg = None
    for i, d in enumerate(its):
        it = i + 1
        if "noise_std" not in d or "model" not in d:
            continue
        scalar = d["noise_std"].numel() == 1
        dims = (0, 1, 2) if scalar else (0, 1)
        n = obs.sum(dim=dims).double()
        yl2 = (y0 ** 2).sum(dim=dims)
        m = d["model"].masked_fill(~obs, 0.0)
        cur = (y0 * m, m ** 2)
        if it <= n_burn_in + 1 or avg is None:
            avg = cur
        else:
            e = float(it - n_burn_in) ** -power
            avg = tuple(a * (1.0 - e) + e * c for a, c in zip(avg, cur))
        own = (yl2 + (-2 * avg[0] + avg[1]).sum(dim=dims)) / n
        from_stats = None
        if d.get("y_x_model") is not None and d.get("model_x_model") is not None and d["y_x_model"].shape == obs.shape == d["model_x_model"].shape:
            resid = (-2 * d["y_x_model"] + d["model_x_model"]).masked_fill(~obs, 0.0)
            from_stats = (yl2 + resid.sum(dim=dims)) / n
        yield it, (d["noise_std"] ** 2).reshape(-1), None if from_stats is None else from_stats.reshape(-1), own.reshape(-1), scalar


def run_saem_config(run, cfg, seed, fills, n_iter=10, n_burn_in=N_BURN_IN, n_ind=8):
    import torch
    from harness import synth
    from leaspy.io.data.dataset import Dataset
    kind, noise, src, n_feat = cfg
    base = dict(kind=kind, noise=noise, source_dimension=src, n_feat=n_feat, seed=seed, n_ind=n_ind, n_iter=n_iter, n_burn_in_iter=n_burn_in)
    df = P.missing_df(kind, seed, n_ind=n_ind, n_feat=n_feat)
    try:
        ref, its = fit_saem_record(kind, noise, src, n_feat, df, seed, n_iter, n_burn_in)
    except Exception as e:
        # the zero-filled run itself fails.  A collapse of the estimate on a tiny cohort is not this property; anything else is compared with
        # the SAME cohort without any missing entry: a fit that only aborts when entries are missing depends on the missing-data pattern
        run.count("skipped", f"saem:{kind}/{noise}: {type(e).__name__}")
        run.log(f"saem reference run failed for {kind}/{noise}: {type(e).__name__}: {e}")
        if type(e).__name__ != "LeaspyConvergenceError":
            full = synth.make_df(n_ind=n_ind, n_feat=n_feat, seed=seed, missing=0.0, joint=(kind == "joint"), kind=kind, visits=(3, 6))
            try:
                fit_saem_record(kind, noise, src, n_feat, full, seed, n_iter, n_burn_in)
            except Exception:  # noqa: BLE001
                return
            run.case(("saem-fit-raises", kind, noise, src, seed))
            run.fail(f"fit-past-burn-in:raises-only-with-missing-entries:{type(e).__name__}", f"{kind}/{noise}: the fit (n_iter {n_iter}, n_burn_in_iter {n_burn_in}) "
                     f"raises {type(e).__name__}: {str(e)[:200]} on the cohort with missing entries and runs on the same cohort without any missing entry",
                     dict(base, scenario="saem-noise", iteration=None))
        return
    run.count("saem-kind", f"{kind}/{noise}")
    ds = Dataset(synth.make_data(df, kind))
    obs = ds.mask.bool()
    partial = int((~obs & obs.any(dim=-1, keepdim=True)).sum())
    run.count("saem-partially-observed-entries", partial)
    from leaspy.algo import AlgorithmSettings
    power = AlgorithmSettings("mcmc_saem").parameters["burn_in_step_power"]
    rel = lambda a, b: float(((a - b).abs() / (1e-6 + b.abs())).nan_to_num(math.inf).max())  # noqa: E731
    checked = 0
    for it, got, from_stats, own, scalar in noise_each_iteration(its, ds.values, ds.mask, n_burn_in, power):
        shape = "scalar" if scalar else "diagonal"
        ph = phase(it, n_burn_in)
        want, how = (from_stats, "the statistics handed to update_parameters") if from_stats is not None else (own, "y * model and model^2 averaged over the "
                                                                                                                  "iterations (statistics not of the shape of y)")
        run.case(("saem-noise", kind, noise, src, seed, it), nontrivial=(partial > 0 and ph == "memory"))
        run.count("oracle", f"noise-each-iteration:{ph}")
        checked += 1
        if from_stats is not None and rel(own, from_stats) > 1e-3:
            run.count("saem-own-average-differs-from-statistics", f"{kind}/{noise}")
        if rel(got, want) > 1e-3:
            d = its[it - 1]
            wt = d.get("y_x_model:weight")
            lost = d.get("y_x_model") is not None and (wt is None or wt.shape != obs.shape or not bool((wt.bool() == obs).all()))
            run.fail(f"noise-at-iteration:{ph}:not-observed-entries-only:{shape}",
                     f"{kind}/{noise}: at iteration {it} ({ph}; n_burn_in_iter {n_burn_in}) noise_std^2 = {[round(x, 6) for x in got.tolist()]} is not "
                     f"(sum_obs y^2 + sum_obs(-2 y_x_model + model_x_model)) / n_obs = {[round(x, 6) for x in want.tolist()]} computed from {how} with the "
                     f"mask of the dataset ({partial} missing entries on observed visits"
                     + (f"; the y_x_model handed to the rule is a {d.get('y_x_model:type')} that does not carry the weights of y" if lost else "") + ")",
                     dict(base, scenario="saem-noise", iteration=it), expected=want.tolist(), observed=got.tolist())
    run.extra.setdefault("saem_iterations_checked", 0)
    run.extra["saem_iterations_checked"] += checked
    # garbage under the mask through the whole fit (burn-in AND memory iterations): bit-identical
    for fill in fills:
        inp = dict(base, scenario="saem-garbage", fill=repr(fill))
        try:
            got, _ = fit_saem_record(kind, noise, src, n_feat, df, seed, n_iter, n_burn_in, tamper=P.DatasetTamper(fill=fill))
        except Exception as e:
            run.case(("saem-garbage", kind, noise, src, seed, repr(fill), "raises"))
            run.fail(f"garbage-under-mask:raises:{type(e).__name__}", f"{kind}: fit (n_iter {n_iter}, n_burn_in_iter {n_burn_in}) raised {type(e).__name__}: {e} "
                     f"with fill {fill!r} under the mask", inp)
            continue
        for k, v in ref.items():
            q = P.qclass(k.split(":", 1)[1] if k.startswith("it") else k)
            run.case(("saem-garbage", kind, noise, src, seed, repr(fill), k))
            run.count("oracle", "garbage-under-mask:past-burn-in")
            if k not in got or not P.same_bits(v, got[k]):
                d = None if k not in got or got[k].shape != v.shape else float((got[k].double() - v.double()).abs().nan_to_num(math.inf).max())
                run.fail(f"garbage-under-mask:{q}", f"{kind}/{noise}: {k} changes when masked entries / padded slots hold {fill!r} (max abs diff {d}; "
                         f"n_iter {n_iter}, n_burn_in_iter {n_burn_in})", dict(inp, quantity=k), expected="bit-identical to the zero-filled run",
                         observed=f"max abs diff {d}")
    return True


def saem_oracle(run, thorough=False):
    seeds = [run.seed % 997] if not thorough else [run.seed % 997 + s for s in range(3)]
    fills = [float("nan"), 1e30] if not thorough else P.FILLS
    for cfg in SAEM_CONFIGS:
        for seed in seeds:
            run_saem_config(run, cfg, seed, fills, n_iter=10 if not thorough else 16, n_burn_in=N_BURN_IN, n_ind=8 if not thorough else 12)
    run.sample(dict(kind="saem-oracle", configs=[list(c) for c in SAEM_CONFIGS], n_burn_in_iter=N_BURN_IN, fills=[repr(f) for f in fills]))
