"""C20 — benchmark models (constant, LME) implement their documented estimators."""
from __future__ import annotations

import json
import math
import warnings
from fractions import Fraction

from harness.common import Run, coq_Q, coq_bool, coq_list, frac
from harness.translate import c20_bench

META = dict(
    technique="Coq theorems (list induction, stable-sort invariants, exact field algebra over Q) on a model of _get_feature_values / ConstantModel / "
              "LMEPersonalizeAlgorithm / LMEModel / the storing step of LMEFitAlgorithm; T1: those five functions are regenerated from the python "
              "source by a fail-closed shape-typed symbolic executor (coq/gen/GenC20.v, compositions of numpy-primitive meanings) and proved EQUAL "
              "to the model; T2: the model's executable definitions are run inside Coq (vm_compute, exact rationals) on the very inputs given to "
              "the implementation and compared with its outputs; statsmodels agreement, covariance-form conditional means and straight-line "
              "shape are runtime oracles",
    level_text="Unbounded theorems: 'last' / 'last-known' / 'max' / 'mean' meet order-free specifications (row of the greatest age; "
               "value at the greatest age where present; greatest / arithmetic mean of present values; NaN iff missing at every "
               "visit) for every table, and are invariant under row permutation (distinct ages for the two age-based ones); the "
               "prediction is that value at every requested age; the personalised random effects are the unique solution of "
               "(Z'Z + Psi^-1) b = Z'r whenever that matrix is regular; the random-intercept closed form is the code's generic formula at "
               "Z = 1 and the Gaussian conditional mean; an accepted fit stores a two-sided inverse of cov_re / noise^2 and a singular "
               "covariance is refused; precision form = covariance form D Z'(Z D Z' + I)^-1 r for invertible D, 0 for D = 0; the trajectory is "
               "the line intercept + slope*age. All of it holds of the definitions regenerated from the source (C20_src_*). Refuted and "
               "replayed: ages that collide once stored in float32 make 'last'/'last-known' return the earlier visit.",
    level_note="Trusted: Coq kernel (all theorems closed under the global context); the translator harness/translate/c20_bench.py and the "
               "exact-arithmetic meanings of the numpy / python / statsmodels primitives it targets (Api/BenchNumpy.v; exercised on every run by "
               "executing the model on the implementation's inputs); numpy/torch/pandas kernels; float rounding outside the theorems (exact "
               "comparison on dyadic inputs for last/last-known/max, stated tolerances otherwise). statsmodels' optimiser (the variance "
               "components) is an input of the model: agreement with fitted.random_effects is a runtime oracle; ages_std and noise_std enter the "
               "fit model through their squares.",
    design_ref="DESIGN.md section 4 C20",
)

OBLIGATIONS = [
    "C20_last", "C20_last_known", "C20_last_known_unique", "C20_max", "C20_mean", "C20_mean_bounds", "C20_repeat",
    "C20_last_rounded_ok", "C20_last_rounded_refuted",
    "C20_blup_normal_eq", "C20_blup_sound", "C20_penalised_ls_optimal", "C20_intercept_special_case", "C20_intercept_conditional_mean",
    "C20_personalize", "C20_personalize_defined", "C20_line",
    # source-level tie (extension): the regenerated definitions of coq/gen/GenC20.v
    "C20_src_feature_values", "C20_src_feature_values_any", "C20_src_estimators", "C20_src_constant_trajectory",
    "C20_src_lme_personalize", "C20_src_generic", "C20_src_paths_agree", "C20_src_lme_trajectory", "C20_src_fit_store",
    "C20_src_fit_inverse", "C20_src_fit_inverse_1", "C20_src_fit_refuses_singular", "C20_cov_form", "C20_cov_form_zero",
    "C20_src_fit_then_personalize",
]

def translate(run: Run) -> bool:
    """T1: regenerate coq/gen/GenC20.v from the source of the five benchmark functions (fail closed)"""
    return c20_bench.translate(run)


HDR = ("From Coq Require Import QArith List Bool.\nFrom Leaspy Require Import Base.QAux Api.Bench Api.BenchTie.\n"
       "Import ListNotations.\nOpen Scope Q_scope.\n")

KINDS = {"last": "Last", "last-known": "LastKnown", "max": "Max", "mean": "Mean"}
NAN = float("nan")


# --------------------------------------------------------------------------- Coq literals

def q(x) -> str:
    f = frac(x)
    return f"({f.numerator} # {f.denominator})"


def isnan(x) -> bool:
    return x is None or (isinstance(x, float) and math.isnan(x))


def cvalue(x) -> str:
    return "None" if isnan(x) else f"(Some {q(x)})"


def ctable(rows) -> str:
    return coq_list([f"({q(t)}, {coq_list([cvalue(v) for v in vals])})" for t, vals in rows])


def chist(obs) -> str:
    return coq_list([f"({q(t)}, {cvalue(v)})" for t, v in obs])


def cmat(m) -> str:
    return f"(Mat2 {q(m[0][0])} {q(m[0][1])} {q(m[1][0])} {q(m[1][1])})"


def cparams(p) -> str:
    return f"(LmeParams {q(p['ages_mean'])} {q(p['ages_std'])} {q(p['fe'][0])} {q(p['fe'][1])} {cmat(p['cov_inv'])})"


def cres(kind, payload=None) -> str:
    return f"(Err {kind})" if payload is None else f"(Ok {payload})"


def finite(*xs) -> bool:
    return all(isinstance(x, (int, Fraction)) or math.isfinite(float(x)) for x in xs)


# --------------------------------------------------------------------------- reference (order-free) estimators, exact

def ref_predict(kind, d, rows):
    """The documented estimator written without any sorting (python Fractions); None where the spec does not
    determine the value (ties in age for the age-based estimators) or where the code documents an exception."""
    if not rows and kind != "mean":
        return "error"
    out = []
    for j in range(d):
        colj = [(frac(t), vals[j]) for t, vals in rows]
        pres = [(t, frac(v)) for t, v in colj if not isnan(v)]
        if kind == "last":
            tmax = max(t for t, _ in colj)
            top = [v for t, v in colj if t == tmax]
            out.append(None if len(top) > 1 else ("nan" if isnan(top[0]) else frac(top[0])))
        elif kind == "last-known":
            if not pres:
                out.append("nan")
            else:
                tmax = max(t for t, _ in pres)
                top = [v for t, v in pres if t == tmax]
                out.append(None if len(top) > 1 else top[0])
        elif kind == "max":
            out.append(max(v for _, v in pres) if pres else "nan")
        else:
            out.append(sum(v for _, v in pres) / len(pres) if pres else "nan")
    return out


def agrees(ref, obs, tol):
    """ref entry (Fraction | 'nan' | None=undetermined) against an observed float"""
    if ref is None:
        return True
    if ref == "nan":
        return isnan(obs)
    if isnan(obs):
        return False
    return abs(frac(obs) - ref) <= Fraction(tol) * (1 + abs(ref))


def show(x):
    if isinstance(x, Fraction):
        return float(x)
    if isinstance(x, (list, tuple)):
        return [show(y) for y in x]
    return x


# --------------------------------------------------------------------------- generators

def gen_history(rng, n, d, ties=False, p_nan=None, grid=8):
    """n visits, d features, unsorted; ages on a 1/grid lattice (exact in float32), values k/16 (exact in float32)."""
    if p_nan is None:
        p_nan = rng.choice([0.0, 0.25, 0.5, 0.8])
    pool = list(range(50 * grid, 90 * grid))
    if ties and n >= 2:
        base = rng.sample(pool, max(1, n - rng.randint(1, n - 1)))
        ts = [rng.choice(base) for _ in range(n)]
    else:
        ts = rng.sample(pool, n)
    dead = [rng.random() < 0.2 for _ in range(d)]
    rows = []
    for t in ts:
        vals = [NAN if (dead[j] or rng.random() < p_nan) else rng.randint(-64, 64) / 16 for j in range(d)]
        rows.append((t / grid, vals))
    return rows


def tie_candidate_ok(kind, d, rows, obs) -> bool:
    """with tied ages: every returned entry must come from a visit at the greatest (present) age"""
    for j in range(d):
        colj = [(t, vals[j]) for t, vals in rows]
        if kind == "last-known":
            colj = [(t, v) for t, v in colj if not isnan(v)]
            if not colj:
                if not isnan(obs[j]):
                    return False
                continue
        tmax = max(t for t, _ in colj)
        cands = [v for t, v in colj if t == tmax]
        if not any((isnan(v) and isnan(obs[j])) or v == obs[j] for v in cands):
            return False
    if kind == "last":   # and the whole row must be one visit
        tmax = max(t for t, _ in rows)
        return any(all((isnan(a) and isnan(b)) or a == b for a, b in zip(vals, obs)) for t, vals in rows if t == tmax)
    return True


def sig_const(kind, rows):
    import numpy as np
    ts = [t for t, _ in rows]
    if len(set(ts)) == len(ts) and len({float(np.float32(t)) for t in ts}) < len(ts):
        return "constant:last-ages-collide-in-float32"
    return f"constant:{kind}"


# --------------------------------------------------------------------------- constant model

def const_direct(run: Run, n_cases: int):
    """ConstantPredictionAlgorithm._get_feature_values on raw arrays (unsorted, ties, NaN, empty)."""
    import numpy as np
    from leaspy.algo import AlgorithmSettings
    from leaspy.algo.personalize import ConstantPredictionAlgorithm

    algos = {k: ConstantPredictionAlgorithm(AlgorithmSettings("constant_prediction", prediction_type=k)) for k in KINDS}
    cases, meta, tie_cases = [], [], []
    directed = [
        ("unit-test", [(31, [1.0, 0.5]), (32, [2.0, 0.5]), (34, [NAN, 2.0]), (33, [3.0, NAN])], 2),
        ("single-visit", [(70.0, [1.5, NAN])], 2),
        ("all-missing", [(70.0, [NAN]), (60.0, [NAN])], 1),
        ("empty", [], 2),
        ("tie-greatest-age", [(70.0, [1.0]), (71.0, [5.0]), (71.0, [7.0])], 1),
        ("descending-input", [(73.0, [NAN]), (72.0, [2.0]), (71.0, [3.0])], 1),
        ("negative-max", [(70.0, [-3.0]), (71.0, [-1.0]), (72.0, [NAN])], 1),
    ]
    todo = [(name, rows, d) for name, rows, d in directed]
    g = run.rng("const-direct")
    while len(todo) < n_cases:
        n = g.choice([0, 1, 1, 2, 2, 3, 3, 4, 5, 6, 7])
        d = g.choice([1, 1, 2, 3])
        todo.append(("random", gen_history(g, n, d, ties=g.random() < 0.25), d))
    for name, rows, d in todo:
        times = np.array([t for t, _ in rows], dtype=float)
        values = np.array([v for _, v in rows], dtype=float).reshape(len(rows), d)
        has_tie = len({t for t, _ in rows}) < len(rows)
        for kind in KINDS:
            with warnings.catch_warnings():
                warnings.simplefilter("ignore")
                try:
                    out = [float(x) for x in algos[kind]._get_feature_values(times, values.copy())]
                    obs, err = out, None
                except (IndexError, ValueError) as e:
                    obs, err = None, type(e).__name__
                except Exception as e:  # noqa
                    obs, err = None, "other:" + type(e).__name__
            m = dict(case="const-direct", name=name, kind=kind, d=d, rows=[[t, [None if isnan(v) else v for v in vals]] for t, vals in rows])
            if obs is not None and any(math.isinf(v) for v in obs):
                # no observed value is infinite, so no configured constant can be: reported with the history (an infinite number has no
                # exact rational encoding for the comparison inside Coq)
                run.fail(f"constant:{kind}:infinite-prediction", f"'{kind}' returns an infinite value for a feature "
                         "(a feature never observed must give NaN, any other the configured observed value)", m,
                         expected="NaN or an observed value", observed=[repr(v) for v in obs])
                continue
            tol = Fraction(1, 10 ** 12) if kind == "mean" else 0
            observed = cres("Empty") if err in ("IndexError", "ValueError") and not rows else (
                cres("Shape") if err else cres(None, coq_list([cvalue(v) for v in obs])))
            if has_tie and kind in ("last", "last-known"):
                # the property does not say which of several visits of equal age is "the last": the tie-break is compared with
                # the model for information only (the model mirrors today's stable sort), never reported as a failure
                tie_cases.append(f"({KINDS[kind]}, {d}%nat, {ctable(rows)}, {observed}, {q(tol)})")
                if err is None and not tie_candidate_ok(kind, d, rows, obs):
                    run.fail(f"constant:{kind}", f"'{kind}' with tied ages returns a value that belongs to none of the latest visits", m, observed=obs)
            else:
                cases.append(f"({KINDS[kind]}, {d}%nat, {ctable(rows)}, {observed}, {q(tol)})")
                meta.append((m, obs, err))
            nontriv = len(rows) >= 2 and (any(isnan(v) for _, vals in rows for v in vals) or [t for t, _ in rows] != sorted(t for t, _ in rows))
            run.case(("const-direct", kind, d, tuple((t, tuple(map(repr, v))) for t, v in rows)), nontrivial=nontriv)
            run.count("constant.direct.visits", len(rows))
            run.count("constant.direct.kind", kind)
            if has_tie:
                run.count("constant.direct.shape", "ties-in-age")
            if err:
                run.count("constant.direct.outcome", err)
            # implementation-side oracle: the documented estimator recomputed without sorting
            ref = ref_predict(kind, d, rows)
            if ref == "error":
                if err is None:
                    run.count("constant.direct.outcome", "empty-history-accepted")
            elif err is not None:
                run.fail(f"constant:{kind}:raises", f"_get_feature_values raised {err} on a non-empty history", m, observed=err)
            else:
                for j in range(d):
                    if not agrees(ref[j], obs[j], tol or Fraction(0)):
                        run.fail(sig_const(kind, rows), f"'{kind}' does not return the documented value for feature {j}", m,
                                 expected=show(ref), observed=obs)
                        break
    run.sample(dict(meta[3][0], observed=meta[3][1]))
    bad = run.vm_bad_indices("const_direct", HDR, "kind * nat * table * res (list value) * Q", cases, "check_predict")
    if bad is None:
        return
    for i in bad:
        m, obs, err = meta[i]
        run.fail(sig_const(m["kind"], [(r[0], r[1]) for r in m["rows"]]),
                 f"_get_feature_values('{m['kind']}') differs from the Coq model (Bench.predict) on this history", m,
                 expected=show(ref_predict(m["kind"], m["d"], [(t, [NAN if v is None else v for v in vals]) for t, vals in m["rows"]])),
                 observed=obs if err is None else err)
    run.extra["constant_direct_cases"] = len(cases)
    if tie_cases:
        tb = run.vm_bad_indices("const_ties", HDR, "kind * nat * table * res (list value) * Q", tie_cases, "check_predict")
        run.extra["tied_age_cases"] = len(tie_cases)
        run.extra["tied_age_cases_where_tie_break_differs_from_model(informational)"] = None if tb is None else len(tb)


def const_api(run: Run, n_datasets: int):
    """ConstantModel.personalize + estimate through Data / Dataset (float32 storage, ingestion sorting)."""
    import numpy as np
    import pandas as pd
    from leaspy.io.data import Data
    from leaspy.models import ConstantModel

    g = run.rng("const-api")
    cases, meta = [], []
    datasets = []
    # directed: two distinct ages that collide in float32 (known finding), and the all-NaN last visit
    datasets.append(("ages-collide", {"a": [(70.000001, [1.0]), (70.000003, [2.0])]}, 1, True))
    datasets.append(("last-visit-all-nan", {"a": [(70.0, [1.0, 2.0]), (71.0, [NAN, NAN])], "b": [(66.0, [0.5, NAN])]}, 2, True))
    datasets.append(("last-visit-all-nan-kept", {"a": [(70.0, [1.0, 2.0]), (71.0, [NAN, NAN])], "b": [(66.0, [0.5, NAN])]}, 2, False))
    while len(datasets) < n_datasets:
        d = g.choice([1, 2, 2, 3])
        inds = {}
        for i in range(g.randint(1, 4)):
            inds[f"id{i}"] = gen_history(g, g.choice([1, 2, 3, 4, 5, 6]), d)
        datasets.append(("random", inds, d, g.random() < 0.8))
    for name, inds, d, drop in datasets:
        feats = [f"F{j}" for j in range(d)]
        flat = [(i, t, vals) for i, rows in inds.items() for t, vals in rows]
        g.shuffle(flat)
        df = pd.DataFrame([[i, t] + list(vals) for i, t, vals in flat], columns=["ID", "TIME"] + feats)
        try:
            with warnings.catch_warnings():
                warnings.simplefilter("ignore")
                data = Data.from_dataframe(df, drop_full_nan=drop)
        except Exception as e:  # ingestion is C14's business
            run.count("constant.api.ingestion", type(e).__name__)
            continue
        for kind in KINDS:
            try:
                with warnings.catch_warnings():
                    warnings.simplefilter("ignore")
                    model = ConstantModel("constant")
                    ip = model.personalize(data, "constant_prediction", prediction_type=kind)
                    known = [i for i in inds if i in ip._indices]
                    ages = {i: [g.choice([40.0, 65.5, 70.0, 82.25, 120.0]) for _ in range(g.randint(1, 3))] for i in known}
                    est = model.estimate(ages, ip) if known else {}
            except Exception as e:  # noqa
                run.fail(f"constant:{kind}:api-raises", f"personalize/estimate raised {type(e).__name__}: {e}",
                         dict(case="const-api", kind=kind, d=d, drop_full_nan=drop, individuals={i: show_rows(r) for i, r in inds.items()}))
                continue
            for i, rows in inds.items():
                kept = [r for r in rows if not (drop and all(isnan(v) for v in r[1]))]
                m = dict(case="const-api", name=name, kind=kind, d=d, drop_full_nan=drop, id=i, rows=show_rows(rows))
                if i not in ip._indices:
                    run.count("constant.api.individual", "absent-from-output" + ("" if kept else "(no visit left)"))
                    if kept:
                        run.fail("constant:api:individual-lost", "an individual with at least one kept visit has no prediction", m)
                    continue
                if not kept:
                    continue
                obs_ip = [float(ip._individual_parameters[i][f]) for f in feats]
                arr = np.asarray(est[i])
                if arr.shape != (len(ages[i]), d):
                    run.fail(f"constant:{kind}:not-repeated", f"estimate() returns an array of shape {arr.shape} for {len(ages[i])} requested ages and {d} features",
                             dict(m, ages=ages[i]), expected=[len(ages[i]), d], observed=list(arr.shape))
                    continue
                obs = [[float(x) for x in row] for row in arr]
                if any(math.isinf(v) for row in obs for v in row):
                    run.fail(f"constant:{kind}:infinite-prediction", f"estimate() of the constant model ('{kind}') returns an infinite value",
                             dict(m, ages=ages[i]), expected="NaN or an observed value", observed=[[repr(v) for v in row] for row in obs])
                    continue
                tol = Fraction(1, 10 ** 6) if kind == "mean" else 0
                payload = coq_list([coq_list([cvalue(v) for v in row]) for row in obs])
                cases.append(f"({KINDS[kind]}, {d}%nat, {ctable(kept)}, {coq_list([q(a) for a in ages[i]])}, {cres(None, payload)}, {q(tol)})")
                m["ages"] = ages[i]
                meta.append((m, obs))
                run.case(("const-api", kind, d, drop, tuple((t, tuple(map(repr, v))) for t, v in rows), tuple(ages[i])),
                         nontrivial=len(kept) >= 2)
                run.count("constant.api.kind", kind)
                run.count("constant.api.visits", len(kept))
                run.count("constant.api.features", d)
                # oracles: documented estimator recomputed without sorting; same value at every requested age
                ref = ref_predict(kind, d, kept)
                for j in range(d):
                    if not agrees(ref[j], obs_ip[j], tol):
                        run.fail(sig_const(kind, kept), f"personalize('{kind}') does not return the documented value for feature {j}", m,
                                 expected=show(ref), observed=obs_ip)
                        break
                for row in obs:
                    if not all((isnan(a) and isnan(b)) or a == b for a, b in zip(row, obs_ip)):
                        run.fail(f"constant:{kind}:not-repeated", "estimate() is not the personalised value at every requested age", m,
                                 expected=obs_ip, observed=obs)
                        break
    if meta:
        run.sample(dict(meta[min(7, len(meta) - 1)][0], observed=meta[min(7, len(meta) - 1)][1]))
    bad = run.vm_bad_indices("const_api", HDR, "kind * nat * table * list Q * res (list (list value)) * Q", cases, "check_estimate")
    for i in bad or []:
        m, obs = meta[i]
        kept = [(t, [NAN if v is None else v for v in vals]) for t, vals in m["rows"]]
        run.fail(sig_const(m["kind"], kept),
                 f"personalize+estimate('{m['kind']}') differs from the Coq model (Bench.constant_estimate) on this history", m,
                 expected=show(ref_predict(m["kind"], m["d"], [r for r in kept if not (m["drop_full_nan"] and all(isnan(v) for v in r[1]))])),
                 observed=obs)
    run.extra["constant_api_cases"] = len(cases)


def show_rows(rows):
    return [[t, [None if isnan(v) else v for v in vals]] for t, vals in rows]


# --------------------------------------------------------------------------- LME

def lme_blup_direct(run: Run, n_cases: int):
    """LMEPersonalizeAlgorithm._generic_get_random_effects on dyadic inputs."""
    import numpy as np
    from leaspy.algo.personalize import LMEPersonalizeAlgorithm

    g = run.rng("lme-blup")
    cases, meta = [], []
    for c in range(n_cases):
        n = g.choice([1, 1, 2, 3, 4, 5, 6])
        ones = g.random() < 0.6
        Z = [(1.0 if ones else g.randint(-16, 16) / 8, g.randint(-24, 24) / 8) for _ in range(n)]
        r = [g.randint(-40, 40) / 16 for _ in range(n)]
        a, dd = g.randint(2, 32) / 8, g.randint(2, 32) / 8
        if g.random() < 0.8:
            b = g.randint(-8, 8) / 16 * math.sqrt(a * dd) * 0.9
            b = round(b * 64) / 64
            P = [[a, b], [b, dd]]
        else:
            P = [[a, g.randint(-8, 8) / 16], [g.randint(-8, 8) / 16, dd]]  # not symmetric: the formula does not need it
        M = np.array(Z).T @ np.array(Z) + np.array(P)
        cond = float(np.linalg.cond(M))
        if not math.isfinite(cond) or cond > 1e6:
            run.count("lme.blup.skipped", "ill-conditioned")
            continue
        try:
            out = LMEPersonalizeAlgorithm._generic_get_random_effects(np.array(r), np.array(Z), np.array(P))
            out = [float(x) for x in np.asarray(out).reshape(-1)]
        except Exception as e:  # noqa
            run.fail("lme:blup:raises", f"_generic_get_random_effects raised {type(e).__name__}: {e}", dict(case="lme-blup", Z=Z, r=r, P=P))
            continue
        m = dict(case="lme-blup", Z=Z, r=r, P=P)
        tol = Fraction(1, 10 ** 9)
        obs = cres(None, f"({q(out[0])}, {q(out[1])})") if finite(*out) else cres("Singular")
        cases.append(f"({coq_list([f'({q(z0)}, {q(z1)})' for z0, z1 in Z])}, {coq_list([q(x) for x in r])}, {cmat(P)}, {obs}, {q(tol)})")
        meta.append((m, out))
        run.case(("lme-blup", tuple(Z), tuple(r), tuple(map(tuple, P))), nontrivial=n >= 2)
        run.count("lme.blup.n_obs", n)
        # oracle: residual of the normal equations in floating point
        res = M @ np.array(out) - np.array(Z).T @ np.array(r)
        if float(np.abs(res).max()) > 1e-9 * (1 + float(np.abs(M).max()) * float(np.abs(out).max())):
            run.fail("lme:blup", "(Z'Z + cov_re_unscaled_inv) b != Z' resid", m,
                     expected=[float(x) for x in np.linalg.solve(M, np.array(Z).T @ np.array(r))], observed=out)
    if meta:
        run.sample(dict(meta[0][0], observed=meta[0][1]))
    bad = run.vm_bad_indices("lme_blup", HDR, "list (Q * Q) * list Q * mat2 * res (Q * Q) * Q", cases, "check_blup2")
    for i in bad or []:
        m, out = meta[i]
        import numpy as np
        Zm, rm, Pm = np.array(m["Z"]), np.array(m["r"]), np.array(m["P"])
        run.fail("lme:blup", "_generic_get_random_effects differs from the Coq model (Bench.blup2)", m,
                 expected=[float(x) for x in np.linalg.solve(Zm.T @ Zm + Pm, Zm.T @ rm)], observed=out)
    run.extra["lme_blup_cases"] = len(cases)


def make_lme(params, slope):
    import numpy as np
    from leaspy.models import LMEModel
    model = LMEModel("lme", with_random_slope_age=slope)
    model.features = ["Y"]
    cov_inv = np.array(params["cov_inv"], dtype=float)
    model.load_parameters(dict(ages_mean=float(params["ages_mean"]), ages_std=float(params["ages_std"]),
                               fe_params=np.array(params["fe"], dtype=float),
                               cov_re=np.linalg.inv(cov_inv) if slope else np.array([[1.0 / cov_inv[0, 0]]]),
                               cov_re_unscaled_inv=cov_inv if slope else cov_inv[:1, :1], noise_std=1.0))
    return model


def exact_in_float32(p, times) -> bool:
    """is (t - mean)/std computed without rounding in float32 for every age?"""
    import numpy as np
    mu, sd = frac(p["ages_mean"]), frac(p["ages_std"])
    for t in times:
        ft = frac(float(np.float32(t)))
        if ft != frac(t):
            return False
        d = ft - mu
        if frac(float(np.float32(float(d)))) != d:
            return False
        x = d / sd
        if frac(float(np.float32(float(x)))) != x:
            return False
    return True


def personalize_one(model, slope, obs):
    """the implementation on one individual, exactly as LMEPersonalizeAlgorithm._compute_individual_parameters feeds it:
    float32 torch ages, float32 numpy values of shape (n, 1)"""
    import numpy as np
    import torch
    from leaspy.algo.personalize import LMEPersonalizeAlgorithm
    times = torch.tensor([t for t, _ in obs], dtype=torch.float32)
    values = np.array([[v] for _, v in obs], dtype=np.float32).reshape(len(obs), 1)
    with warnings.catch_warnings():
        warnings.simplefilter("ignore")
        re_d, _ = LMEPersonalizeAlgorithm._get_individual_random_effects_and_residuals(model, times, values)
    return [float(re_d["random_intercept"]), float(re_d.get("random_slope_age", 0.0))]


def ref_personalize(p, slope, obs):
    """float64 recomputation of the documented conditional mean (for the `expected` field of replays)."""
    import numpy as np
    o = [(t, v) for t, v in obs if not isnan(v)]
    a = np.array([(t - p["ages_mean"]) / p["ages_std"] for t, _ in o], dtype=float)
    X = np.stack([np.ones_like(a), a], axis=1) if len(o) else np.zeros((0, 2))
    r = np.array([v for _, v in o], dtype=float) - X @ np.array(p["fe"], dtype=float)
    P = np.array(p["cov_inv"], dtype=float)
    with warnings.catch_warnings():
        warnings.simplefilter("ignore")
        if slope:
            return [float(x) for x in np.linalg.solve(X.T @ X + P, X.T @ r)]
        return [float(r.sum() / (len(o) + P[0, 0])), 0.0]


def lme_cases(run: Run, params, slope, histories, tag, cases_p, meta_p, cases_t, meta_t, rng):
    """personalisation + trajectory of a list of individual histories under given parameters"""
    import numpy as np
    model = make_lme(params, slope)
    p = params
    for obs in histories:
        m = dict(case="lme-personalize", source=tag, with_random_slope_age=slope, params=show_params(p), obs=[[t, None if isnan(v) else v] for t, v in obs])
        pres = [(t, v) for t, v in obs if not isnan(v)]
        try:
            out = personalize_one(model, slope, obs)
        except Exception as e:  # noqa
            if not pres and isinstance(e, ValueError):
                # nothing observed: statsmodels' add_constant refuses the empty array; mirrored by the model (Err Empty).
                # Only reachable with the non-default drop_full_nan=False; the property does not speak about it.
                run.count("lme.personalize.nothing_observed", "ValueError (model: Err Empty)")
                cases_p.append(f"({coq_bool(slope)}, {cparams(p)}, {chist(obs)}, {cres('Empty')}, {q(0)})")
                meta_p.append((m, "ValueError"))
                run.case(("lme-pers-empty", tag, slope, repr(show_params(p)), tuple((t, repr(v)) for t, v in obs)), nontrivial=False)
            else:
                run.fail("lme:personalize:raises", f"_get_individual_random_effects_and_residuals raised {type(e).__name__}: {e}", m)
            continue
        a = [(t - p["ages_mean"]) / p["ages_std"] for t, _ in pres]
        M = np.array([[len(a), sum(a)], [sum(a), sum(x * x for x in a)]]) + np.array(p["cov_inv"], dtype=float)
        cond = float(np.linalg.cond(M)) if slope else 1.0
        if not math.isfinite(cond) or cond > 1e6:
            run.count("lme.personalize.skipped", "ill-conditioned")
            continue
        exact = exact_in_float32(p, [t for t, _ in pres])
        tol = Fraction(1, 10 ** 9) if exact else Fraction(1, 10 ** 5)
        run.count("lme.personalize.normalisation", "exact-in-float32" if exact else "rounded-in-float32")
        run.count("lme.personalize.n_present", len(pres))
        run.count("lme.personalize.slope", slope)
        obsd = cres(None, f"({q(out[0])}, {q(out[1])})") if finite(*out) else cres("Singular")
        cases_p.append(f"({coq_bool(slope)}, {cparams(p)}, {chist(obs)}, {obsd}, {q(tol)})")
        meta_p.append((m, out))
        run.case(("lme-pers", tag, slope, repr(show_params(p)), tuple((t, repr(v)) for t, v in obs)),
                 nontrivial=len(pres) >= 2 or any(isnan(v) for _, v in obs))
        if not finite(*out):
            continue
        # trajectory with these random effects
        ages = [rng.choice([40.0, 61.5, 70.0, 77.25, 90.0, 103.0]) for _ in range(rng.randint(1, 4))]
        ip = {"random_intercept": np.array(out[0])}
        if slope:
            ip["random_slope_age"] = np.array(out[1])
        mt = dict(case="lme-traj", source=tag, with_random_slope_age=slope, params=show_params(p), re=out, ages=ages)
        try:
            y = [float(v) for v in model.compute_individual_trajectory(ages, ip).reshape(-1)]
        except Exception as e:  # noqa
            run.fail("lme:trajectory:raises", f"compute_individual_trajectory raised {type(e).__name__}: {e}", mt)
            continue
        okf = finite(*y)
        cases_t.append(f"({cparams(p)}, ({q(out[0])}, {q(out[1] if slope else 0)}), {coq_list([q(a_) for a_ in ages])}, "
                       f"{cres(None, coq_list([q(v) for v in y])) if okf else cres('ZeroScale')}, {q(Fraction(1, 10 ** 6))})")
        meta_t.append((mt, y))
        run.case(("lme-traj", repr(show_params(p)), tuple(out), tuple(ages)), nontrivial=len(set(ages)) >= 2)
        # oracle: straight line with the documented slope and intercept
        sl = (p["fe"][1] + (out[1] if slope else 0.0)) / p["ages_std"]
        ic = p["fe"][0] + out[0] - p["ages_mean"] * sl
        for a_, v in zip(ages, y):
            if abs(v - (ic + sl * a_)) > 2e-6 * (1 + abs(ic) + abs(sl * a_)):
                run.fail("lme:trajectory", "trajectory is not intercept + slope*age with slope=(fe1+re1)/ages_std", mt,
                         expected=[ic + sl * x for x in ages], observed=y)
                break


def show_params(p):
    return dict(ages_mean=float(p["ages_mean"]), ages_std=float(p["ages_std"]), fe=[float(x) for x in p["fe"]],
                cov_inv=[[float(x) for x in row] for row in p["cov_inv"]])


def gen_obs(rng, n, grid=4, p_nan=0.2):
    ts = rng.sample(range(50 * grid, 90 * grid), n)
    return [(t / grid, NAN if rng.random() < p_nan else rng.randint(-48, 80) / 16) for t in ts]


def lme_designed(run: Run, n_param_sets: int, cases_p, meta_p, cases_t, meta_t):
    """hand-loaded parameters: dyadic normalisation (float32-exact, tolerance 1e-9) and generic ones (1e-5)"""
    g = run.rng("lme-designed")
    for k in range(n_param_sets):
        nice = k % 3 != 2
        a, dd = g.randint(2, 32) / 8, g.randint(2, 32) / 8
        b = round(g.uniform(-0.8, 0.8) * math.sqrt(a * dd) * 64) / 64
        p = dict(ages_mean=g.choice([64.0, 70.0, 72.5]) if nice else round(g.uniform(60, 80), 3),
                 ages_std=g.choice([2.0, 4.0, 8.0]) if nice else round(g.uniform(3, 12), 3),
                 fe=[g.randint(-16, 48) / 16, g.randint(-16, 32) / 16], cov_inv=[[a, b], [b, dd]])
        hist = [gen_obs(g, g.choice([1, 2, 3, 4, 5, 6])) for _ in range(4)]
        hist.append([(70.0, NAN)])                       # nothing observed
        for slope in (False, True):
            lme_cases(run, p, slope, hist, "designed", cases_p, meta_p, cases_t, meta_t, g)


def gen_cohort(rng, n_ind, homogeneous=False):
    """a small univariate cohort following a random-intercept/slope line; ages on a 1/4 lattice, values on 1/64.
    homogeneous: every individual follows the SAME line (only the visit noise differs) — the fitted covariance of the random
    effects then sits on (or next to) the boundary: zero variance, conditional means exactly 0, a fit the library may refuse"""
    rows = {}
    for i in range(n_ind):
        n = rng.choice([1, 2, 3, 3, 4, 5, 6]) if not homogeneous else rng.choice([3, 4, 5, 6])
        ts = sorted(rng.sample(range(200, 360), n))
        b0, b1 = (rng.gauss(0, 1.0), rng.gauss(0, 0.05)) if not homogeneous else (0.0, 0.0)
        obs = []
        for t in ts:
            y = 2 + b0 + (0.1 + b1) * (t / 4 - 70) + rng.gauss(0, 0.25)
            obs.append((t / 4, NAN if rng.random() < 0.1 else round(y * 64) / 64))
        if all(isnan(v) for _, v in obs):
            obs[0] = (obs[0][0], 2.0)
        rows[f"s{i:02d}"] = obs
    return rows


def lme_fitted(run: Run, n_cohorts: int, cases_p, meta_p, cases_t, meta_t, cases_b, meta_b):
    """real fits (statsmodels): personalisation of the training individuals against statsmodels' random effects (runtime oracle),
    against the Coq model given the fitted parameters, recorded calls of _generic_get_random_effects against blup2"""
    import numpy as np
    import pandas as pd
    import statsmodels.regression.mixed_linear_model as mlm
    from leaspy.algo.personalize import LMEPersonalizeAlgorithm
    from leaspy.io.data import Data
    from leaspy.models import LMEModel

    g = run.rng("lme-fitted")
    captured = {}
    orig_fit = mlm.MixedLM.fit
    orig_gen = LMEPersonalizeAlgorithm._generic_get_random_effects
    calls = []

    def fit(self, *a, **k):
        r = orig_fit(self, *a, **k)
        captured["fitted"] = r
        return r

    def gen(resid, Z, cov):
        out = orig_gen(resid, Z, cov)
        calls.append((np.array(resid, dtype=float), np.array(Z, dtype=float), np.array(cov, dtype=float), np.array(out, dtype=float)))
        return out

    mlm.MixedLM.fit = fit
    LMEPersonalizeAlgorithm._generic_get_random_effects = staticmethod(gen)
    try:
        for c in range(n_cohorts):
            homogeneous = c >= n_cohorts - max(3, n_cohorts // 2)       # the last half (at least 3) of the cohorts
            cohort = gen_cohort(g, g.randint(8, 16) if not homogeneous else g.randint(20, 30), homogeneous=homogeneous)
            run.count("lme.fit.cohort", "homogeneous (variance components on the boundary)" if homogeneous else "heterogeneous")
            flat = [(i, t, v) for i, obs in cohort.items() for t, v in obs]
            g.shuffle(flat)
            df = pd.DataFrame(flat, columns=["ID", "TIME", "Y"])
            for slope in (False, True):
                m0 = dict(case="lme-fit", cohort_index=c, with_random_slope_age=slope, cohort={i: [[t, None if isnan(v) else v] for t, v in o] for i, o in cohort.items()})
                try:
                    with warnings.catch_warnings():
                        warnings.simplefilter("ignore")
                        data = Data.from_dataframe(df)
                        model = LMEModel("lme", with_random_slope_age=slope)
                        captured.clear()
                        model.fit(data, "lme_fit")
                        del calls[:]
                        ip = model.personalize(data, "lme_personalize")
                except Exception as e:  # statsmodels' optimiser is outside the property (singular covariance, no convergence)
                    run.count("lme.fit.outcome", f"{type(e).__name__}")
                    if type(e).__name__ == "LeaspyDataInputError" and captured.get("fitted") is not None:
                        fit_store_case(run, captured["fitted"], slope, None, m0)
                    continue
                run.count("lme.fit.outcome", "ok")
                fitted = captured.get("fitted")
                P = model.parameters
                if fitted is not None:
                    fit_store_case(run, fitted, slope, np.atleast_2d(np.array(P["cov_re_unscaled_inv"], dtype=float)), m0)
                cov_inv = np.array(P["cov_re_unscaled_inv"], dtype=float)
                # (0) the conditional means GIVEN THE FITTED VARIANCE COMPONENTS, in covariance form (valid for a singular covariance too):
                #     b_i = D Z_i' (Z_i D Z_i' + I)^-1 r_i  with  D = cov_re / noise variance  — equal to (Z'Z + D^-1)^-1 Z' r when D is invertible
                try:
                    D = np.atleast_2d(np.array(P["cov_re"], dtype=float)) / float(P["noise_std"]) ** 2
                    fe = np.array(P["fe_params"], dtype=float).reshape(-1)
                    for i, obs in cohort.items():
                        tt = np.array([t for t, v in obs if not isnan(v)], dtype=float)
                        yy = np.array([v for t, v in obs if not isnan(v)], dtype=float)
                        tn = (tt - float(P["ages_mean"])) / float(P["ages_std"])
                        X = np.stack([np.ones_like(tn), tn], axis=1)
                        Z = X if slope else X[:, :1]
                        r = yy - X @ fe
                        S = Z @ D @ Z.T + np.eye(len(r))
                        if float(np.linalg.cond(S)) > 1e8:
                            run.count("lme.fit.conditional_mean_oracle", "ill-conditioned(skipped)")
                            continue
                        ref = (D @ Z.T @ np.linalg.solve(S, r)).reshape(-1)
                        mine = [float(ip._individual_parameters[i]["random_intercept"])] + ([float(ip._individual_parameters[i]["random_slope_age"])] if slope else [])
                        dev = max(abs(a - b) / (1 + abs(b)) for a, b in zip(mine, ref.tolist()))
                        run.count("lme.fit.conditional_mean_oracle", "compared")
                        if dev > 1e-5:
                            run.fail("lme:personalize:not-the-conditional-mean-given-the-fitted-components",
                                     "personalised random effects of a training individual are not the conditional means D Z'(Z D Z' + I)^-1 r given the "
                                     "fitted variance components (D = cov_re / noise variance)" + (" - D is singular: the conditional mean of an effect "
                                     "of zero variance is 0" if float(np.linalg.cond(D)) > 1e12 or not np.all(np.isfinite(np.linalg.cond(D))) else ""),
                                     dict(m0, id=i, cov_re=np.array(P["cov_re"]).tolist(), noise_std=float(P["noise_std"]),
                                          cov_re_unscaled_inv=cov_inv.tolist()), expected=ref.tolist(), observed=mine)
                            break
                except Exception as e:  # noqa
                    run.count("lme.fit.conditional_mean_oracle", f"oracle-raises:{type(e).__name__}")
                if not np.all(np.isfinite(cov_inv)) or float(np.abs(cov_inv).max()) > 1e8:
                    run.count("lme.fit.outcome", "degenerate-variance-components(skipped)")
                    continue
                full = cov_inv if slope else np.array([[cov_inv[0, 0], 0.0], [0.0, 1.0]])
                p = dict(ages_mean=float(P["ages_mean"]), ages_std=float(P["ages_std"]), fe=[float(x) for x in P["fe_params"]],
                         cov_inv=[[float(x) for x in row] for row in full])
                # (1) what the fit stored: normalisation = mean / population std of the ages of the observed values,
                #     cov_re_unscaled_inv = inverse of cov_re / noise variance
                ts = [t for o in cohort.values() for t, v in o if not isnan(v)]
                mu = sum(ts) / len(ts)
                sd = math.sqrt(sum((t - mu) ** 2 for t in ts) / len(ts))
                # (informational: the normalisation is a gauge; what matters - personalisation and trajectory use the stored one, and
                #  the result agrees with statsmodels - is checked below)
                run.count("lme.fit.normalisation", "mean/population-std of observed ages" if abs(p["ages_mean"] - mu) < 1e-4 and abs(p["ages_std"] - sd) < 1e-4 else "other")
                unscaled = np.array(P["cov_re"], dtype=float) / float(P["noise_std"]) ** 2
                if float(np.linalg.cond(unscaled)) < 1e6 and float(np.abs(cov_inv @ unscaled - np.eye(len(cov_inv))).max()) > 1e-6:
                    run.fail("lme:fit:cov-re-unscaled-inv", "cov_re_unscaled_inv is not the inverse of cov_re / noise_std^2", m0,
                             observed=dict(cov_re=np.array(P["cov_re"]).tolist(), noise_std=float(P["noise_std"]), cov_re_unscaled_inv=cov_inv.tolist()))
                # (2) runtime oracle: statsmodels' own conditional means on the training individuals
                sm_re = None
                if fitted is not None:
                    try:
                        sm_re = fitted.random_effects
                    except Exception as e:  # noqa: statsmodels itself cannot predict (singular covariance)
                        run.count("lme.fit.statsmodels_oracle", f"random_effects-raises:{type(e).__name__}")
                if sm_re is not None:
                    worst = 0.0
                    for i in cohort:
                        mine = [float(ip._individual_parameters[i]["random_intercept"])]
                        if slope:
                            mine.append(float(ip._individual_parameters[i]["random_slope_age"]))
                        ref = [float(x) for x in np.asarray(sm_re[i]).reshape(-1)]
                        dev = max(abs(a - b) / (1 + abs(b)) for a, b in zip(mine, ref))
                        worst = max(worst, dev)
                        if len(mine) != len(ref) or dev > 1e-6:
                            run.fail("lme:personalize:differs-from-statsmodels",
                                     "personalised random effects of a training individual differ from statsmodels fitted.random_effects",
                                     dict(m0, id=i), expected=ref, observed=mine)
                            break
                    run.extra["max_rel_deviation_from_statsmodels"] = max(run.extra.get("max_rel_deviation_from_statsmodels", 0.0), worst)
                    run.count("lme.fit.statsmodels_oracle", "compared")
                # (3) recorded calls of the generic formula against the Coq model
                for resid, Z, cov, out in calls:
                    M = Z.T @ Z + cov
                    cond = float(np.linalg.cond(M))
                    if not math.isfinite(cond) or cond > 1e6:
                        run.count("lme.blup.skipped", "ill-conditioned(fitted)")
                        continue
                    o = [float(x) for x in out.reshape(-1)]
                    cases_b.append(f"({coq_list([f'({q(z[0])}, {q(z[1])})' for z in Z])}, {coq_list([q(x) for x in resid])}, "
                                   f"{cmat(cov.tolist())}, {cres(None, f'({q(o[0])}, {q(o[1])})')}, {q(Fraction(1, 10 ** 9))})")
                    meta_b.append((dict(case="lme-blup", Z=Z.tolist(), r=resid.tolist(), P=cov.tolist()), o))
                    run.case(("lme-blup-rec", Z.tobytes(), resid.tobytes(), cov.tobytes()), nontrivial=len(resid) >= 2)
                # (4) the whole personalisation + trajectory against the Coq model, training individuals and new ones
                hist = list(cohort.values())[:6] + [gen_obs(g, g.choice([1, 2, 4])) for _ in range(2)]
                lme_cases(run, p, slope, hist, f"fitted#{c}", cases_p, meta_p, cases_t, meta_t, g)
                # (5) API level: estimate() of a training individual is the line through the personalised effects
                i = sorted(cohort)[0]
                ages = [60.0, 70.0, 80.0, 95.5]
                try:
                    est = [float(x) for x in np.asarray(model.estimate({i: ages}, ip)[i]).reshape(-1)]
                except Exception as e:  # noqa
                    run.fail("lme:estimate:raises", f"estimate raised {type(e).__name__}: {e}", dict(m0, id=i, ages=ages))
                    continue
                re0 = float(ip._individual_parameters[i]["random_intercept"])
                re1 = float(ip._individual_parameters[i]["random_slope_age"]) if slope else 0.0
                sl = (p["fe"][1] + re1) / p["ages_std"]
                ic = p["fe"][0] + re0 - p["ages_mean"] * sl
                if any(abs(v - (ic + sl * a)) > 2e-6 * (1 + abs(ic) + abs(sl * a)) for a, v in zip(ages, est)):
                    run.fail("lme:trajectory", "estimate() is not intercept + slope*age", dict(m0, id=i, ages=ages),
                             expected=[ic + sl * a for a in ages], observed=est)
                cases_t.append(f"({cparams(p)}, ({q(re0)}, {q(re1)}), {coq_list([q(a) for a in ages])}, "
                               f"{cres(None, coq_list([q(v) for v in est]))}, {q(Fraction(1, 10 ** 6))})")
                meta_t.append((dict(case="lme-traj", source=f"estimate#{c}", with_random_slope_age=slope, params=show_params(p), re=[re0, re1], ages=ages), est))
                run.case(("lme-estimate", c, slope), nontrivial=True)
    finally:
        mlm.MixedLM.fit = orig_fit
        LMEPersonalizeAlgorithm._generic_get_random_effects = staticmethod(orig_gen)


FIT_CASES = {1: ([], []), 2: ([], [])}      # k -> (Coq cases, meta) of the storing step of LMEFitAlgorithm._run


def fit_store_case(run: Run, fitted, slope, stored_inv, m0):
    """what statsmodels returned (fe_params, cov_re, scale, its own cov_re_unscaled) and what the code stored (the inverse, or None when it
    refused with LeaspyDataInputError) -> one case for check_fit_store_{1,2} (the model of the storing step, tied to the source by T1)"""
    import numpy as np
    try:
        cov = np.atleast_2d(np.asarray(fitted.cov_re, dtype=float))
        uns = np.atleast_2d(np.asarray(fitted.cov_re_unscaled, dtype=float))
        fe = [float(x) for x in np.asarray(fitted.fe_params, dtype=float).reshape(-1)]
        scale = float(fitted.scale)
    except Exception as e:  # noqa
        run.count("lme.fit.store", f"statsmodels-result-unreadable:{type(e).__name__}")
        return
    k = 2 if slope else 1
    if cov.shape != (k, k) or uns.shape != (k, k) or len(fe) != 2 or not finite(scale, *fe, *cov.reshape(-1), *uns.reshape(-1)) or scale == 0.0:
        run.count("lme.fit.store", "degenerate-statsmodels-result(skipped)")
        return
    fu = [[frac(cov[i][j]) / frac(scale) for j in range(k)] for i in range(k)]
    det = fu[0][0] if k == 1 else fu[0][0] * fu[1][1] - fu[0][1] * fu[1][0]
    if stored_inv is None:
        if det != 0:       # numpy's LU found a zero pivot in floating point although the exact determinant is not 0: not comparable
            run.count("lme.fit.store", "refused-in-floating-point-only(skipped)")
            return
        obs = "None"
    else:
        if not finite(*stored_inv.reshape(-1)):
            obs = None
        elif det != 0 and float(np.linalg.cond(uns)) > 1e6:
            run.count("lme.fit.store", "ill-conditioned(skipped)")
            return
        else:
            obs = f"(Some {cmat(stored_inv.tolist())})" if k == 2 else f"(Some {q(stored_inv[0][0])})"
    m = dict(m0, case="lme-fit", statsmodels=dict(fe_params=fe, cov_re=cov.tolist(), scale=scale, cov_re_unscaled=uns.tolist()),
             stored_cov_re_unscaled_inv=None if stored_inv is None else stored_inv.tolist())
    run.count("lme.fit.store", ("refused" if stored_inv is None else "accepted") + ("-exactly-singular" if det == 0 else "-regular"))
    run.case(("lme-fit-store", k, tuple(cov.reshape(-1)), scale), nontrivial=True)
    if obs is None:
        run.fail("lme:fit:cov-re-unscaled-inv", "the fit stores a non-finite cov_re_unscaled_inv", m, observed=m["stored_cov_re_unscaled_inv"])
        return
    mat = (lambda a: cmat(a.tolist())) if k == 2 else (lambda a: q(a[0][0]))
    cases, meta = FIT_CASES[k]
    cases.append(f"(SmResult ({q(fe[0])}, {q(fe[1])}) {mat(cov)} {q(scale)}, {mat(uns)}, {obs}, {q(Fraction(1, 10 ** 6))})")
    meta.append(m)


def fit_store_check(run: Run):
    hdr = HDR.replace("Api.BenchTie.", "Api.BenchTie Api.BenchFit.")
    for k, ty in ((2, "sm_result mat2 * mat2 * option mat2 * Q"), (1, "sm_result Q * Q * option Q * Q")):
        cases, meta = FIT_CASES[k]
        bad = run.vm_bad_indices(f"lme_fit_store_{k}", hdr, ty, cases, f"check_fit_store_{k}") if cases else []
        for i in bad or []:
            m = meta[i]
            refused = m["stored_cov_re_unscaled_inv"] is None
            run.fail("lme:fit:singular-covariance-accepted" if not refused else "lme:fit:cov-re-unscaled-inv",
                     "what LMEFitAlgorithm._run stored differs from the model of the storing step (Bench.lme_fit_store: inv(cov_re / scale), a singular "
                     "covariance refused with LeaspyDataInputError)" + ("" if refused else
                     " - here the fit was ACCEPTED; if cov_re is singular the stored matrix is not an inverse and personalisation does not return the conditional means"),
                     m, expected="LeaspyDataInputError (singular) or the inverse of cov_re / scale", observed=m["stored_cov_re_unscaled_inv"])
        run.extra[f"lme_fit_store_cases_{k}"] = len(cases)
        del cases[:], meta[:]


def benchmark_object_reuse(run: Run, thorough: bool):
    """The benchmark personalisations given ONE Dataset object several times (with and without random slope, constant model in
    between): every call must return what the first one returned — the conditional means / the configured constant — and the
    caller's Dataset (ages, values, mask) must be bit-identical afterwards (nothing normalised or sorted in place)."""
    import pandas as pd
    import torch
    from leaspy.io.data import Data, Dataset
    from leaspy.models import ConstantModel, LMEModel
    g = run.rng("benchmark-reuse")
    for c in range(8 if thorough else 4):
        cohort = gen_cohort(g, g.randint(8, 14))
        flat = [(i, t, v) for i, obs in cohort.items() for t, v in obs]
        df = pd.DataFrame(flat, columns=["ID", "TIME", "Y"])
        desc = dict(case="dataset-reuse", cohort_index=c, cohort={i: [[t, None if isnan(v) else v] for t, v in o] for i, o in cohort.items()})
        try:
            with warnings.catch_warnings():
                warnings.simplefilter("ignore")
                data = Data.from_dataframe(df)
                models = {}
                for slope in (True, False):
                    m = LMEModel("lme", with_random_slope_age=slope)
                    m.fit(data, "lme_fit")
                    models[slope] = m
                ds = Dataset(data)
        except Exception as e:  # statsmodels' optimiser is outside the property
            run.count("reuse.outcome", f"fit:{type(e).__name__}")
            continue
        snap = {k: getattr(ds, k).clone() for k in ("timepoints", "values", "mask")}

        def pers(model, obj, algo="lme_personalize", **kw):
            with warnings.catch_warnings():
                warnings.simplefilter("ignore")
                ip = model.personalize(obj, algo, **kw)
            # (not to_dataframe(): it refuses scalar-valued parameters, a listed finding of C16)
            rows = {}
            for i in ip._indices:
                vals = []
                for name in sorted(ip._individual_parameters[i]):
                    v = ip._individual_parameters[i][name]
                    vals += [float(x) for x in (v if isinstance(v, (list, tuple)) else [v])]
                rows[str(i)] = vals
            return pd.DataFrame.from_dict(rows, orient="index").sort_index()
        try:
            ref = {sl: pers(models[sl], data) for sl in (True, False)}            # a fresh Dataset is built from Data at each call
            seq = [(True, "first"), (False, "second, other model"), (True, "third")]
            for sl, label in seq:
                got = pers(models[sl], ds)
                run.case(("dataset-reuse", c, sl, label), nontrivial=True)
                run.count("reuse.outcome", "compared")
                if not (list(got.index) == list(ref[sl].index) and list(got.columns) == list(ref[sl].columns)
                        and float((got - ref[sl]).abs().max().max()) <= 1e-9):
                    run.fail("lme:personalize:depends-on-earlier-use-of-the-dataset-object",
                             f"lme_personalize on a Dataset object already used by an earlier personalisation ({label} call) does not return the "
                             "conditional means it returns on fresh data", dict(desc, with_random_slope_age=sl, call=label),
                             expected=ref[sl].iloc[0].tolist(), observed=got.iloc[0].tolist())
                    break
            cm = ConstantModel("constant")
            pers(cm, ds, "constant_prediction", prediction_type="last")
            pers(cm, ds, "constant_prediction", prediction_type="mean")
        except Exception as e:
            run.fail(f"benchmark:dataset-reuse:raises:{type(e).__name__}", f"{type(e).__name__}: {e}", desc)
            continue
        for k, v in snap.items():
            now = getattr(ds, k)
            if now.dtype != v.dtype or now.shape != v.shape or not torch.equal(now, v):
                run.fail(f"benchmark:caller-dataset-modified:{k}", f"the Dataset passed to the benchmark personalisations has different `{k}` afterwards",
                         desc, expected=v.reshape(-1)[:6].tolist(), observed=now.reshape(-1)[:6].tolist())


def constant_model_reuse(run: Run, thorough: bool):
    """ONE ConstantModel object personalised on tables holding the same features in different column orders (and then estimated):
    every value must stay attached to the NAME of its feature."""
    import pandas as pd
    from leaspy.io.data import Data
    from leaspy.models import ConstantModel
    g = run.rng("constant-reuse")
    feats = ["MMSE", "ADAS", "CDR"]
    for c in range(6 if thorough else 3):
        rows = []
        for i in range(g.randint(2, 4)):
            for t in sorted(g.sample(range(240, 330), g.randint(1, 4))):
                rows.append(dict(ID=f"p{i}", TIME=t / 4, MMSE=float(g.randint(10, 30)), ADAS=100.0 + g.randint(0, 40), CDR=g.randint(0, 12) / 4 - 50.0))
        df = pd.DataFrame(rows)
        orders = [feats, [feats[2], feats[0], feats[1]], [feats[1], feats[2], feats[0]]]
        for kind in ("last", "mean", "max"):
            model = ConstantModel("constant")
            ref = None
            for k, order in enumerate(orders):
                desc = dict(case="constant-reuse", prediction_type=kind, column_orders=orders[:k + 1], rows=rows)
                run.case(("constant-reuse", c, kind, k), nontrivial=k > 0)
                try:
                    with warnings.catch_warnings():
                        warnings.simplefilter("ignore")
                        ip = model.personalize(Data.from_dataframe(df[["ID", "TIME"] + order]), "constant_prediction", prediction_type=kind)
                        est = model.estimate({i: [80.0] for i in ip._indices}, ip)
                except Exception as e:
                    run.fail(f"constant:reuse:raises:{type(e).__name__}", f"{type(e).__name__}: {e}", desc)
                    break
                got = {i: {f: float(ip._individual_parameters[i][f]) for f in feats} for i in ip._indices}
                cols = list(model.features)
                got_est = {i: {f: float(est[i][0][cols.index(f)]) for f in feats} for i in ip._indices}
                if ref is None:
                    ref = got
                if got != ref or got_est != ref:
                    bad = next(i for i in ref if got.get(i) != ref[i] or got_est.get(i) != ref[i])
                    run.fail("constant:value-attached-to-another-feature",
                             f"the same ConstantModel personalised on the same data with the columns in the order {order}: values are no longer "
                             f"those of the named features (individual {bad})", desc, expected=ref[bad], observed=dict(personalize=got.get(bad), estimate=got_est.get(bad)))
                    break


def lme_all(run: Run, thorough: bool):
    cases_p, meta_p, cases_t, meta_t, cases_b, meta_b = [], [], [], [], [], []
    lme_designed(run, 60 if thorough else 18, cases_p, meta_p, cases_t, meta_t)
    lme_fitted(run, 40 if thorough else 10, cases_p, meta_p, cases_t, meta_t, cases_b, meta_b)
    if meta_p:
        run.sample(dict(meta_p[1][0], observed=meta_p[1][1]))
    bad = run.vm_bad_indices("lme_pers", HDR, "bool * lme_params * hist * res (Q * Q) * Q", cases_p, "check_personalize", shard=150)
    for i in bad or []:
        m, out = meta_p[i]
        obs = [(t, NAN if v is None else v) for t, v in m["obs"]]
        run.fail("lme:personalize", "personalised random effects differ from the Coq model (Bench.lme_personalize: normalised ages, "
                 "fixed-effect residuals, (Z'Z + cov_re_unscaled_inv)^-1 Z'r)", m,
                 expected=ref_personalize(m["params"], m["with_random_slope_age"], obs), observed=out)
    bad = run.vm_bad_indices("lme_traj", HDR, "lme_params * (Q * Q) * list Q * res (list Q) * Q", cases_t, "check_traj", shard=150)
    for i in bad or []:
        m, y = meta_t[i]
        p = m["params"]
        sl = (p["fe"][1] + m["re"][1]) / p["ages_std"] if p["ages_std"] else NAN
        run.fail("lme:trajectory", "trajectory differs from the Coq model (Bench.lme_trajectory = X(fe + re) on normalised ages)", m,
                 expected=[p["fe"][0] + m["re"][0] + sl * (a - p["ages_mean"]) for a in m["ages"]], observed=y)
    bad = run.vm_bad_indices("lme_blup_rec", HDR, "list (Q * Q) * list Q * mat2 * res (Q * Q) * Q", cases_b, "check_blup2", shard=150)
    for i in bad or []:
        m, out = meta_b[i]
        run.fail("lme:blup", "recorded call of _generic_get_random_effects differs from the Coq model (Bench.blup2)", m, observed=out)
    fit_store_check(run)
    run.extra["lme_personalize_cases"] = len(cases_p)
    run.extra["lme_trajectory_cases"] = len(cases_t)
    run.extra["lme_recorded_blup_calls"] = len(cases_b)


# --------------------------------------------------------------------------- entry points

def check(run: Run):
    import contextlib
    import io
    from harness.common import use_impl
    use_impl()
    thorough = run.tier == "thorough"
    with contextlib.redirect_stdout(io.StringIO()):      # leaspy prints "Fit with ... took" on every call
        _check(run, thorough)


def _check(run: Run, thorough: bool):
    run.rule = ("constant: random visit histories (0-7 visits, 1-3 features, ages on a 1/8 lattice in random order, values k/16, NaN rate "
                "0-0.8, 20% of features entirely missing, 25% of the direct cases with tied ages) + directed ones, x 4 prediction types, "
                "through _get_feature_values (raw arrays) and through Data/personalize/estimate (float32, ingestion, drop_full_nan on/off); "
                "LME: random dyadic (Z, resid, cov_inv) for the generic formula, hand-loaded parameter sets (2/3 with a float32-exact "
                "normalisation) and real statsmodels fits of random cohorts x {random intercept, intercept+slope}, histories with NaN, a "
                "single visit, nothing observed. Non-trivial = at least two visits and (a NaN or unsorted input) for the constant model; "
                "at least two present observations or a NaN for LME personalisation; at least two distinct ages for trajectories.")
    const_direct(run, 1200 if thorough else 220)
    const_api(run, 300 if thorough else 45)
    lme_blup_direct(run, 1500 if thorough else 250)
    lme_all(run, thorough)
    try:
        benchmark_object_reuse(run, thorough)
        constant_model_reuse(run, thorough)
    except Exception as e:  # noqa
        import traceback
        run.broken("benchmark-object-reuse", f"{type(e).__name__}: {e}\n{traceback.format_exc()[-1200:]}", kind="broken-correspondence")


def main(run: Run):
    translate(run)
    ok_p = run.prove("C20", OBLIGATIONS)
    run.assumptions += [
        "ages are finite and (for 'last'/'last-known' to be determined) pairwise distinct once stored: ingestion rejects NaN ages and "
        "duplicated (ID, TIME) rows (C14); distinct ages that collide in float32 are the recorded finding",
        "float rounding is outside the theorems: values are compared exactly on dyadic inputs (last, last-known, max) and within "
        "1e-6 (mean, float32), 1e-9 (LME, float64, float32-exact normalisation), 1e-5 (LME, normalisation rounded in float32), 1e-6 (trajectories, float32)",
        "the variance components, fixed effects and noise variance are what statsmodels' optimiser returned (an input of the model of the "
        "storing step; the optimiser is not modelled); cov_re_unscaled = cov_re / scale is statsmodels' definition (checked on every recorded fit)",
        "numpy arrays are rectangular (wf) for the source-level tie of 'last-known'; the ages requested from the LME trajectory are not an empty list",
    ]
    run.trusted += [
        "model coq/theories/Api/Bench.v, Api/BenchFit.v: tied to the source by the translator (proved equal to the regenerated coq/gen/GenC20.v) and by "
        "executing it inside Coq on the implementation's inputs",
        "harness float -> exact rational conversion (float.as_integer_ratio) and Coq literal printing",
        "numpy / torch / pandas / statsmodels kernels",
    ]
    run.explanation = ("The five benchmark functions are regenerated from the python source (fail-closed symbolic execution into compositions of numpy "
                       "primitive meanings) and proved equal to the model. "
                       "Theorems (Coq, for every table of visits / every design matrix and residual vector over Q) about executable definitions that "
                       "mirror the code line by line (stable sort by age, argmax of the not-NaN mask, nanmax, nanmean, 2x2 inverse); the same "
                       "definitions are evaluated by vm_compute on the inputs given to the implementation (exact rationals of the floats) and "
                       "compared with its outputs; order-free python recomputation, statsmodels' random effects and the straight-line shape "
                       "are implementation-side oracles that also provide the replay when the tie breaks.")
    try:
        check(run)
    except Exception as e:  # noqa
        import traceback
        traceback.print_exc()
        run.broken("search", f"{type(e).__name__}: {e}")
    return run.finish()


def replay(run: Run, path: str):
    """Re-run one recorded input on the current tree (implementation + Coq model) and say whether it still fails."""
    from harness.common import use_impl
    use_impl()
    import numpy as np
    d = json.load(open(path))
    inp = d.get("input") or {}
    kind = inp.get("case") if isinstance(inp, dict) else None
    if kind is None:
        print("replay: this file records a broken obligation; re-running the whole check:", [b["name"] for b in d.get("broken", [])])
        return main(run)
    bad = 0
    if kind in ("const-direct", "const-api"):
        rows = [(t, [NAN if v is None else v for v in vals]) for t, vals in inp["rows"]]
        k, dd = inp["kind"], inp["d"]
        if kind == "const-direct":
            from leaspy.algo import AlgorithmSettings
            from leaspy.algo.personalize import ConstantPredictionAlgorithm
            algo = ConstantPredictionAlgorithm(AlgorithmSettings("constant_prediction", prediction_type=k))
            with warnings.catch_warnings():
                warnings.simplefilter("ignore")
                obs = [float(x) for x in algo._get_feature_values(np.array([t for t, _ in rows], dtype=float),
                                                                  np.array([v for _, v in rows], dtype=float).reshape(len(rows), dd))]
        else:
            import pandas as pd
            from leaspy.io.data import Data
            from leaspy.models import ConstantModel
            feats = [f"F{j}" for j in range(dd)]
            df = pd.DataFrame([[inp["id"], t] + list(v) for t, v in rows], columns=["ID", "TIME"] + feats)
            with warnings.catch_warnings():
                warnings.simplefilter("ignore")
                model = ConstantModel("constant")
                ip = model.personalize(Data.from_dataframe(df, drop_full_nan=inp.get("drop_full_nan", True)), "constant_prediction", prediction_type=k)
            obs = [float(ip._individual_parameters[inp["id"]][f]) for f in feats]
            rows = [r for r in rows if not (inp.get("drop_full_nan", True) and all(isnan(v) for v in r[1]))]
        ref = ref_predict(k, dd, rows)
        tol = Fraction(1, 10 ** 6) if k == "mean" else Fraction(0)
        print(f"prediction_type={k} rows={inp['rows']}\n implementation -> {obs}\n documented estimator -> {show(ref)}")
        bad += not all(agrees(r, o, tol) for r, o in zip(ref, obs))
        case = f"({KINDS[k]}, {dd}%nat, {ctable(rows)}, {cres(None, coq_list([cvalue(v) for v in obs]))}, {q(tol)})"
        b = run.vm_bad_indices("replay", HDR, "kind * nat * table * res (list value) * Q", [case], "check_predict")
        print(" Coq model agrees with the implementation:", b == [])
        bad += b != []
    elif kind == "lme-blup":
        from leaspy.algo.personalize import LMEPersonalizeAlgorithm
        Z, r, P = np.array(inp["Z"]), np.array(inp["r"]), np.array(inp["P"])
        out = [float(x) for x in np.asarray(LMEPersonalizeAlgorithm._generic_get_random_effects(r, Z, P)).reshape(-1)]
        print(f"_generic_get_random_effects -> {out}\n solve(Z'Z + P, Z'r)        -> {np.linalg.solve(Z.T @ Z + P, Z.T @ r).tolist()}")
        case = (f"({coq_list([f'({q(z[0])}, {q(z[1])})' for z in Z.tolist()])}, {coq_list([q(x) for x in r.tolist()])}, {cmat(P.tolist())}, "
                f"{cres(None, f'({q(out[0])}, {q(out[1])})')}, {q(Fraction(1, 10 ** 9))})")
        b = run.vm_bad_indices("replay", HDR, "list (Q * Q) * list Q * mat2 * res (Q * Q) * Q", [case], "check_blup2")
        print(" Coq model agrees with the implementation:", b == [])
        bad += b != []
    elif kind == "lme-personalize":
        p, slope = inp["params"], inp["with_random_slope_age"]
        obs = [(t, NAN if v is None else v) for t, v in inp["obs"]]
        out = personalize_one(make_lme(p, slope), slope, obs)
        print(f"implementation -> {out}\n conditional mean (float64 recomputation) -> {ref_personalize(p, slope, obs)}")
        tol = Fraction(1, 10 ** 9) if exact_in_float32(p, [t for t, v in obs if not isnan(v)]) else Fraction(1, 10 ** 5)
        case = f"({coq_bool(slope)}, {cparams(p)}, {chist(obs)}, {cres(None, f'({q(out[0])}, {q(out[1])})') if finite(*out) else cres('Singular')}, {q(tol)})"
        b = run.vm_bad_indices("replay", HDR, "bool * lme_params * hist * res (Q * Q) * Q", [case], "check_personalize")
        print(" Coq model agrees with the implementation:", b == [])
        bad += b != []
    elif kind == "lme-traj":
        p, slope, re_, ages = inp["params"], inp["with_random_slope_age"], inp["re"], inp["ages"]
        ip = {"random_intercept": np.array(re_[0])}
        if slope:
            ip["random_slope_age"] = np.array(re_[1])
        y = [float(v) for v in make_lme(p, slope).compute_individual_trajectory(ages, ip).reshape(-1)]
        sl = (p["fe"][1] + (re_[1] if slope else 0.0)) / p["ages_std"]
        print(f"implementation -> {y}\n line -> {[p['fe'][0] + re_[0] + sl * (a - p['ages_mean']) for a in ages]}")
        case = (f"({cparams(p)}, ({q(re_[0])}, {q(re_[1] if slope else 0)}), {coq_list([q(a) for a in ages])}, "
                f"{cres(None, coq_list([q(v) for v in y]))}, {q(Fraction(1, 10 ** 6))})")
        b = run.vm_bad_indices("replay", HDR, "lme_params * (Q * Q) * list Q * res (list Q) * Q", [case], "check_traj")
        print(" Coq model agrees with the implementation:", b == [])
        bad += b != []
    elif kind == "lme-fit":
        import pandas as pd
        import statsmodels.regression.mixed_linear_model as mlm
        from leaspy.io.data import Data
        from leaspy.models import LMEModel
        slope = inp["with_random_slope_age"]
        df = pd.DataFrame([(i, t, NAN if v is None else v) for i, o in inp["cohort"].items() for t, v in o], columns=["ID", "TIME", "Y"])
        cap = {}
        orig = mlm.MixedLM.fit
        mlm.MixedLM.fit = lambda self, *a, **k: cap.setdefault("f", orig(self, *a, **k))
        try:
            with warnings.catch_warnings():
                warnings.simplefilter("ignore")
                data = Data.from_dataframe(df)
                model = LMEModel("lme", with_random_slope_age=slope)
                model.fit(data, "lme_fit")
                ip = model.personalize(data, "lme_personalize")
        finally:
            mlm.MixedLM.fit = orig
        worst = 0.0
        for i in inp["cohort"]:
            mine = [float(ip._individual_parameters[i]["random_intercept"])] + ([float(ip._individual_parameters[i]["random_slope_age"])] if slope else [])
            ref = [float(x) for x in np.asarray(cap["f"].random_effects[i]).reshape(-1)]
            worst = max(worst, max(abs(a - b) / (1 + abs(b)) for a, b in zip(mine, ref)))
        print(f"parameters: {({k: np.asarray(v).tolist() for k, v in model.parameters.items()})}\n"
              f"max relative deviation from statsmodels fitted.random_effects: {worst:.3g}")
        bad += worst > 1e-6
    else:
        print("replay: unknown case kind", kind)
        return 2
    print("REPLAY", "FAILS" if bad else "passes")
    return 1 if bad else 0
