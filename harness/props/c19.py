"""C19 — temperature and proposal-scale schedules stay within their documented envelopes."""
from __future__ import annotations

import ast
import json
import math
from fractions import Fraction

from harness.common import Run, SRC, coq_Q, coq_Z, coq_bool, coq_list, frac
from harness.translate import pysym
from harness.translate.pysym import Emit, Spec, Untranslatable, const, definition

META = dict(
    technique="Coq theorems (induction over the iteration count / over any acceptance history) on exact models of the plateau "
              "annealing scheme and of the adaptive proposal scale; the decision rules are regenerated from the Python AST on every "
              "run and proved equal to the model; a bit-exact PrimFloat twin and the exact model are executed inside Coq "
              "(vm_compute) against the real mixin / the real samplers",
    level_text="Unbounded theorems over Q: every configuration accepted by _initialize_annealing runs to completion for any number "
               "of iterations (C19_total, full statement: since leaspy 0ec38a3 a plateau length < 1 is refused, C19_short_refused / "
               "C19_period_positive), and accepted configurations are characterised exactly (off | proper | single plateau).  For every "
               "proper configuration (= every accepted one with annealing on and n_plateau >= 2) the temperature starts at T0, never "
               "increases, stays >= 1, changes only at plateau boundaries (closed form), equals 1 once the annealing iterations are "
               "over; off => always 1.  A single plateau (n_plateau = 1) is accepted and keeps T0 for ever, even T0 < 1 (refuted "
               "clauses, known findings).  Adaptive "
               "scale, for every acceptance history, window length >= 1, band and factor accepted by the constructor: scales stay "
               "positive (explicit envelope), change only when the step counter is a multiple of the window length, by exactly 1-f / "
               "1+f / 1 per block according to the block's acceptance rate over exactly the last L steps.",
    level_note="Trusted: Coq kernel; python-ast translator (pysym + c19.py); PrimFloat/Uint63 primitives for the bit-exact twin (evaluation "
               "only); torch element-wise float32 arithmetic (compared with tolerance 1e-6).  Float rounding is outside the theorems: "
               "'exactly 1' holds over Q and fails by ulps in binary64 (finding); float32 under/overflow of the scale after ~800 "
               "one-sided adaptations is a stated limit.",
    design_ref="DESIGN.md section 4 C19",
)

OBLIGATIONS_ANNEAL = [
    "C19_runs", "C19_start", "C19_nonincreasing", "C19_ge_one", "C19_changes_only_at_boundaries", "C19_step_at_boundaries",
    "C19_closed_form", "C19_one_after_annealing", "C19_inverse", "C19_off", "C19_n_ann",
    "C19_total", "C19_period_positive", "C19_short_refused", "C19_defaults_short_refused", "C19_accepted_iff", "C19_accepted_cases",
    "C19_accepted_proper", "C19_frozen", "C19_one_after_annealing_refuted", "C19_ge_one_refuted",
    "C19_tie_n_ann", "C19_tie_ctor", "C19_tie_init", "C19_tie_update", "C19_tie_defaults",
    "C19_run_length_irrelevant",
]
OBLIGATIONS_STD = [
    "C19_std_positive", "C19_std_envelope", "C19_std_changes_only_at_multiples_of_L", "C19_std_factor", "C19_std_factor_iff",
    "C19_std_guards", "C19_std_runs", "C19_tie_update_std", "C19_tie_adapt", "C19_tie_sampler_guards", "C19_tie_sampler_init",
]
# where the annealing configuration comes from: the settings object (Api/Settings.v, tied by the C13 check)
OBLIGATIONS_SETTINGS = ["C19_settings_explicit_annealing_count"]
OBLIGATIONS = OBLIGATIONS_ANNEAL + OBLIGATIONS_STD + OBLIGATIONS_SETTINGS

HEADER = """(* REGENERATED on every run from $VERIF_REPO/src/leaspy by harness/props/c19.py — do not edit *)
From Coq Require Import ZArith QArith Qround Bool List.
From Leaspy Require Import Base.QAux.
Import ListNotations.
"""

ANNEAL_TYPES = {
    "n_iter": "Z", "annealing_do_annealing": "bool", "annealing_on": "bool", "annealing_n_iter": "Z", "annealing_n_iter_frac": "Q",
    "annealing_initial_temperature": "Q", "annealing_n_plateau": "Z", "current_iteration": "Z",
    "temperature": "Q", "temperature_inv": "Q", "_annealing_period": "Z", "_annealing_temperature_decrement": "Q",
}
CFG_PARAMS = [("annealing_on", "bool"), ("annealing_initial_temperature", "Q"), ("annealing_n_plateau", "Z"), ("annealing_n_iter", "Z")]
UPD_PARAMS = [("annealing_on", "bool"), ("current_iteration", "Z"), ("annealing_n_iter", "Z"), ("_annealing_period", "Z"),
              ("temperature", "Q"), ("temperature_inv", "Q"), ("_annealing_temperature_decrement", "Q")]
ZERO = const(Fraction(0))


def or_all(es):
    out = const(False)
    for e in es:
        out = e if out == const(False) else ("or", out, e)
    return out


def crash_cond(tree):
    """Condition under which a ZeroDivisionError is raised: some evaluated divisor of the path is zero."""
    def f(leaf):
        ds = []
        for name, kw, _ in leaf.effects:
            if name == "div" and kw["divisor"] not in ds:
                ds.append(kw["divisor"])
        return or_all([("cmp", "==", d, ZERO) for d in ds])
    return pysym.tree_map(tree, f)


def emit_option(e, em: Emit) -> str:
    if e[0] == "ite":
        return f"(if {em.boolean(e[1])} then {emit_option(e[2], em)} else {emit_option(e[3], em)})"
    if e == const(None):
        return "None"
    return f"(Some {em.num(e)})"


def same_on_all_leaves(tree, attr):
    vals = []

    def f(leaf):
        v = leaf.state.get(attr, "<unset>")
        if v not in vals:
            vals.append(v)
        return const(False)
    pysym.tree_map(tree, f)
    if len(vals) != 1 or vals[0] == "<unset>":
        raise Untranslatable(f"constructor does not set `{attr}` identically on every path: {vals!r}")
    return vals[0]


def translate_anneal(out: list):
    M = pysym.load_methods(SRC / "algo" / "algo_with_annealing.py", "AlgorithmWithAnnealingMixin")
    T = ANNEAL_TYPES
    noop = ("warnings.warn", "super().__init__")

    # ---- constructor: attributes set before anything else, and the resolution of annealing.n_iter
    def ctor(fixed):
        ex = pysym.Exec(Spec(types=T, methods=M, noop_calls=noop, fixed=fixed, track_div=True))
        return ex.run(M["__init__"].body, {"settings": ("opaque", "settings")}, {})
    t = ctor({"annealing_n_iter": None})
    state0 = {a: same_on_all_leaves(t, a) for a in ("temperature", "temperature_inv", "_annealing_period", "_annealing_temperature_decrement")}
    on_expr = same_on_all_leaves(t, "annealing_on")
    if on_expr != ("var", "annealing_do_annealing"):
        raise Untranslatable(f"annealing_on is {on_expr!r}, not the `do_annealing` setting")
    if state0["_annealing_period"] != const(None) or state0["_annealing_temperature_decrement"] != const(None):
        raise Untranslatable("constructor does not leave period / decrement at None")
    emq = Emit(T, "Q")
    out.append(definition("gen_ctor_temperature", [], "Q", emq.num(state0["temperature"])))
    out.append(definition("gen_ctor_temperature_inv", [], "Q", emq.num(state0["temperature_inv"])))
    if pysym.raises(t) != const(False) or crash_cond(t) != const(False):
        raise Untranslatable("constructor may fail with a fraction and no explicit count")
    n_ann = pysym.final(t, "annealing_n_iter", const(None))
    # when annealing is off the setting is left alone (None); when on it is int(frac * n_iter)
    if not (n_ann[0] == "ite" and n_ann[1] == ("not", ("var", "annealing_do_annealing")) and n_ann[2] == const(None)):
        raise Untranslatable(f"unexpected resolution of annealing.n_iter: {n_ann!r}")
    out.append(definition("gen_n_ann_from_frac", [("annealing_n_iter_frac", "Q"), ("n_iter", "Z")], "Z", Emit(T, "Z").num(n_ann[3])))
    for fx in ({}, {"annealing_n_iter_frac": None}):
        t = ctor(fx)
        if (pysym.raises(t) != const(False) or crash_cond(t) != const(False)
                or pysym.final(t, "annealing_n_iter", ("var", "annealing_n_iter")) != ("var", "annealing_n_iter")):
            raise Untranslatable("an explicit annealing.n_iter is not kept as given")
    out.append(definition("gen_n_ann_explicit", [("annealing_n_iter", "Z")], "Z", "annealing_n_iter"))
    t = ctor({"annealing_n_iter": None, "annealing_n_iter_frac": None})
    r = pysym.raises(t)
    if not (r == ("ite", ("not", ("var", "annealing_do_annealing")), const(False), const(True))):
        raise Untranslatable("constructor does not refuse (None, None) exactly when annealing is on")

    # ---- _initialize_annealing, from the constructor's state
    isint = "isinstance(self.algo_parameters['annealing']['n_plateau'], int)"
    ex = pysym.Exec(Spec(types=T, methods=M, noop_calls=noop, assume_true=(isint,), track_div=True))
    t = ex.run(M["_initialize_annealing"].body, {}, dict(state0))
    emb = Emit(T, "Q")
    out.append(definition("gen_init_crashes", CFG_PARAMS, "bool", emb.boolean(crash_cond(t))))
    out.append(definition("gen_init_refuses", CFG_PARAMS, "bool", emb.boolean(pysym.raises(t))))
    out.append(definition("gen_init_temp", CFG_PARAMS, "Q", emq.num(pysym.final(t, "temperature", None))))
    out.append(definition("gen_init_inv", CFG_PARAMS, "Q", emq.num(pysym.final(t, "temperature_inv", None))))
    out.append(definition("gen_init_period", CFG_PARAMS, "option Z", emit_option(pysym.final(t, "_annealing_period", None), Emit(T, "Z"))))
    out.append(definition("gen_init_decr", CFG_PARAMS, "option Q",
                          emit_option(pysym.final(t, "_annealing_temperature_decrement", None), emq)))

    # ---- _update_temperature, default scheme (oscillations off)
    def upd(fixed):
        ex = pysym.Exec(Spec(types=T, methods=M, noop_calls=noop, fixed=dict({"annealing_oscillations": False}, **fixed), track_div=True))
        return ex.run(M["_update_temperature"].body, {}, {})
    # before initialisation (period None) the update must be a no-op
    t = upd({"_annealing_period": None})
    noop_ok = []
    pysym.tree_map(t, lambda leaf: noop_ok.append(leaf.kind != "raise" and not leaf.state and not leaf.effects) or const(False))
    if not all(noop_ok):
        raise Untranslatable("_update_temperature does something while _annealing_period is None")
    t = upd({})
    if pysym.raises(t) != const(False):
        raise Untranslatable("_update_temperature may raise")
    for attr in ("_annealing_period", "_annealing_temperature_decrement", "annealing_n_iter", "annealing_on"):
        if pysym.final(t, attr, ("var", attr)) != ("var", attr):
            raise Untranslatable(f"_update_temperature writes `{attr}`")
    out.append(definition("gen_update_crashes", UPD_PARAMS, "bool", emb.boolean(crash_cond(t))))
    out.append(definition("gen_update_temp", UPD_PARAMS, "Q", emq.num(pysym.final(t, "temperature", ("var", "temperature")))))
    out.append(definition("gen_update_inv", UPD_PARAMS, "Q", emq.num(pysym.final(t, "temperature_inv", ("var", "temperature_inv")))))

    # ---- call sites: initialisation once before the loop, update once per iteration after the samplers
    saem = pysym.load_methods(SRC / "algo" / "fit" / "mcmc_saem.py", "TensorMcmcSaemAlgorithm")
    it_calls = [ast.unparse(s) for s in saem["_iteration"].body if isinstance(s, ast.Expr) and isinstance(s.value, ast.Call)]
    if not it_calls or it_calls[-1] != "self._update_temperature()" or it_calls.count("self._update_temperature()") != 1:
        raise Untranslatable("_iteration does not end with exactly one self._update_temperature()")
    init_calls = [ast.unparse(s) for s in saem["_initialize_algo"].body if isinstance(s, ast.Expr) and isinstance(s.value, ast.Call)]
    if init_calls.count("self._initialize_annealing()") != 1:
        raise Untranslatable("_initialize_algo does not call self._initialize_annealing() exactly once")

    # ---- shipped defaults
    d = json.loads((SRC / "algo" / "data" / "default_mcmc_saem.json").read_text())["parameters"]["annealing"]
    if d.get("n_iter") is not None or d.get("do_annealing") is not False or "oscillations" in d:
        raise Untranslatable(f"shipped annealing defaults changed shape: {d!r}")
    if not isinstance(d["n_plateau"], int) or isinstance(d["n_plateau"], bool):
        raise Untranslatable("default n_plateau is not an int")
    out.append(definition("gen_default_T0", [], "Q", coq_Q(d["initial_temperature"])))
    out.append(definition("gen_default_n_plateau", [], "Z", coq_Z(d["n_plateau"])))
    out.append(definition("gen_default_frac", [], "Q", coq_Q(Fraction(str(d["n_iter_frac"])))))


STD_TYPES = {"_counter": "Z", "acceptation_history_length": "Z", "rate": "Q", "s": "Q",
             "_mean_acceptation_lower_bound_before_adaptation": "Q", "_mean_acceptation_upper_bound_before_adaptation": "Q",
             "_adaptive_std_factor": "Q", "lo": "Q", "hi": "Q", "f": "Q"}


def subst(e, mapping):
    if e in mapping:
        return mapping[e]
    if isinstance(e, tuple):
        return tuple(subst(x, mapping) if isinstance(x, tuple) else x for x in e)
    return e


def body_no_doc(fn):
    return [st for st in fn.body if not (isinstance(st, ast.Expr) and isinstance(st.value, ast.Constant))]


def translate_sampler(out: list):
    G = pysym.load_methods(SRC / "samplers" / "gibbs.py", "GibbsSamplerMixin")
    B = pysym.load_methods(SRC / "samplers" / "base.py", "AbstractSampler")
    T = STD_TYPES
    emq, emz = Emit(T, "Q"), Emit(T, "Z")
    ren = {("var", "_mean_acceptation_lower_bound_before_adaptation"): ("var", "lo"),
           ("var", "_mean_acceptation_upper_bound_before_adaptation"): ("var", "hi"),
           ("var", "_adaptive_std_factor"): ("var", "f")}

    # ---- _update_std
    mean_call = "self.acceptation_history.mean"
    src = ast.unparse(G["_update_std"])
    if src.count(mean_call + "(") != 1 or mean_call + "(dim=0)" not in src:
        raise Untranslatable("_update_std does not take exactly one mean of the acceptance history over dim=0")
    ex = pysym.Exec(Spec(types=T, methods=G, opaque_calls=(mean_call,), track_div=True, masked_updates=True))
    t = ex.run(G["_update_std"].body, {}, {})
    if pysym.raises(t) != const(False):
        raise Untranslatable("_update_std may raise")
    if not (isinstance(t, pysym.Branch) and isinstance(t.then, pysym.Leaf) and isinstance(t.other, pysym.Leaf)):
        raise Untranslatable("_update_std is no longer `counter += 1; if <due>: <masked updates>`")
    cnt = pysym.final(t, "_counter", ("var", "_counter"))
    out.append(definition("gen_std_counter", [("_counter", "Z")], "Z", emz.num(cnt)))
    out.append(definition("gen_std_crashes", [("_counter", "Z"), ("acceptation_history_length", "Z")], "bool", emz.boolean(crash_cond(t))))
    out.append(definition("gen_std_due", [("_counter", "Z"), ("acceptation_history_length", "Z")], "bool", emz.boolean(t.cond)))
    for leaf in (t.then, t.other):
        extra = {k: v for k, v in leaf.state.items() if k != "_counter"}
        if extra:
            raise Untranslatable(f"_update_std assigns {sorted(extra)}")
    if any(n.startswith("masked-aug") for n, _, _ in t.other.effects):
        raise Untranslatable("_update_std changes std when the counter is not a multiple of the window length")
    ups = [(n, kw) for n, kw, _ in t.then.effects if n.startswith("masked-aug")]
    if not ups or any(n != "masked-aug:std" for n, _ in ups):
        raise Untranslatable(f"_update_std: masked updates {[n for n, _ in ups]!r}")
    # fold the masked in-place updates, in program order, into one function of (rate, lo, hi, f, s) for one block
    cur = ("var", "s")
    opq = ("opaque", mean_call)
    for _, kw in ups:
        mask = subst(subst(kw["mask"], {opq: ("var", "rate")}), ren)
        val = subst(kw["value"], ren)
        if "opaque" in repr(mask) or "opaque" in repr(val):
            raise Untranslatable("_update_std: a mask / factor depends on something else than the mean acceptance")
        cur = ("ite", mask, ("bin", kw["op"][1], cur, val), cur)
    out.append(definition("gen_std_adapt", [("rate", "Q"), ("lo", "Q"), ("hi", "Q"), ("f", "Q"), ("s", "Q")], "Q", emq.num(cur)))

    # ---- constructor guards
    bname = "mean_acceptation_rate_target_bounds"
    ex = pysym.Exec(Spec(types=T, methods=G, assume_true=(f"isinstance({bname}, Sequence)", f"len({bname}) == 2")))
    t = ex.run(G["_set_acceptation_bounds"].body, {bname: ("tuple", (("var", "lo"), ("var", "hi")))}, {})
    out.append(definition("gen_bounds_refused", [("lo", "Q"), ("hi", "Q")], "bool", emq.boolean(pysym.raises(t))))
    ok_leaves = []
    pysym.tree_map(t, lambda leaf: ok_leaves.append(leaf) or const(False))
    stored = [(l.state.get("_mean_acceptation_lower_bound_before_adaptation"), l.state.get("_mean_acceptation_upper_bound_before_adaptation"))
              for l in ok_leaves if l.kind != "raise"]
    if len(stored) != 1 or None in stored[0]:
        raise Untranslatable("_set_acceptation_bounds does not store both bounds on its only accepting path")
    out.append(definition("gen_bounds_lower", [("lo", "Q"), ("hi", "Q")], "Q", emq.num(stored[0][0])))
    out.append(definition("gen_bounds_upper", [("lo", "Q"), ("hi", "Q")], "Q", emq.num(stored[0][1])))
    ex = pysym.Exec(Spec(types=T, methods=G))
    t = ex.run(G["_set_adaptive_std_factor"].body, {"adaptive_std_factor": ("var", "f")}, {})
    out.append(definition("gen_factor_refused", [("f", "Q")], "bool", emq.boolean(pysym.raises(t))))
    st = [l.state.get("_adaptive_std_factor") for l in (pysym.tree_map(t, lambda leaf: ok_leaves.append(leaf) or const(False)), ok_leaves)[1]
          if l.kind != "raise" and "_adaptive_std_factor" in l.state]
    if st != [("var", "f")]:
        raise Untranslatable("_set_adaptive_std_factor does not store the factor as given")
    # constructor: counter starts at a literal, the two guards are applied to the constructor's arguments
    init_src = [ast.unparse(x) for x in body_no_doc(G["__init__"])]
    c0 = [x for x in body_no_doc(G["__init__"]) if isinstance(x, (ast.Assign, ast.AnnAssign))
          and ast.unparse(x.targets[0] if isinstance(x, ast.Assign) else x.target) == "self._counter"]
    if len(c0) != 1 or not (isinstance(c0[0].value, ast.Constant) and isinstance(c0[0].value.value, int)):
        raise Untranslatable("constructor does not initialise self._counter with an integer literal")
    out.append(definition("gen_counter_init", [], "Z", coq_Z(c0[0].value.value)))
    for need in ("self._set_acceptation_bounds(mean_acceptation_rate_target_bounds)", "self._set_adaptive_std_factor(adaptive_std_factor)",
                 "self.scale = self.validate_scale(scale)", "self.std = self.STD_SCALE_FACTOR * self.scale * torch.ones(self.shape_adapted_std)"):
        if init_src.count(need) != 1:
            raise Untranslatable(f"GibbsSamplerMixin.__init__ no longer contains `{need}`")
    vs = ast.unparse(G["validate_scale"])
    if "if (scale <= 0).any():\n        raise LeaspyInputError" not in vs:
        raise Untranslatable("validate_scale no longer refuses `(scale <= 0).any()`")
    # STD_SCALE_FACTOR of the two families
    tree = ast.parse((SRC / "samplers" / "gibbs.py").read_text())
    for cls, gname in (("AbstractPopulationGibbsSampler", "gen_std_scale_pop"), ("IndividualGibbsSampler", "gen_std_scale_ind")):
        vals = [x.value.value for n in ast.walk(tree) if isinstance(n, ast.ClassDef) and n.name == cls for x in n.body
                if isinstance(x, ast.Assign) and ast.unparse(x.targets[0]) == "STD_SCALE_FACTOR" and isinstance(x.value, ast.Constant)]
        if len(vals) != 1:
            raise Untranslatable(f"{cls}.STD_SCALE_FACTOR is not a literal")
        out.append(definition(gname, [], "Q", coq_Q(Fraction(str(vals[0])))))

    # ---- _update_acceptation_rate: list vocabulary  X[a:] -> skipn a X ;  torch.cat([A, B]) -> A ++ B ;  t.unsqueeze(0) -> [t]
    def lst(node, env):
        if isinstance(node, ast.Name) and node.id in env:
            return env[node.id]
        if isinstance(node, ast.Attribute) and ast.unparse(node) == "self.acceptation_history":
            return "w"
        if (isinstance(node, ast.Subscript) and isinstance(node.slice, ast.Slice) and node.slice.upper is None and node.slice.step is None
                and isinstance(node.slice.lower, ast.Constant) and isinstance(node.slice.lower.value, int) and node.slice.lower.value >= 0):
            return f"(skipn {node.slice.lower.value} {lst(node.value, env)})"
        if (isinstance(node, ast.Call) and ast.unparse(node.func) == "torch.cat" and len(node.args) == 1 and not node.keywords
                and isinstance(node.args[0], ast.List)):
            return "(" + " ++ ".join(lst(a, env) for a in node.args[0].elts) + ")"
        if (isinstance(node, ast.Call) and isinstance(node.func, ast.Attribute) and node.func.attr == "unsqueeze"
                and ast.unparse(node.func.value) == "accepted" and [ast.unparse(a) for a in node.args] == ["0"] and not node.keywords):
            return "[row]"
        raise Untranslatable("_update_acceptation_rate: " + ast.unparse(node))
    env, new_w = {}, None
    for stt in body_no_doc(B["_update_acceptation_rate"]):
        if not (isinstance(stt, ast.Assign) and len(stt.targets) == 1):
            raise Untranslatable("_update_acceptation_rate: statement " + ast.unparse(stt)[:60])
        tg = stt.targets[0]
        if isinstance(tg, ast.Name):
            env[tg.id] = lst(stt.value, env)
        elif ast.unparse(tg) == "self.acceptation_history" and new_w is None:
            new_w = lst(stt.value, env)
        else:
            raise Untranslatable("_update_acceptation_rate: assignment to " + ast.unparse(tg))
    if new_w is None:
        raise Untranslatable("_update_acceptation_rate does not assign self.acceptation_history")
    out.append(definition("gen_push", [("w", "list (list bool)"), ("row", "list bool")], "list (list bool)", new_w))
    hist = [ast.unparse(x) for x in body_no_doc(B["__init__"])]
    if "self.acceptation_history = torch.zeros((self.acceptation_history_length, *self.shape_acceptation))" not in hist:
        raise Untranslatable("AbstractSampler.__init__ no longer creates a zero window of acceptation_history_length rows")

    # ---- every sample() ends with: push the acceptances, then adapt
    n_samples = 0
    for node in ast.walk(tree):
        if isinstance(node, ast.FunctionDef) and node.name == "sample":
            n_samples += 1
            tail = [ast.unparse(x) for x in node.body[-2:]]
            if not (len(tail) == 2 and tail[0].startswith("self._update_acceptation_rate(") and tail[1] == "self._update_std()"):
                raise Untranslatable(f"a sample() method does not end with _update_acceptation_rate(...); _update_std(): {tail!r}")
    if n_samples != 2:
        raise Untranslatable(f"{n_samples} sample() methods in gibbs.py (expected population + individual)")


def translate(run: Run) -> bool:
    """Regenerate coq/gen/GenC19.v from the working tree; False (and run.broken) when the source no longer
    has a shape the translator understands."""
    try:
        out = [HEADER]
        translate_anneal(out)
        translate_sampler(out)
        run.gen("GenC19", "\n".join(out))
        run.trusted.append("translator harness/translate/pysym.py + harness/props/c19.py (python ast -> Gallina for the annealing mixin, "
                           "_update_std, the sampler guards, _update_acceptation_rate)")
        return True
    except (Untranslatable, KeyError, OSError, SyntaxError, ValueError, TypeError) as e:
        run.broken("translate:GenC19", f"{type(e).__name__}: {e}", kind="broken-translation")
        return False



# ----------------------------------------------------------------------------- implementation side: annealing


def hexf(x) -> str:
    x = float(x)
    if math.isnan(x):
        return "nan%float"
    if math.isinf(x):
        return "infinity%float" if x > 0 else "neg_infinity%float"
    return f"({x.hex()})%float"


def make_algo(n_iter, annealing):
    import warnings
    from leaspy.algo import AlgorithmSettings
    from leaspy.algo.fit.mcmc_saem import TensorMcmcSaemAlgorithm
    with warnings.catch_warnings():
        warnings.simplefilter("ignore")
        return TensorMcmcSaemAlgorithm(AlgorithmSettings("mcmc_saem", n_iter=n_iter, progress_bar=False, annealing=annealing))


def err_class(e) -> str:
    from leaspy.exceptions import LeaspyAlgoInputError, LeaspyInputError
    return "InputError" if isinstance(e, (LeaspyAlgoInputError, LeaspyInputError)) else "Crash"


def impl_trace(n_iter, annealing, n_steps=None):
    """Drive the real mixin: constructor, _initialize_annealing(), then current_iteration = k; _update_temperature()
    for k = 1..n_steps.  Returns what was observed (never raises)."""
    import warnings
    r = dict(n_iter=n_iter, annealing=dict(annealing), stage=None, failure=None, exc=None, reached=[])
    try:
        algo = make_algo(n_iter, annealing)
    except Exception as e:
        r.update(stage="ctor", failure=err_class(e), exc=f"{type(e).__name__}: {e}")
        return r
    ap = algo.algo_parameters["annealing"]
    r.update(on=bool(algo.annealing_on), n_ann=ap.get("n_iter"), T0=ap.get("initial_temperature"), n_plateau=ap.get("n_plateau"))
    with warnings.catch_warnings():
        warnings.simplefilter("ignore")
        try:
            algo._initialize_annealing()
        except Exception as e:
            r.update(stage="init", failure=err_class(e), exc=f"{type(e).__name__}: {e}")
            return r
        r["period"] = algo._annealing_period
        r["reached"].append((algo.temperature, algo.temperature_inv))
        for k in range(1, (n_iter if n_steps is None else n_steps) + 1):
            algo.current_iteration = k
            try:
                algo._update_temperature()
            except Exception as e:
                r.update(stage=k, failure=err_class(e), exc=f"{type(e).__name__}: {e}")
                return r
            r["reached"].append((algo.temperature, algo.temperature_inv))
    return r


def rle(pairs):
    out = []
    for p in pairs:
        key = (float(p[0]).hex(), float(p[1]).hex())
        if out and out[-1][0] == key:
            out[-1][1] += 1
        else:
            out.append([key, 1, p])
    return out


def coq_case(r, n_steps) -> str:
    """Coq literal  ((on, n_ann, T0, n_plateau), n, (rle observed, failure))."""
    obs = coq_list([f"(({hexf(p[0])}, {hexf(p[1])}), {cnt}%nat)" for _, cnt, p in rle(r["reached"])])
    fail = "None" if r["failure"] is None else f"(Some {r['failure']})"
    return (f"(({coq_bool(r['on'])}, {coq_Z(r['n_ann'] if r['n_ann'] is not None else 0)}, {hexf(r['T0'])}, {coq_Z(r['n_plateau'])}), "
            f"{int(n_steps)}%nat, ({obs}, {fail}))")


def describe(r):
    return dict(n_iter=r["n_iter"], annealing=r["annealing"], resolved_annealing_n_iter=r.get("n_ann"))


def oracle_anneal(run: Run, r, n_steps):
    """Property clauses checked directly on what the implementation did (independent of the Coq model)."""
    inp = describe(r)
    if r["stage"] == "ctor":
        return
    on, na, T0, npl = r["on"], r["n_ann"], r["T0"], r["n_plateau"]
    temps = [float(t) for t, _ in r["reached"]]
    if not on:
        if r["failure"] or any(t != 1.0 for t in temps) or any(float(i) != 1.0 for _, i in r["reached"]):
            run.fail("anneal:off-not-one", "annealing off but the temperature is not constantly 1 (or the run failed)", inp,
                     observed=dict(failure=r["exc"], temps=temps[:5]))
        return
    int_np = isinstance(npl, int) and not isinstance(npl, bool)
    if (r["stage"] == "init" and r["failure"] == "InputError" and int_np and npl >= 2 and T0 > 1 and na is not None and na >= npl - 1):
        # the guard on the plateau length must refuse exactly annealing n_iter < n_plateau - 1 (the other direction, a short
        # configuration that is accepted, shows up below as anneal:period-zero / anneal:no-annealing-iteration-keeps-T0)
        run.fail("anneal:refuses-proper", "a proper configuration (n_plateau >= 2, initial_temperature > 1, annealing n_iter >= n_plateau - 1) "
                 "is refused at initialisation", inp, expected="accepted", observed=r["exc"])
    if r["stage"] == "init":
        # a refusal is fine when it is a refusal (input error); a crash on a configuration of the documented domain is not
        if r["failure"] == "Crash" and int_np and npl >= 1 and T0 > 1:
            run.fail(f"anneal:init-raises:{r['exc'].split(':')[0]}", "initialisation crashes on a valid configuration", inp, observed=r["exc"])
        return
    # accepted configuration
    if r["failure"] is not None:
        if (r["exc"].startswith("ZeroDivisionError") and r["stage"] == 1 and int_np and npl >= 2 and 1 <= na <= npl - 2 and r.get("period") == 0):
            run.fail("anneal:period-zero", "accepted configuration (1 <= annealing n_iter < n_plateau - 1 gives period 0) raises "
                     "ZeroDivisionError at the first _update_temperature", inp, expected="runs to completion", observed=r["exc"])
        else:
            run.fail(f"anneal:update-raises:{r['exc'].split(':')[0]}", "accepted configuration does not run to completion", inp,
                     expected="runs to completion", observed=dict(exc=r["exc"], iteration=r["stage"]))
        return
    for (t, i) in r["reached"]:
        if float(i) != 1.0 / float(t):
            run.fail("anneal:inverse", "temperature_inv is not 1/temperature", inp, observed=dict(temperature=t, temperature_inv=i))
            break
    if temps[0] != float(T0):
        run.fail("anneal:start", "temperature does not start at initial_temperature", inp, expected=T0, observed=temps[0])
    period = r.get("period")
    for k in range(1, len(temps)):
        if temps[k] > temps[k - 1]:
            run.fail("anneal:increases", "temperature increases", dict(inp, iteration=k), observed=temps[k - 1:k + 1])
            break
    for k in range(1, len(temps)):
        if temps[k] != temps[k - 1] and not (period and k <= na and k % period == 0):
            run.fail("anneal:changes-off-boundary", "temperature changes at an iteration that is not a plateau boundary",
                     dict(inp, iteration=k), observed=temps[k - 1:k + 1])
            break
    low = min(temps)
    if low < 1.0:
        if int_np and npl == 1 and T0 < 1 and low == float(T0):
            run.fail("anneal:single-plateau-T0-below-1", "n_plateau = 1 skips the guard initial_temperature > 1: temperature stays below 1",
                     inp, expected=">= 1", observed=low)
        else:
            run.fail("anneal:below-one", "temperature goes below 1", inp, expected=">= 1", observed=low)
    # after the annealing iterations
    after = [temps[k] for k in range(len(temps)) if k >= max(na, 0)]
    if after and any(t != 1.0 for t in after):
        worst = max(after, key=lambda t: abs(t - 1.0))
        if int_np and npl == 1 and all(t == float(T0) for t in temps):
            if T0 >= 1:
                run.fail("anneal:single-plateau-keeps-T0", "n_plateau = 1: temperature stays at initial_temperature for ever (only a warning)",
                         inp, expected=1.0, observed=worst)
        elif int_np and npl >= 2 and na <= 0 and all(t == float(T0) for t in temps):
            run.fail("anneal:no-annealing-iteration-keeps-T0", "annealing n_iter <= 0 (e.g. int(frac * n_iter) = 0): temperature stays at "
                     "initial_temperature for ever", inp, expected=1.0, observed=worst)
        elif abs(worst - 1.0) <= 1e-12 and period and period >= 1:
            run.fail("anneal:final-temperature-off-by-rounding", "temperature after the annealing iterations differs from 1 by float "
                     "rounding of the repeated decrement (exactly 1 over exact numbers)", inp, expected=1.0, observed=worst)
        else:
            run.fail("anneal:not-one-after-annealing", "temperature is not 1 once the annealing iterations are over", inp,
                     expected=1.0, observed=worst)


COQ_HDR = ("From Coq Require Import ZArith QArith Bool List PrimFloat.\n"
           "From Leaspy Require Import Base.QAux Saem.Anneal Saem.AnnealFloat.\n")
CASE_T = "(bool * Z * float * Z) * nat * obs_t"


def check_anneal(run: Run):
    from harness.common import use_impl
    use_impl()
    thorough = run.tier == "thorough"
    n_iters = list(range(1, 41)) if thorough else [1, 2, 3, 4, 5, 6, 7, 8, 9, 10, 11, 12, 15, 20, 25, 30, 40]
    plateaus = list(range(1, 13))
    T0s = [1.5, 2, 5, 10]
    fracs = [0.5, 0.29, 0.9] if not thorough else [0.5, 0.29, 0.9, 0.1, 0.7, 1.0]
    cases, recs = [], []
    nann_cases, nann_meta = [], []

    def add(r, n_steps):
        oracle_anneal(run, r, n_steps)
        if r["stage"] == "ctor":
            return
        if not (isinstance(r["n_plateau"], int) and not isinstance(r["n_plateau"], bool)) or (r["on"] and r["n_ann"] is None):
            return   # outside the model's typing assumption (refusal checked by the oracle)
        cases.append(coq_case(r, n_steps))
        recs.append(r)

    for n_iter in n_iters:
        counts = sorted({0, 1, 2, n_iter // 3, n_iter // 2, n_iter - 1, n_iter, n_iter + 2})
        variants = [dict(n_iter=c, n_iter_frac=None) for c in counts] + [dict(n_iter=None, n_iter_frac=f) for f in fracs]
        for v in variants:
            for T0 in T0s:
                for npl in plateaus:
                    ann = dict(do_annealing=True, initial_temperature=T0, n_plateau=npl, **v)
                    r = impl_trace(n_iter, ann)
                    kind = ("refused" if r["stage"] in ("ctor", "init") else "raises" if r["failure"] else
                            "single-plateau" if npl == 1 else "no-annealing-iteration" if r["n_ann"] <= 0 else "proper")
                    run.count("anneal_outcome", kind)
                    run.count("annealing_n_iter_given_as", "count" if v["n_iter"] is not None else "fraction")
                    run.case(("anneal", n_iter, v["n_iter"], v["n_iter_frac"], T0, npl), nontrivial=kind in ("proper", "raises"))
                    add(r, n_iter)
                    if v["n_iter"] is None and T0 == T0s[0] and npl == plateaus[0]:
                        nann_cases.append(f"({hexf(v['n_iter_frac'])}, {coq_Z(n_iter)}, {coq_Z(r['n_ann'])})")
                        nann_meta.append(dict(n_iter=n_iter, n_iter_frac=v["n_iter_frac"], annealing_n_iter=r["n_ann"]))
    run.exhaustive = True
    # directed: guards, typing, off, defaults, long run
    directed = [
        (10, dict(do_annealing=True)), (1, dict(do_annealing=True)), (20, dict(do_annealing=True)), (19, dict(do_annealing=True)),
        (200, dict(do_annealing=True)), (10, dict(do_annealing=False)), (10, dict(do_annealing=False, n_plateau=0, initial_temperature=0)),
        (40, dict(do_annealing=True, initial_temperature=5, n_plateau=4, n_iter=30, n_iter_frac=None)),
        (10, dict(do_annealing=True, initial_temperature=1)), (10, dict(do_annealing=True, initial_temperature=1.0)),
        (10, dict(do_annealing=True, initial_temperature=0.5)), (10, dict(do_annealing=True, initial_temperature=0)),
        (10, dict(do_annealing=True, initial_temperature=0.0, n_plateau=0)), (10, dict(do_annealing=True, initial_temperature=-2.0)),
        (10, dict(do_annealing=True, initial_temperature=math.nextafter(1.0, 2), n_plateau=3, n_iter=6)),
        (10, dict(do_annealing=True, n_plateau=0)), (10, dict(do_annealing=True, n_plateau=-3)),
        (10, dict(do_annealing=True, n_plateau=1, initial_temperature=0.5)), (10, dict(do_annealing=True, n_plateau=1, initial_temperature=1.0)),
        (10, dict(do_annealing=True, n_plateau=2.0)), (10, dict(do_annealing=True, n_plateau="3")), (10, dict(do_annealing=True, n_plateau=2.5)),
        (10, dict(do_annealing=True, n_iter=-3, n_iter_frac=None)), (10, dict(do_annealing=True, n_iter=None, n_iter_frac=None)),
        (10, dict(do_annealing=False, n_iter=None, n_iter_frac=None)), (10, dict(do_annealing=True, n_iter=4, n_iter_frac=0.9, n_plateau=3)),
        (30, dict(do_annealing=True, n_iter=100, n_iter_frac=None, n_plateau=7, initial_temperature=3.3)),
        # the guard on the plateau length (annealing n_iter >= n_plateau - 1), both sides of the boundary
        (17, dict(do_annealing=True)), (18, dict(do_annealing=True)), (0, dict(do_annealing=True)),
        (10, dict(do_annealing=True, n_iter=8, n_iter_frac=None)), (10, dict(do_annealing=True, n_iter=9, n_iter_frac=None)),
        (10, dict(do_annealing=True, n_iter=0, n_iter_frac=None)), (10, dict(do_annealing=True, n_iter=0, n_iter_frac=None, n_plateau=2)),
        (10, dict(do_annealing=True, n_iter=1, n_iter_frac=None, n_plateau=2)), (10, dict(do_annealing=True, n_iter=-1, n_iter_frac=None, n_plateau=2)),
        (10, dict(do_annealing=True, n_iter=None, n_iter_frac=0.05)), (10, dict(do_annealing=True, n_iter=None, n_iter_frac=0.0, n_plateau=2)),
        (10, dict(do_annealing=True, n_iter=0, n_iter_frac=None, n_plateau=1)),
    ]
    for n_iter, ann in directed:
        r = impl_trace(n_iter, ann)
        run.case(("anneal-directed", n_iter, repr(sorted(ann.items()))), nontrivial=True)
        run.count("anneal_directed_outcome", r["failure"] or "completes")
        add(r, n_iter)
        if ann.get("n_iter", 0) is None and ann.get("n_iter_frac", 0) is None:
            want = "InputError" if ann["do_annealing"] else None
            if (r["failure"] if r["stage"] == "ctor" else None) != want:
                run.fail("anneal:ctor-none-none", "constructor does not refuse (n_iter None, n_iter_frac None) exactly when annealing is on",
                         describe(r), expected=want, observed=r["exc"])
        npl = ann.get("n_plateau", 10)
        if ann["do_annealing"] and not (isinstance(npl, int) and npl > 0) and ann.get("initial_temperature", 10) != 0:
            if r["failure"] != "InputError":
                run.fail("anneal:n-plateau-guard", "n_plateau that is not a positive integer is not refused with an input error", describe(r),
                         observed=r["exc"])
    for r in (recs[len(recs) // 3], recs[-3]):
        run.sample(dict(kind="anneal", **describe(r), failure=r["exc"], temperatures=[float(t) for t, _ in r["reached"]][:45]))

    bad = run.vm_bad_indices("anneal", COQ_HDR, CASE_T, cases, "check_case", shard=300)
    if bad:
        sub = [cases[i] for i in bad]
        bits_bad = set(run.vm_bad_indices("anneal_bits", COQ_HDR, CASE_T, sub, "check_case_bits") or [])
        for j, i in enumerate(bad):
            r = recs[i]
            which = "binary64 twin (bit-for-bit)" if j in bits_bad else "exact model (1e-12)"
            run.fail("anneal:model-disagrees:" + ("bits" if j in bits_bad else "exact"),
                     f"temperature schedule of the implementation differs from the {which} / from its failure class", describe(r),
                     observed=dict(failure=r["exc"], stage=r["stage"], temperatures=[float(t) for t, _ in r["reached"]][:45]),
                     kind="counterexample")
    badn = run.vm_bad_indices("n_ann", COQ_HDR, "float * Z * Z", nann_cases, "check_n_ann")
    for i in badn or []:
        run.fail("anneal:n-iter-from-fraction", "annealing.n_iter is not int(n_iter_frac * n_iter)", nann_meta[i])
    run.extra["anneal_cases_compared_in_coq"] = len(cases)
    run.extra["anneal_fraction_cases"] = len(nann_cases)


# ----------------------------------------------------------------------------- implementation side: adaptive scale

SAMPLER_HDR = ("From Coq Require Import ZArith QArith Bool List.\n"
               "From Leaspy Require Import Base.QAux Saem.Anneal Saem.AnnealFloat Sampler.AdaptiveStd Sampler.AdaptiveStdCheck.\n")
SAMPLER_T = "scfg * Q * list Q * list (list bool) * sobs_t"
KINDS = {  # name -> (factory string, is individual, variable shape, number of blocks, STD_SCALE_FACTOR)
    "pop-gibbs-1d": ("Gibbs", False, (3,), 3), "pop-gibbs-2d": ("Gibbs", False, (2, 3), 6),
    "pop-fastgibbs": ("FastGibbs", False, (2, 3), 2), "pop-mh": ("Metropolis-Hastings", False, (2, 3), 1),
    "ind-gibbs": ("Gibbs", True, (2,), 4),
}


def nice(x) -> Fraction:
    """the rational a float setting stands for (0.2 -> 1/5); exact for dyadic values"""
    return Fraction(x).limit_denominator(1000)


def build_sampler(kind, L, bounds, factor, scale):
    from leaspy.samplers import sampler_factory
    from leaspy.variables.specs import IndividualLatentVariable, PopulationLatentVariable
    fac, ind, shape, nb = KINDS[kind]
    kw = dict(name="v", shape=shape, scale=scale, acceptation_history_length=L,
              mean_acceptation_rate_target_bounds=bounds, adaptive_std_factor=factor)
    if ind:
        return sampler_factory(fac, IndividualLatentVariable, n_patients=nb, **kw)
    return sampler_factory(fac, PopulationLatentVariable, **kw)


def block_scales(kind, raw):
    """per-block validated scale, recomputed exactly from the raw scale (gibbs.py validate_scale of each family)"""
    import torch
    fac, ind, shape, nb = KINDS[kind]
    t = torch.as_tensor(raw, dtype=torch.float32)
    vals = [frac(v) for v in t.reshape(-1).tolist()]
    if ind:
        return [sum(vals) / len(vals)] * nb
    if t.ndim == 0:
        return [vals[0]] * nb
    if fac == "Gibbs":
        return vals
    if fac == "FastGibbs":
        w = len(vals) // nb
        return [sum(vals[i * w:(i + 1) * w]) / w for i in range(nb)]
    return [sum(vals) / len(vals)]


def drive_sampler(kind, L, bounds, factor, scale, rows):
    """Build a real sampler and feed it the acceptance rows through _update_acceptation_rate / _update_std."""
    import torch
    r = dict(kind=kind, L=L, bounds=list(bounds) if isinstance(bounds, (list, tuple)) else bounds, factor=factor, stage=None, failure=None,
             exc=None, stds=[], counter=0, window=[])
    try:
        smp = build_sampler(kind, L, bounds, factor, scale)
    except Exception as e:
        r.update(stage="init", failure=err_class(e), exc=f"{type(e).__name__}: {str(e)[:120]}")
        return r, None
    def snap():
        # state after the last call that completed (a failing call may leave partial side effects behind)
        r["counter"] = smp._counter
        h = smp.acceptation_history
        r["window"] = [[bool(x) for x in rw] for rw in h.reshape(h.shape[0], max(1, math.prod(h.shape[1:]))).tolist()] if h.shape[0] else []
    r["stds"].append(smp.std.reshape(-1).tolist())
    snap()
    shape_acc = tuple(smp.shape_acceptation)
    for k, row in enumerate(rows, 1):
        acc = torch.tensor([1.0 if b else 0.0 for b in row], dtype=torch.float32).reshape(shape_acc)
        try:
            smp._update_acceptation_rate(acc)
            smp._update_std()
        except Exception as e:
            r.update(stage=k, failure=err_class(e), exc=f"{type(e).__name__}: {str(e)[:120]}")
            break
        r["stds"].append(smp.std.reshape(-1).tolist())
        snap()
    return r, smp


def coq_scfg(L, lo, hi, f) -> str:
    return f"{{| hist_len := {coq_Z(L)}; lo := {coq_Q(lo)}; hi := {coq_Q(hi)}; fac := {coq_Q(f)} |}}"


def coq_rows(rows) -> str:
    return coq_list([coq_list([coq_bool(b) for b in row]) for row in rows])


def sampler_case(r, sf, scales, rows, lo, hi, f) -> str:
    runs = []
    for sd in r["stds"]:
        if runs and runs[-1][0] == sd:
            runs[-1][1] += 1
        else:
            runs.append([sd, 1])
    obs = coq_list([f"({coq_list([coq_Q(x) for x in sd])}, {n}%nat)" for sd, n in runs])
    fail = "None" if r["failure"] is None else f"(Some {r['failure']})"
    return (f"({coq_scfg(r['L'], lo, hi, f)}, {coq_Q(sf)}, {coq_list([coq_Q(x) for x in scales])}, {coq_rows(rows)}, "
            f"({obs}, {fail}, {coq_Z(r['counter'])}, {coq_rows(r['window'])}))")


def oracle_sampler(run: Run, r, rows, lo, hi, f, inp):
    """Property clauses checked directly on the implementation's scales (float32), independent of the Coq model."""
    L, stds = r["L"], r["stds"]
    if r["failure"] is not None:
        if L >= 1:
            run.fail(f"std:raises:{r['exc'].split(':')[0]}", "sampler with a valid configuration does not accept a well-shaped acceptance "
                     "history", inp, observed=dict(exc=r["exc"], step=r["stage"]))
        return
    for k in range(1, len(stds)):
        prev, cur = stds[k - 1], stds[k]
        if any(not (math.isfinite(x) and x > 0) for x in cur):
            run.fail("std:not-positive-finite", "a proposal scale is not positive and finite", dict(inp, step=k), observed=cur)
            return
        changed = [j for j in range(len(cur)) if cur[j] != prev[j]]
        if changed and k % L != 0:
            run.fail("std:changes-off-multiple", "a proposal scale changes at a step that is not a multiple of acceptation_history_length",
                     dict(inp, step=k), observed=dict(blocks=changed))
            return
        if k % L == 0:
            win = rows[k - L:k]
            for j in range(len(cur)):
                rate = Fraction(sum(1 for rw in win if rw[j]), L)
                want = 1 - f if rate < lo else 1 + f if rate > hi else Fraction(1)
                got = frac(cur[j]) / frac(prev[j])
                if (want == 1) != (cur[j] == prev[j]) or abs(got - want) > Fraction(1, 10 ** 6):
                    which = "below" if rate < lo else "above" if rate > hi else ("on-bound" if rate in (lo, hi) else "inside")
                    run.fail(f"std:wrong-factor:rate-{which}-band", "a proposal scale is not multiplied by exactly 1-f / 1+f / 1 according to "
                             "the block's acceptance rate over the last L steps", dict(inp, step=k, block=j, rate=str(rate)),
                             expected=float(want), observed=float(got))
                    return


def gen_rows(rng, nb, n, L, lo, hi):
    """acceptance history: each block gets a target pattern (below / inside / above the band, exactly on a bound, alternating)"""
    modes = [rng.choice(["low", "high", "mid", "on-lo", "on-hi", "flip", "rand"]) for _ in range(nb)]
    rows = [[False] * nb for _ in range(n)]
    for j, m in enumerate(modes):
        for w0 in range(0, n, max(L, 1)):
            idx = list(range(w0, min(w0 + max(L, 1), n)))
            mm = rng.choice(["low", "high", "mid"]) if m == "flip" else m
            if mm == "on-lo":
                cnt = lo * L
                cnt = int(cnt) if cnt.denominator == 1 else math.floor(cnt)
            elif mm == "on-hi":
                cnt = hi * L
                cnt = int(cnt) if cnt.denominator == 1 else math.ceil(cnt)
            elif mm == "low":
                cnt = rng.randint(0, max(0, math.ceil(lo * L) - 1))
            elif mm == "high":
                cnt = rng.randint(min(L, math.floor(hi * L) + 1), L)
            elif mm == "mid":
                cnt = rng.randint(math.ceil(lo * L), max(math.ceil(lo * L), math.floor(hi * L)))
            else:
                cnt = rng.randint(0, L)
            cnt = max(0, min(int(cnt), len(idx)))
            for i in rng.sample(idx, cnt):
                rows[i][j] = True
    return rows, modes


def check_samplers(run: Run):
    from harness.common import use_impl
    use_impl()
    import torch
    thorough = run.tier == "thorough"
    sf_of = {False: Fraction(1, 100), True: Fraction(1, 2)}
    cases, meta = [], []
    configs = [(1, (0.2, 0.4), 0.1), (3, (0.2, 0.4), 0.1), (3, (1 / 3, 2 / 3), 0.25), (4, (0.25, 0.5), 0.5), (25, (0.2, 0.4), 0.1),
               (25, (0.04, 0.96), 0.9), (5, (0.2, 0.8), 0.01), (2, (0.5, 0.75), 0.125)]
    reps = 4 if thorough else 1
    for kind in KINDS:
        fac_s, ind, shape, nb = KINDS[kind]
        for ci, (L, bounds, f) in enumerate(configs):
            for rep in range(reps):
                rng = run.rng("sampler", kind, ci, rep)
                lo, hi, fq = nice(bounds[0]), nice(bounds[1]), nice(f)
                n = (4 * L + 2) if L > 1 else 9
                if thorough and rep == 3:
                    n = 12 * L + 1
                rows, modes = gen_rows(rng, nb, n, L, lo, hi)
                if ind or rng.random() < 0.3:
                    scale = rng.choice([0.5, 1.0, 2.0, 0.37])
                else:
                    scale = torch.tensor([rng.choice([0.25, 0.5, 1.0, 1.7, 3.0]) for _ in range(math.prod(shape))]).reshape(shape)
                r, smp = drive_sampler(kind, L, bounds, f, scale, rows)
                inp = dict(kind=kind, acceptation_history_length=L, bounds=list(bounds), adaptive_std_factor=f,
                           scale=scale if isinstance(scale, float) else scale.reshape(-1).tolist(), rows=["".join("1" if b else "0" for b in rw) for rw in rows])
                run.case(("sampler", kind, L, bounds, f, rep), nontrivial=n >= L)
                run.count("sampler_kind", kind)
                run.count("window_length", L)
                for m in modes:
                    run.count("block_pattern", m)
                oracle_sampler(run, r, rows, lo, hi, fq, inp)
                cases.append(sampler_case(r, sf_of[ind], block_scales(kind, scale), rows, lo, hi, fq))
                meta.append(inp)
                if len(run.samples) < 4 and L == 3 and kind in ("pop-fastgibbs", "ind-gibbs"):
                    run.sample(dict(what="sampler", **inp, stds=r["stds"][::L][:4]))
    # long one-sided history on the real sampler: scales stay positive and finite well inside float32 range
    n_adapt = 2000 if thorough else 300
    r, smp = drive_sampler("pop-mh", 1, (0.2, 0.4), 0.1, 1.0, [[False]] * n_adapt)
    run.case(("sampler-one-sided", n_adapt), nontrivial=True)
    last = r["stds"][-1][0] if r["stds"] else None
    run.extra["one_sided_history"] = dict(adaptations=n_adapt, final_std=last, note="float32 underflows to 0 after ~950 decreases by 0.9 "
                                          "from 0.01 (stated limit of the model: finiteness/positivity are theorems over Q)")
    if not thorough and not (last and last > 0 and math.isfinite(last)):
        run.fail("std:not-positive-finite", "scale not positive after 300 one-sided adaptations", dict(kind="pop-mh", L=1, n=n_adapt), observed=last)

    # constructor guards (exact double values), including window lengths 0 and -1
    guards = []
    for kind in ("pop-gibbs-1d", "ind-gibbs", "pop-mh"):
        for bounds in [(0.2, 0.4), (0.0, 0.4), (0.2, 1.0), (0.4, 0.2), (0.3, 0.3), (-0.1, 0.5), (0.2, 1.5), (math.nextafter(0.0, 1), math.nextafter(1.0, 0)),
                       [0.2, 0.4]]:
            guards.append((kind, 3, bounds, 0.1, 1.0))
        for f in [0.0, 1.0, -0.1, 1.5, math.nextafter(0.0, 1), math.nextafter(1.0, 0), 0.5]:
            guards.append((kind, 3, (0.2, 0.4), f, 1.0))
        for sc in [0.0, -1.0, 1e-30, 2.0]:
            guards.append((kind, 3, (0.2, 0.4), 0.1, sc))
        guards.append((kind, 0, (0.2, 0.4), 0.1, 1.0))
        guards.append((kind, -1, (0.2, 0.4), 0.1, 1.0))
    guards.append(("pop-gibbs-1d", 3, (0.2, 0.4), 0.1, torch.tensor([1.0, 0.0, 2.0])))
    guards.append(("pop-fastgibbs", 3, (0.2, 0.4), 0.1, torch.tensor([[1.0, -1.0, 2.0], [1.0, 1.0, 1.0]])))
    guards.append(("pop-gibbs-1d", 3, (0.2, 0.4, 0.6), 0.1, 1.0))
    for kind, L, bounds, f, sc in guards:
        nb = KINDS[kind][3]
        rows = [[True] * nb]
        r, smp = drive_sampler(kind, L, bounds, f, sc, rows)
        run.case(("sampler-guard", kind, L, tuple(bounds), f, repr(sc)), nontrivial=True)
        run.count("sampler_guard_outcome", r["failure"] or "accepted")
        inp = dict(kind=kind, acceptation_history_length=L, bounds=list(bounds), adaptive_std_factor=f,
                   scale=sc if isinstance(sc, float) else sc.reshape(-1).tolist(), rows=["1" * nb])
        if len(bounds) != 2:
            if r["failure"] != "InputError":
                run.fail("std:bounds-guard", "bounds of length 3 are not refused with an input error", inp, observed=r["exc"])
            continue
        raw = [frac(v) for v in torch.as_tensor(sc, dtype=torch.float32).reshape(-1).tolist()]
        # a refusal is decided on the raw scale entries; otherwise the model gets the per-block validated scale
        scales = raw if r["stage"] == "init" else block_scales(kind, sc)
        cases.append(sampler_case(r, sf_of[KINDS[kind][1]], scales, rows, frac(bounds[0]), frac(bounds[1]), frac(f)))
        meta.append(inp)
        want_refused = not (0 < bounds[0] < bounds[1] < 1) or not (0 < f < 1) or any(x <= 0 for x in raw)
        if L >= 0 and want_refused != (r["failure"] == "InputError" and r["stage"] == "init"):
            run.fail("std:constructor-guard", "constructor guard differs from: refused iff not (0 < lo < hi < 1, 0 < f < 1, scale > 0)", inp,
                     expected="refused" if want_refused else "accepted", observed=r["exc"] or "accepted")
    bad = run.vm_bad_indices("sampler", SAMPLER_HDR, SAMPLER_T, cases, "check_sampler", shard=12)
    for i in bad or []:
        run.fail("std:model-disagrees", "scales / counter / window / failure class of the real sampler differ from the model run on the same "
                 "acceptance history", meta[i])
    run.extra["sampler_cases_compared_in_coq"] = len(cases)


def check(run: Run):
    check_anneal(run)
    check_samplers(run)


def main(run: Run):
    ok_t = translate(run)
    ok_p = run.prove("C19", OBLIGATIONS) if ok_t else False
    run.rule = ("annealing: exhaustive grid n_iter x annealing n_iter (8 counts or 3 fractions) x T0 in {1.5,2,5,10} x n_plateau 1..12 on the real "
                "TensorMcmcSaemAlgorithm (constructor, _initialize_annealing, then _update_temperature for k=1..n_iter) plus directed guard / "
                "typing / default configurations; non-trivial = accepted configuration with at least one plateau boundary or a failing run.")
    run.explanation = ("Theorems (Coq, unbounded in the number of iterations / configuration / acceptance history) on models whose decision "
                       "rules are regenerated from the source by symbolic execution of the Python AST and proved equal to the hand-written "
                       "model; the implementation is run on the same configurations and its temperatures are compared inside Coq "
                       "(vm_compute) bit-for-bit with a PrimFloat twin and within 1e-12 with the exact model, failure classes equal.")
    run.assumptions += [
        "annealing.n_plateau is a Python int (anything else is refused by isinstance, checked on the implementation)",
        "oscillations are off (default scheme)",
        "binary64 rounding is outside the theorems (exact rationals); the PrimFloat twin is evaluated, not reasoned about",
    ]
    try:
        check(run)
    except Exception as e:  # noqa
        import traceback
        run.broken("search", f"{type(e).__name__}: {e}\n{traceback.format_exc()[-1500:]}")
    return run.finish()


def replay(run: Run, path: str):
    """Re-run one recorded configuration on the current tree and print what happens."""
    from harness.common import use_impl
    use_impl()
    d = json.load(open(path))
    inp = d.get("input") or {}
    if not isinstance(inp, dict) or "annealing" not in inp:
        print("replay: this file records a broken obligation, re-run the check itself:", [b["name"] for b in d.get("broken", [])])
        return main(run)
    r = impl_trace(int(inp["n_iter"]), inp["annealing"])
    print("configuration:", inp)
    print("outcome:", r["exc"] or "completes", "| stage:", r["stage"], "| temperatures:", [float(t) for t, _ in r["reached"]])
    before = len(run._fails) + len(run._known_hit)
    oracle_anneal(run, r, int(inp["n_iter"]))
    bad = len(run._fails) + len(run._known_hit) > before
    print("REPLAY", "FAILS" if bad else "passes")
    return 1 if bad else 0
