"""Recorder of `State` operations and random-number-generator calls (shared device of C11 and C13).

    with Recorder() as rec:
        model.fit(...)
    rec.events   # [{"k": "get", "sid": 0, "var": "xi", "depth": 0, "ctx": ("observer",)} , {"k": "rng", "fn": "torch.randn", ...}]

Wrap, never replace: every wrapper calls the original and returns its result unchanged; everything is restored in
`__exit__` (a `finally`).  What is wrapped

* `State.__getitem__/__setitem__/put/revert/clone/precompute_all/save/is_variable_set` and the `StatefulModel.state`
  setter (`model.state = s` -> event "replace");
* `torch.rand/randn/normal/randint/randperm/multinomial/bernoulli/poisson/rand_like/randn_like/manual_seed/seed`,
  `torch.Tensor.normal_/uniform_/random_/bernoulli_/exponential_/cauchy_/geometric_/log_normal_`;
* every public callable of `numpy.random` that is a method of the global `RandomState` (normal, seed, shuffle, ...);
* `random.seed/random/shuffle/uniform/gauss/randint/randrange/choice/sample/...` (module-level bound methods);
  names imported with `from random import shuffle` inside leaspy modules are found by identity and wrapped too.

Interception of *calls* cannot see C-level consumers (scipy's `beta.rvs` talks to the RandomState object directly), so
the recorder also takes **digests of the three generator states** (`rng_digest()`): "zero extra RNG calls" is decided on
digests taken at the entry and exit of every observer call, not on the intercepted calls alone.

State ids: small integers in order of first appearance; the recorder keeps a strong reference to every `State` it has
seen, so that `id()` values are never reused during a recording.
"""
from __future__ import annotations

import hashlib
import random as _random
import sys
import types

CTX_OBSERVER = "observer"

_TORCH_FUNCS = ["rand", "randn", "normal", "randint", "randperm", "multinomial", "bernoulli", "poisson",
                "rand_like", "randn_like", "randint_like", "manual_seed", "seed"]
_TENSOR_METHODS = ["normal_", "uniform_", "random_", "bernoulli_", "exponential_", "cauchy_", "geometric_", "log_normal_"]
_PY_FUNCS = ["seed", "random", "shuffle", "uniform", "gauss", "normalvariate", "randint", "randrange", "choice", "choices",
             "sample", "betavariate", "expovariate", "gammavariate", "lognormvariate", "triangular", "getrandbits",
             "vonmisesvariate", "paretovariate", "weibullvariate", "randbytes"]
_STATE_METHODS = {"__getitem__": "get", "__setitem__": "set", "put": "put", "revert": "revert", "clone": "clone",
                  "precompute_all": "precompute_all", "save": "save", "is_variable_set": "isset"}
SEED_FUNCS = {"random.seed": "py", "numpy.random.seed": "np", "torch.manual_seed": "torch"}


def rng_digest() -> str:
    """Digest of the states of python's `random`, numpy's global RandomState and torch's default CPU generator."""
    import numpy as np
    import torch
    h = hashlib.sha1()
    h.update(repr(_random.getstate()).encode())
    st = np.random.get_state()
    h.update(repr((st[0], st[2], st[3], st[4])).encode())
    h.update(st[1].tobytes())
    h.update(torch.get_rng_state().numpy().tobytes())
    return h.hexdigest()


def rng_digests() -> dict:
    import numpy as np
    import torch
    st = np.random.get_state()
    return dict(
        py=hashlib.sha1(repr(_random.getstate()).encode()).hexdigest()[:16],
        np=hashlib.sha1(st[1].tobytes() + repr((st[2], st[3], st[4])).encode()).hexdigest()[:16],
        torch=hashlib.sha1(torch.get_rng_state().numpy().tobytes()).hexdigest()[:16],
    )


class Recorder:
    def __init__(self, state_ops: bool = True, rng: bool = True, observers: bool = True):
        self.events: list[dict] = []
        self._want_state, self._want_rng, self._want_obs = state_ops, rng, observers
        self._undo: list = []
        self._sids: dict[int, int] = {}
        self._keep: list = []
        self._depth = 0
        self._ctx: list[str] = []
        self.marks: list[tuple[int, str]] = []

    # ---------------------------------------------------------------- helpers
    def sid(self, st) -> int:
        i = self._sids.get(id(st))
        if i is None:
            i = len(self._sids)
            self._sids[id(st)] = i
            self._keep.append(st)
        return i

    def mark(self, label: str):
        """A labelled position in the event list (e.g. start of a public call)."""
        self.marks.append((len(self.events), label))

    def _emit(self, **e):
        e["depth"] = self._depth
        e["ctx"] = tuple(self._ctx)
        self.events.append(e)
        return e

    def _patch(self, obj, name, new):
        old = obj.__dict__[name] if isinstance(obj, type) and name in obj.__dict__ else getattr(obj, name)
        self._undo.append((obj, name, old))
        setattr(obj, name, new)

    # ---------------------------------------------------------------- wrappers
    def _wrap_state_method(self, cls, meth, kind):
        orig = cls.__dict__[meth]
        rec = self

        def wrapper(self_, *a, **kw):
            e = rec._emit(k=kind, sid=rec.sid(self_), var=(a[0] if a and isinstance(a[0], str) else None))
            if kind == "set":
                e["unset"] = (len(a) > 1 and a[1] is None)
            if kind == "revert":
                e["partial"] = bool(a) and a[0] is not None or kw.get("subset") is not None
            rec._depth += 1
            try:
                out = orig(self_, *a, **kw)
            finally:
                rec._depth -= 1
            if kind == "clone":
                e["child"] = rec.sid(out)
                e["disable_auto_fork"] = bool(kw.get("disable_auto_fork", False))
            if kind == "isset":
                e["result"] = bool(out)
            return out

        wrapper.__name__ = meth
        wrapper.__wrapped__ = orig
        self._patch(cls, meth, wrapper)

    def _wrap_rng(self, holder, name, label):
        orig = getattr(holder, name)
        rec = self

        def wrapper(*a, **kw):
            rec._emit(k="rng", fn=label)
            return orig(*a, **kw)

        try:
            wrapper.__name__ = getattr(orig, "__name__", name)
        except Exception:
            pass
        wrapper.__wrapped__ = orig
        self._patch(holder, name, wrapper)
        return orig, wrapper

    def _wrap_tensor_method(self, torch, name):
        orig = getattr(torch.Tensor, name)
        rec = self

        def wrapper(self_, *a, **kw):
            rec._emit(k="rng", fn=f"torch.Tensor.{name}")
            return orig(self_, *a, **kw)

        wrapper.__name__ = name
        self._patch(torch.Tensor, name, wrapper)

    # ---------------------------------------------------------------- context manager
    def __enter__(self):
        try:
            self._install()
        except Exception:
            self._restore()
            raise
        return self

    def _install(self):
        import numpy as np
        import torch
        from leaspy.variables.state import State
        from leaspy.models.stateful import StatefulModel
        if self._want_state:
            for meth, kind in _STATE_METHODS.items():
                if meth in State.__dict__:
                    self._wrap_state_method(State, meth, kind)
            prop = StatefulModel.__dict__.get("state")
            if isinstance(prop, property) and prop.fset is not None:
                rec = self

                def fset(model, s, _orig=prop.fset):
                    rec._emit(k="replace", sid=rec.sid(s), var=None,
                              prev=(rec.sid(model._state) if getattr(model, "_state", None) is not None else None))
                    return _orig(model, s)

                self._undo.append((StatefulModel, "state", prop))
                StatefulModel.state = property(prop.fget, fset, prop.fdel, prop.__doc__)
        if self._want_obs:
            try:
                from leaspy.algo.fit.fit_output_manager import FitOutputManager
                orig_it = FitOutputManager.__dict__["iteration"]
                rec = self

                def iteration(self_, algo, *a, **kw):
                    rec._ctx.append(CTX_OBSERVER)
                    rec._emit(k="obs_enter", it=getattr(algo, "current_iteration", None), digest=rng_digest())
                    try:
                        return orig_it(self_, algo, *a, **kw)
                    finally:
                        rec._emit(k="obs_exit", it=getattr(algo, "current_iteration", None), digest=rng_digest())
                        rec._ctx.pop()

                self._patch(FitOutputManager, "iteration", iteration)
            except ImportError:
                pass
        if self._want_rng:
            pairs = []
            for n in _TORCH_FUNCS:
                if hasattr(torch, n):
                    pairs.append(self._wrap_rng(torch, n, f"torch.{n}"))
            for n in _TENSOR_METHODS:
                if hasattr(torch.Tensor, n):
                    self._wrap_tensor_method(torch, n)
            glob = np.random.mtrand._rand
            for n in dir(np.random):
                f = getattr(np.random, n)
                if n.startswith("_") or n in ("get_state", "set_state", "default_rng") or isinstance(f, type) or not callable(f):
                    continue
                if (isinstance(f, types.BuiltinFunctionType) and getattr(f, "__self__", None) is glob) or n in ("seed", "ranf", "sample"):
                    pairs.append(self._wrap_rng(np.random, n, f"numpy.random.{n}"))
            for n in _PY_FUNCS:
                if hasattr(_random, n):
                    pairs.append(self._wrap_rng(_random, n, f"random.{n}"))
            # names bound with `from random import shuffle` & co inside the implementation
            by_id = {id(o): w for o, w in pairs}
            for mname, mod in list(sys.modules.items()):
                if mod is None or not (mname == "leaspy" or mname.startswith("leaspy.")):
                    continue
                for gname, gval in list(vars(mod).items()):
                    w = by_id.get(id(gval))
                    if w is not None and gval is not w:
                        self._undo.append((mod, gname, gval))
                        setattr(mod, gname, w)

    def _restore(self):
        while self._undo:
            obj, name, old = self._undo.pop()
            try:
                setattr(obj, name, old)
            except Exception:  # pragma: no cover
                pass

    def __exit__(self, *exc):
        self._restore()
        return False

    # ---------------------------------------------------------------- views
    def primitive(self, lo: int = 0, hi: int | None = None):
        """Primitive events of a slice: nested helper calls (`put`, `save` internals stay as their own get/set events)."""
        return self.events[lo:hi]


def renumber(proj):
    """Rename state ids by order of first appearance (so that traces with and without erased segments compare)."""
    ren: dict[int, int] = {}

    def r(i):
        if i not in ren:
            ren[i] = len(ren)
        return ren[i]
    out = []
    for t in proj:
        if t[0] == "rng":
            out.append(t)
        elif t[0] == "clone":
            a = r(t[1])
            out.append(("clone", a, r(t[2])))
        else:
            out.append((t[0], r(t[1]), t[2]))
    return out


def project(events, classify, *, drop_derived_gets=True, keep_rng=True):
    """Projection used by the trace correspondences: a list of tuples

        ("get"|"set"|"unset"|"revert"|"clone"|"save"|"replace", sid, var)   or   ("rng", label)

    `put`, `precompute_all`, `isset`, observer markers are dropped (their nested get/set events remain);
    `get`s nested inside a `save` are kept (a save *is* its reads);  reads of derived variables are dropped when
    `drop_derived_gets` (they are pure by the cache theorem, C01).  `classify(var)` gives the variable class."""
    out = []
    for e in events:
        k = e["k"]
        if k == "rng":
            if keep_rng:
                out.append(("rng", e["fn"]))
            continue
        if k in ("put", "precompute_all", "isset", "obs_enter", "obs_exit"):
            continue
        if k == "get":
            if drop_derived_gets and classify(e["var"]) == "derived":
                continue
            out.append(("get", e["sid"], e["var"]))
        elif k == "set":
            out.append(("unset" if e.get("unset") else "set", e["sid"], e["var"]))
        elif k == "clone":
            out.append(("clone", e["sid"], e["child"]))
        elif k in ("revert", "save", "replace"):
            out.append((k, e["sid"], None))
    return out
