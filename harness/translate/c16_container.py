"""C16 — T1: regenerate coq/gen/GenC16.v from the python `ast` of src/leaspy/io/outputs/individual_parameters.py.

What is read from the source (class `IndividualParameters`), and where it goes (vocabulary of coq/theories/Io/IndivParamsSrc.v):

* `add_individual_parameters`  -> `gen_add : list astep` (the statements in the order of the source: identifier is a `str`, identifier not
                                  already in <attribute>, value is a dict, ndarray -> list, scalar-type test, shape dict, shape test /
                                  first-entry bookkeeping, append to the index list, store the entry) with the exception class of every
                                  `raise`, and `gen_types : type_table` (the literal list of accepted types, whether the test is
                                  `type(x) [not] in L` or `isinstance(x, L)`, what is tested for a list)
* `to_dataframe`               -> `gen_df_rows_from` (what the row loop iterates), `gen_col_rule` (one plain column iff shape == <tuple> and
                                  <text> not in the name, else name + <sep> + str(i))
* `from_dataframe`             -> `gen_split_rule` (`split(sep)[0]` / `rsplit(sep, 1)[0]`), built with add_individual_parameters
* `to_pytorch`, `_parameters_size` -> `gen_torch_iter` (what the row comprehension iterates, what is returned as identifiers)
* `subset`, `__getitem__`      -> `gen_subset_rule`
* `_save_json`, `_load_json`   -> `gen_json_members`, and the `DirectFill` table of `gen_builders`
* `from_pytorch`, `_load_csv`, `load`, `__init__` -> `gen_builders`, `gen_load_dispatch`
* `save`, `_check_and_get_extension`, `_save_csv`, `__init__` -> `gen_save_rule` (default extension, the extensions that select each writer)
* every attribute store of the class -> `gen_attributes` (the attributes an instance carries), `gen_writers` (the methods that modify them)

Method: each method is UNIFIED with a template written below (python source with holes `HOLE_x`): same statements, same calls,
same constants, local variables up to consistent renaming; the holes are the decisions listed above and are decoded by small total
functions.  Anything else — an extra statement, another call, a hole whose content is not in the vocabulary — raises
`Untranslatable` and the check reports a broken translation; nothing is guessed.
"""
from __future__ import annotations

import ast
import copy

from harness.common import Run, SRC
from harness.translate.pysym import Untranslatable, dotted

REL = "io/outputs/individual_parameters.py"
CLASS = "IndividualParameters"
INPUT_ERROR = "LeaspyIndividualParamsInputError"

HEADER = """(* REGENERATED on every run from $VERIF_REPO/src/leaspy/io/outputs/individual_parameters.py by
   harness/translate/c16_container.py — do not edit *)
From Coq Require Import List String Ascii.
From Leaspy Require Import Io.IndivParams Io.IndivParamsSrc.
Import ListNotations.
Local Open Scope string_scope.
"""


# ----------------------------------------------------------------------------- unification of a method with a template


def _strip(fn: ast.FunctionDef) -> ast.FunctionDef:
    """Docstrings and annotations carry no behaviour: drop them (on a copy)."""
    fn = copy.deepcopy(fn)

    class T(ast.NodeTransformer):
        def visit_AnnAssign(self, node):
            self.generic_visit(node)
            if node.value is None:
                raise Untranslatable("bare annotation " + ast.unparse(node))
            return ast.copy_location(ast.Assign(targets=[node.target], value=node.value), node)

        def visit_arg(self, node):
            node.annotation = None
            return node

    fn = T().visit(fn)
    fn.returns = None
    body = fn.body
    if body and isinstance(body[0], ast.Expr) and isinstance(body[0].value, ast.Constant) and isinstance(body[0].value.value, str):
        body = body[1:]
    fn.body = body
    fn.decorator_list = []
    return fn


def _local_names(node) -> set:
    out = set()
    for sub in ast.walk(node):
        if isinstance(sub, ast.Name) and isinstance(sub.ctx, ast.Store):
            out.add(sub.id)
        elif isinstance(sub, ast.Lambda):
            out |= {a.arg for a in sub.args.args}
    return out


class Unifier:
    """ref (template) against src: equal up to a bijective renaming of the template's local variables; `HOLE_x` names of the
    template bind any expression of the source (the same hole twice: the same expression)."""

    def __init__(self, rlocals: set, shared: dict | None = None):
        self.rlocals = rlocals
        self.lmap: dict[str, str] = dict(shared or {})
        self.holes: dict[str, ast.AST] = {}

    def fail(self, ref, src, why=""):
        r = ast.unparse(ref)[:70] if isinstance(ref, ast.AST) else repr(ref)
        s = ast.unparse(src)[:70] if isinstance(src, ast.AST) else repr(src)
        raise Untranslatable(f"expected `{r}` found `{s}` {why}")

    def name(self, rid: str, sid: str, ref, src):
        if rid in self.rlocals:
            if rid in self.lmap:
                if self.lmap[rid] != sid:
                    self.fail(ref, src, "(local variable used inconsistently)")
            else:
                if sid in self.lmap.values():
                    self.fail(ref, src, "(two template locals on one source name)")
                self.lmap[rid] = sid
        elif rid != sid:
            self.fail(ref, src)

    def go(self, ref, src):
        if isinstance(ref, ast.Name) and ref.id.startswith("HOLE_"):
            if not isinstance(src, ast.expr):
                self.fail(ref, src)
            if ref.id in self.holes and ast.dump(self.holes[ref.id]) != ast.dump(src):
                self.fail(self.holes[ref.id], src, f"(second occurrence of {ref.id})")
            self.holes[ref.id] = src
            return
        if type(ref) is not type(src):
            self.fail(ref, src)
        if isinstance(ref, ast.Name):
            self.name(ref.id, src.id, ref, src)
            return
        if isinstance(ref, ast.arg):
            self.name(ref.arg, src.arg, ref, src)
            return
        for f in ref._fields:
            if f in ("type_comment", "kind", "ctx"):
                continue
            a, b = getattr(ref, f, None), getattr(src, f, None)
            if isinstance(a, list):
                if not isinstance(b, list) or len(a) != len(b):
                    self.fail(ref, src, f"({f}: {len(a)} vs {len(b) if isinstance(b, list) else '?'} items)")
                for x, y in zip(a, b):
                    self.pair(x, y, ref, src)
            else:
                self.pair(a, b, ref, src)

    def pair(self, a, b, ref, src):
        if isinstance(a, ast.AST):
            if not isinstance(b, ast.AST):
                self.fail(ref, src)
            self.go(a, b)
        elif type(a) is not type(b) or a != b:        # constants: 1 is not True, 1 is not 1.0
            self.fail(ref, src)


def _template(text: str) -> ast.FunctionDef:
    fn = ast.parse(text).body[0]
    assert isinstance(fn, ast.FunctionDef)
    return _strip(fn)


def unify_method(methods: dict, name: str, template: str) -> Unifier:
    if name not in methods:
        raise Untranslatable(f"no method {name}")
    ref, src = _template(template), _strip(methods[name])
    u = Unifier(_local_names(ref))
    try:
        u.go(ref.args, src.args)
        if len(ref.body) != len(src.body):
            raise Untranslatable(f"{len(src.body)} statements, expected {len(ref.body)}")
        for r, s in zip(ref.body, src.body):
            u.go(r, s)
    except Untranslatable as e:
        raise Untranslatable(f"{name}: {e}") from None
    return u


# ----------------------------------------------------------------------------- decoders of holes


def coq_str(s: str) -> str:
    if not isinstance(s, str) or any(ord(c) > 126 or ord(c) < 32 for c in s):
        raise Untranslatable(f"text outside printable ascii: {s!r}")
    return '"' + s.replace('"', '""') + '"'


def dec_str(node) -> str:
    if isinstance(node, ast.Constant) and isinstance(node.value, str):
        return node.value
    raise Untranslatable("expected a string literal, found " + ast.unparse(node))


def dec_id_source(node, obj="self") -> str:
    """`self._indices` | `self._individual_parameters` [.keys()] | any other attribute of the object."""
    if isinstance(node, ast.Call) and isinstance(node.func, ast.Attribute) and node.func.attr == "keys" and not node.args and not node.keywords:
        inner = dec_id_source(node.func.value, obj)
        if inner != "SrcParamKeys":
            raise Untranslatable("keys() of " + ast.unparse(node.func.value))
        return inner
    d = dotted(node)
    if d == f"{obj}._indices":
        return "SrcIndices"
    if d == f"{obj}._individual_parameters":
        return "SrcParamKeys"
    if d and d.startswith(obj + ".") and d.count(".") == 1:
        return f"(SrcPrivate {coq_str(d.split('.')[1])})"
    raise Untranslatable("not an attribute holding identifiers: " + ast.unparse(node))


PURE_CALLS = {"type", "len", "str", "repr", "list", "sorted", "tuple"}


def dec_exc(node) -> str:
    """`Cls(<message>)` -> ExcInput | ExcOther; the message must not be able to do anything."""
    if not (isinstance(node, ast.Call) and isinstance(node.func, ast.Name) and not node.keywords):
        raise Untranslatable("raise of " + ast.unparse(node)[:60])
    for a in node.args:
        for sub in ast.walk(a):
            if isinstance(sub, ast.Call) and dotted(sub.func) not in PURE_CALLS:
                raise Untranslatable("call inside an error message: " + ast.unparse(sub)[:60])
            if isinstance(sub, (ast.NamedExpr, ast.Await, ast.Yield, ast.YieldFrom, ast.Lambda)):
                raise Untranslatable("construct inside an error message: " + type(sub).__name__)
    return "ExcInput" if node.func.id == INPUT_ERROR else "ExcOther"


TYPES = {"int": "TyInt", "float": "TyFloat", "np.int32": "TyNpInt32", "np.int64": "TyNpInt64", "np.float32": "TyNpFloat32",
         "np.float64": "TyNpFloat64", "numpy.int32": "TyNpInt32", "numpy.int64": "TyNpInt64", "numpy.float32": "TyNpFloat32",
         "numpy.float64": "TyNpFloat64", "bool": "TyBool", "str": "TyStr", "list": "TyList", "np.ndarray": "TyNdarray",
         "numpy.ndarray": "TyNdarray"}


def dec_types(node) -> list:
    if not isinstance(node, (ast.List, ast.Tuple)):
        raise Untranslatable("the accepted types are not a literal list: " + ast.unparse(node)[:60])
    out = []
    for e in node.elts:
        d = dotted(e)
        if d not in TYPES:
            raise Untranslatable(f"type {ast.unparse(e)} is outside the vocabulary")
        out.append(TYPES[d])
    return out


def dec_shape(node) -> str:
    if isinstance(node, ast.Tuple) and all(isinstance(e, ast.Constant) and type(e.value) is int and 0 <= e.value < 1000 for e in node.elts):
        return "[" + "; ".join(f"{e.value}%nat" for e in node.elts) + "]"
    raise Untranslatable("expected a literal shape tuple, found " + ast.unparse(node))


def dec_sep_char(s: str) -> str:
    if len(s) != 1:
        raise Untranslatable(f"separator {s!r} is not one character")
    return coq_str(s) + "%char"


def dec_split(node, name: str) -> str:
    """`name.split(sep)[0]`, `name.split(sep, 1)[0]`, `name.partition(sep)[0]` -> SplitFirst; `name.rsplit(sep, 1)[0]` -> RSplitLast."""
    if not (isinstance(node, ast.Subscript) and isinstance(node.slice, ast.Constant) and type(node.slice.value) is int
            and node.slice.value == 0 and isinstance(node.value, ast.Call) and isinstance(node.value.func, ast.Attribute)
            and isinstance(node.value.func.value, ast.Name) and node.value.func.value.id == name and not node.value.keywords
            and node.value.args):
        raise Untranslatable("grouping key " + ast.unparse(node))
    call = node.value
    meth, args = call.func.attr, call.args
    sep = dec_sep_char(dec_str(args[0]))
    count = None
    if len(args) == 2:
        if not (isinstance(args[1], ast.Constant) and type(args[1].value) is int):
            raise Untranslatable("grouping key " + ast.unparse(node))
        count = args[1].value
    elif len(args) != 1:
        raise Untranslatable("grouping key " + ast.unparse(node))
    if meth == "split" and (count is None or count >= 1):
        return f"SplitFirst {sep}"
    if meth == "partition" and count is None:
        return f"SplitFirst {sep}"
    if meth == "rsplit" and count == 1:
        return f"RSplitLast {sep}"
    raise Untranslatable("grouping key " + ast.unparse(node))


FIELDS = {"_indices": "FIndices", "_individual_parameters": "FParams", "_parameters_shape": "FShapes"}


# ----------------------------------------------------------------------------- add_individual_parameters


def _stmt(text: str):
    return _strip(ast.parse("def f():\n" + "\n".join("    " + ln for ln in text.strip("\n").splitlines())).body[0]).body[0]


ADD_STEPS = [
    ("id-str", "if not isinstance(index, HOLE_T):\n    raise HOLE_EXC"),
    ("id-fresh", "if index in HOLE_SRC:\n    raise HOLE_EXC"),
    ("is-dict", "if not isinstance(individual_parameters, dict):\n    raise HOLE_EXC"),
    ("tolist", "individual_parameters = {k: v.tolist() if isinstance(v, np.ndarray) else v for k, v in individual_parameters.items()}"),
    ("types-exact", """
for k, v in individual_parameters.items():
    valid_scalar_types = HOLE_TYPES
    scalar_type = type(v)
    if isinstance(v, list):
        scalar_type = None if len(v) == 0 else type(v[0])
    if scalar_type not in valid_scalar_types:
        raise HOLE_EXC
"""),
    ("types-exact", """
for k, v in individual_parameters.items():
    scalar_type = type(v)
    if isinstance(v, list):
        scalar_type = None if len(v) == 0 else type(v[0])
    if scalar_type not in HOLE_TYPES:
        raise HOLE_EXC
"""),
    ("types-isinstance", """
for k, v in individual_parameters.items():
    valid_scalar_types = HOLE_TYPES
    scalar = v
    if isinstance(v, list):
        scalar = None if len(v) == 0 else v[0]
    if not isinstance(scalar, tuple(valid_scalar_types)):
        raise HOLE_EXC
"""),
    ("types-isinstance", """
for k, v in individual_parameters.items():
    valid_scalar_types = HOLE_TYPES
    scalar = v
    if isinstance(v, list):
        scalar = None if len(v) == 0 else v[0]
    if not isinstance(scalar, valid_scalar_types):
        raise HOLE_EXC
"""),
    ("types-isinstance", """
for k, v in individual_parameters.items():
    scalar = v
    if isinstance(v, list):
        scalar = None if len(v) == 0 else v[0]
    if not isinstance(scalar, HOLE_TYPES):
        raise HOLE_EXC
"""),
    ("shapes", "pshapes = {p: (len(v),) if isinstance(v, list) else () for p, v in individual_parameters.items()}"),
    ("chk-shapes", "if self._parameters_shape is None:\n    self._parameters_shape = pshapes\nelif self._parameters_shape != pshapes:\n    raise HOLE_EXC"),
    ("push", "self._indices.append(index)"),
    ("store", "self._individual_parameters[index] = individual_parameters"),
]
SHARED_LOCALS = {"pshapes"}          # the only local that lives across statements


def translate_add(methods: dict, idtype_is_str: bool):
    fn = _strip(methods["add_individual_parameters"])
    if [a.arg for a in fn.args.args] != ["self", "index", "individual_parameters"] or fn.args.vararg or fn.args.kwarg \
            or fn.args.kwonlyargs or fn.args.defaults:
        raise Untranslatable("add_individual_parameters: signature")
    steps, table, shared = [], None, {}
    for st in fn.body:
        errs = []
        for kind, text in ADD_STEPS:
            ref = _stmt(text)
            u = Unifier(_local_names(ref), {k: v for k, v in shared.items()})
            try:
                u.go(ref, st)
            except Untranslatable as e:
                errs.append(str(e))
                continue
            break
        else:
            raise Untranslatable("add_individual_parameters: statement `" + ast.unparse(st)[:90].replace("\n", " ") + "` has none of the known forms")
        for k in SHARED_LOCALS:
            if k in u.lmap:
                shared[k] = u.lmap[k]
        h = u.holes
        if kind == "id-str":
            t = dotted(h["HOLE_T"])
            if not (t == "str" or (t == "IDType" and idtype_is_str)):
                raise Untranslatable("identifier type test against " + ast.unparse(h["HOLE_T"]))
            steps.append(f"AChkIdStr {dec_exc(h['HOLE_EXC'])}")
        elif kind == "id-fresh":
            steps.append(f"AChkIdFresh {dec_id_source(h['HOLE_SRC'])} {dec_exc(h['HOLE_EXC'])}")
        elif kind == "is-dict":
            steps.append(f"AChkIsDict {dec_exc(h['HOLE_EXC'])}")
        elif kind == "tolist":
            steps.append("AToList")
        elif kind in ("types-exact", "types-isinstance"):
            if table is not None:
                raise Untranslatable("two scalar-type tests")
            table = ("ExactType" if kind == "types-exact" else "IsInstance", dec_types(h["HOLE_TYPES"]), "FirstElement")
            steps.append(f"AChkTypes {dec_exc(h['HOLE_EXC'])}")
        elif kind == "shapes":
            steps.append("AShapes")
        elif kind == "chk-shapes":
            steps.append(f"AChkShapes {dec_exc(h['HOLE_EXC'])}")
        elif kind == "push":
            steps.append("APushIndex")
        elif kind == "store":
            steps.append("AStoreEntry")
    if table is None:
        raise Untranslatable("add_individual_parameters: no scalar-type test")
    return steps, table


# ----------------------------------------------------------------------------- the other methods

T_INIT = '''
def __init__(self):
    self._indices = []
    self._individual_parameters = {}
    self._parameters_shape = None
    self._default_saving_type = HOLE_DEFAULT
'''

T_SAVE = '''
def save(self, path, **kwargs):
    if self._parameters_shape is None:
        raise HOLE_EXC0
    extension = self._check_and_get_extension(path)
    if extension is None:
        warnings.warn(HOLE_MSG)
        extension = self._default_saving_type
        path = path + "." + extension
    if extension == HOLE_CSV:
        self._save_csv(path, **kwargs)
    elif extension == HOLE_JSON:
        self._save_json(path, **kwargs)
    else:
        raise HOLE_EXC
'''

T_GET_EXT = '''
def _check_and_get_extension(path):
    _, ext = os.path.splitext(path)
    if len(ext) == 0:
        return None
    else:
        return ext[1:]
'''

T_PARAM_SIZE = '''
def _parameters_size(self):
    shape_to_size = lambda shape: functools.reduce(operator.mul, shape, 1)
    return {p: shape_to_size(s) for p, s in self._parameters_shape.items()}
'''

T_GETITEM = '''
def __getitem__(self, item):
    if not isinstance(item, HOLE_T):
        raise HOLE_EXC1
    if item not in HOLE_READ:
        raise HOLE_EXC2
    return self._individual_parameters[item]
'''

T_SUBSET = '''
def subset(self, indices, *, copy=True):
    ip = IndividualParameters()
    unknown_ix = [ix for ix in indices if ix not in HOLE_MEMBER]
    if len(unknown_ix) > 0:
        raise HOLE_EXC
    for idx in indices:
        p = self[idx]
        if copy:
            p = p.copy()
        ip.add_individual_parameters(idx, p)
    return ip
'''

T_TO_DF = '''
def to_dataframe(self):
    arr = []
    for idx in HOLE_ROWS:
        indiv_arr = [idx]
        indiv_p = self._individual_parameters[idx]
        for p_name, p_shape in self._parameters_shape.items():
            if p_shape == ():
                indiv_arr.append(indiv_p[p_name])
            else:
                indiv_arr += indiv_p[p_name]
        arr.append(indiv_arr)
    final_names = ["ID"]
    for p_name, p_shape in self._parameters_shape.items():
        if p_shape == HOLE_PLAINSHAPE and HOLE_UNLESS not in p_name:
            final_names.append(p_name)
        else:
            final_names += [p_name + HOLE_SEP + str(i) for i in range(p_shape[0])]
    df = pd.DataFrame(arr, columns=final_names)
    return df.set_index("ID")
'''

T_FROM_DF = '''
def from_dataframe(df):
    df_names = list(df.columns.values)
    final_names = {}
    for name in df_names:
        split = HOLE_KEY
        if split == name:
            final_names[name] = name
        else:
            if split not in final_names:
                final_names[split] = []
            final_names[split].append(name)
    ip = IndividualParameters()
    for idx, row in df.iterrows():
        i_d = {param: np.array(row[col].tolist()) if isinstance(col, list) else np.array([row[col]]) for param, col in final_names.items()}
        ip.add_individual_parameters(idx, i_d)
    return ip
'''

T_FROM_TORCH = '''
def from_pytorch(indices, dict_pytorch):
    len_p = {k: len(v) for k, v in dict_pytorch.items()}
    for k, v in len_p.items():
        if v != len(indices):
            raise HOLE_EXC
    ip = IndividualParameters()
    keys = list(dict_pytorch.keys())
    for i, idx in enumerate(indices):
        p = {k: dict_pytorch[k][i].tolist() for k in keys}
        ip.add_individual_parameters(idx, p)
    return ip
'''

T_TO_TORCH = '''
def to_pytorch(self):
    ips_pytorch = {}
    for p_name, p_size in self._parameters_size.items():
        p_val = [self._individual_parameters[idx][p_name] for idx in HOLE_ROWS]
        p_val = torch.tensor(p_val, dtype=torch.float32)
        p_val = p_val.reshape(shape=(len(HOLE_LEN), p_size))
        ips_pytorch[p_name] = p_val
    return HOLE_IDS, ips_pytorch
'''

T_SAVE_JSON = '''
def _save_json(self, path, **kwargs):
    json_data = HOLE_MEMBERS
    kwargs = {"indent": 2, **kwargs}
    with open(path, "w") as f:
        json.dump(json_data, f, **kwargs)
'''

T_SAVE_CSV = '''
def _save_csv(self, path, **kwargs):
    df = self.to_dataframe()
    df.to_csv(path, **kwargs)
'''

T_LOAD_CSV = '''
def _load_csv(cls, path):
    df = pd.read_csv(path, dtype={"ID": HOLE_T}, float_precision="round_trip").set_index("ID")
    ip = cls.from_dataframe(df)
    return ip
'''

T_LOAD = '''
def load(cls, path):
    extension = cls._check_and_get_extension(path)
    if extension not in cls.VALID_IO_EXTENSIONS:
        raise HOLE_EXC
    if extension == HOLE_EXT:
        ip = cls._load_csv(path)
    else:
        ip = cls._load_json(path)
    return ip
'''

T_LOAD_JSON_HEAD = '''
def _load_json(cls, path):
    with open(path, "r") as f:
        json_data = json.load(f)
    ip = cls()
'''


DECORATORS = {"_parameters_size": ["property"], "from_dataframe": ["staticmethod"], "from_pytorch": ["staticmethod"],
              "load": ["classmethod"], "_check_and_get_extension": ["staticmethod"], "_load_csv": ["classmethod"],
              "_load_json": ["classmethod"]}          # every other method: none


def decorators(fn) -> list:
    return [dotted(d) for d in fn.decorator_list]


def translate_load_json(methods: dict):
    fn = _strip(methods["_load_json"])
    ref = _template(T_LOAD_JSON_HEAD)
    u = Unifier(_local_names(ref))
    u.go(ref.args, fn.args)
    if len(fn.body) < len(ref.body) + 1:
        raise Untranslatable("_load_json: too short")
    for r, s in zip(ref.body, fn.body):
        u.go(r, s)
    ip, data = u.lmap["ip"], u.lmap["json_data"]
    fills = []
    rest = fn.body[len(ref.body):]
    if not (isinstance(rest[-1], ast.Return) and isinstance(rest[-1].value, ast.Name) and rest[-1].value.id == ip):
        raise Untranslatable("_load_json: does not end with `return ip`")
    conv = _stmt("ip._parameters_shape = {p: tuple(s) for p, s in ip._parameters_shape.items()}")
    for st in rest[:-1]:
        # ip.<attr> = json_data["member"]
        if isinstance(st, ast.Assign) and len(st.targets) == 1 and isinstance(st.targets[0], ast.Attribute) \
                and isinstance(st.targets[0].value, ast.Name) and st.targets[0].value.id == ip \
                and isinstance(st.value, ast.Subscript) and isinstance(st.value.value, ast.Name) and st.value.value.id == data \
                and isinstance(st.value.slice, ast.Constant) and isinstance(st.value.slice.value, str):
            attr = st.targets[0].attr
            if attr not in FIELDS:
                raise Untranslatable(f"_load_json assigns the attribute {attr}, which the model does not have")
            fills.append((FIELDS[attr], st.value.slice.value))
            continue
        # json lists -> tuples for the shapes: the model's shapes are lists either way
        cu = Unifier(_local_names(conv) | {"ip"}, {"ip": ip})
        try:
            cu.go(conv, st)
        except Untranslatable:
            raise Untranslatable("_load_json: statement `" + ast.unparse(st)[:90] + "` is neither an attribute filled from a json member "
                                 "nor the list -> tuple conversion of the shapes") from None
        if "FShapes" not in [f for f, _ in fills]:
            raise Untranslatable("_load_json: shapes converted before they are read")
    if "classmethod" not in decorators(methods["_load_json"]):
        raise Untranslatable("_load_json is not a classmethod")
    return fills


def attribute_writes(cls: ast.ClassDef):
    """Every place of the class that changes an attribute of an instance: `x.a = ..`, `x.a op= ..`, `x.a[..] = ..`, `del`, and calls of
    mutating methods on `x.a`.  -> (attributes in order of first appearance, methods that write)."""
    mutators = {"append", "extend", "insert", "remove", "pop", "clear", "sort", "reverse", "add", "discard", "update", "setdefault",
                "popitem", "__setitem__", "__delitem__", "difference_update", "intersection_update", "symmetric_difference_update"}
    attrs, writers = [], []

    def root_attr(node):
        # x.a , x.a[..] , x.a[..][..]
        while isinstance(node, ast.Subscript):
            node = node.value
        if isinstance(node, ast.Attribute) and isinstance(node.value, ast.Name):
            return node.attr
        return None

    for fn in cls.body:
        if not isinstance(fn, ast.FunctionDef):
            continue
        wrote = False
        for sub in ast.walk(fn):
            targets = []
            if isinstance(sub, ast.Assign):
                targets = sub.targets
            elif isinstance(sub, (ast.AugAssign, ast.AnnAssign)):
                targets = [sub.target]
            elif isinstance(sub, ast.Delete):
                targets = sub.targets
            elif isinstance(sub, ast.Call) and isinstance(sub.func, ast.Attribute) and sub.func.attr in mutators:
                targets = [sub.func.value]
            elif isinstance(sub, ast.Call) and dotted(sub.func) in ("setattr", "delattr", "object.__setattr__"):
                raise Untranslatable(f"{fn.name}: {ast.unparse(sub)[:60]}")
            for t in targets:
                for e in (t.elts if isinstance(t, (ast.Tuple, ast.List)) else [t]):
                    a = root_attr(e)
                    if a is not None:
                        wrote = True
                        if a not in attrs:
                            attrs.append(a)
        if wrote:
            writers.append(fn.name)
    return attrs, writers


def build() -> dict:
    path = SRC / REL
    tree = ast.parse(path.read_text())
    classes = [n for n in tree.body if isinstance(n, ast.ClassDef) and n.name == CLASS]
    if len(classes) != 1:
        raise Untranslatable(f"class {CLASS} not found once in {REL}")
    cls = classes[0]
    if cls.bases or cls.keywords or cls.decorator_list:
        raise Untranslatable(f"{CLASS} has base classes / decorators")
    # nothing at module level can rebind the class or one of its methods: imports, __all__, the class
    for st in tree.body:
        if isinstance(st, (ast.Import, ast.ImportFrom)) or st is cls:
            continue
        if isinstance(st, ast.Assign) and len(st.targets) == 1 and dotted(st.targets[0]) == "__all__":
            continue
        if isinstance(st, ast.Expr) and isinstance(st.value, ast.Constant) and isinstance(st.value.value, str):
            continue
        raise Untranslatable("module-level statement `" + ast.unparse(st)[:70] + "`")
    methods = {}
    for f in cls.body:
        if isinstance(f, ast.FunctionDef):
            if f.name in methods:
                raise Untranslatable(f"method {f.name} defined twice")
            methods[f.name] = f
            if decorators(f) != DECORATORS.get(f.name, []):
                raise Untranslatable(f"decorators of {f.name}: {decorators(f)}")
        elif isinstance(f, ast.Expr) and isinstance(f.value, ast.Constant) and isinstance(f.value.value, str):
            continue
        elif isinstance(f, ast.Assign) and len(f.targets) == 1 and dotted(f.targets[0]) == "VALID_IO_EXTENSIONS":
            continue
        else:
            raise Untranslatable("class-level statement `" + ast.unparse(f)[:70] + "`")
    for special in ("__setattr__", "__getattr__", "__getattribute__", "__contains__", "__iter__", "__setitem__", "__new__"):
        if special in methods:
            raise Untranslatable(f"{CLASS} defines {special}")
    # IDType = str ?
    typing_src = ast.parse((SRC / "utils/typing.py").read_text())
    idtype_is_str = any(isinstance(s, ast.Assign) and len(s.targets) == 1 and dotted(s.targets[0]) == "IDType" and dotted(s.value) == "str"
                        for s in typing_src.body)
    # the exception class really is the one imported from leaspy.exceptions
    if not any(isinstance(s, ast.ImportFrom) and s.module == "leaspy.exceptions" and any(a.name == INPUT_ERROR and a.asname is None for a in s.names)
               for s in tree.body):
        raise Untranslatable(f"{INPUT_ERROR} is not imported from leaspy.exceptions")
    # class constants
    valid_ext = None
    for s in cls.body:
        if isinstance(s, ast.Assign) and len(s.targets) == 1 and dotted(s.targets[0]) == "VALID_IO_EXTENSIONS":
            if not (isinstance(s.value, ast.List) and all(isinstance(e, ast.Constant) and isinstance(e.value, str) for e in s.value.elts)):
                raise Untranslatable("VALID_IO_EXTENSIONS is not a literal list of strings")
            valid_ext = [e.value for e in s.value.elts]
    if valid_ext is None:
        raise Untranslatable("no VALID_IO_EXTENSIONS")

    out = {}
    steps, table = translate_add(methods, idtype_is_str)
    out["gen_types"] = ("type_table", f"mkTT {table[0]} [{'; '.join(table[1])}] {table[2]}")
    out["gen_add"] = ("list astep", "[" + ";\n   ".join(steps) + "]")

    u0 = unify_method(methods, "__init__", T_INIT)
    unify_method(methods, "_check_and_get_extension", T_GET_EXT)
    if "staticmethod" not in decorators(methods["_check_and_get_extension"]):
        raise Untranslatable("_check_and_get_extension is not a staticmethod")
    u = unify_method(methods, "save", T_SAVE)
    if dec_exc(u.holes["HOLE_EXC0"]) != "ExcInput" or dec_exc(u.holes["HOLE_EXC"]) != "ExcInput":
        raise Untranslatable("save: exception classes")
    dec_exc(ast.Call(func=ast.Name(id="Warning", ctx=ast.Load()), args=[u.holes["HOLE_MSG"]], keywords=[]))      # the message is pure
    out["gen_save_rule"] = ("save_rule", f"mkSV {coq_str(dec_str(u0.holes['HOLE_DEFAULT']))} {coq_str(dec_str(u.holes['HOLE_CSV']))} "
                                          f"{coq_str(dec_str(u.holes['HOLE_JSON']))}")
    unify_method(methods, "_parameters_size", T_PARAM_SIZE)
    if "property" not in decorators(methods["_parameters_size"]):
        raise Untranslatable("_parameters_size is not a property")

    u = unify_method(methods, "to_dataframe", T_TO_DF)
    out["gen_df_rows_from"] = ("id_source", dec_id_source(u.holes["HOLE_ROWS"]))
    out["gen_col_rule"] = ("col_rule", f"mkCR {dec_shape(u.holes['HOLE_PLAINSHAPE'])} {coq_str(dec_str(u.holes['HOLE_UNLESS']))} "
                                        f"{coq_str(dec_str(u.holes['HOLE_SEP']))}")

    u = unify_method(methods, "from_dataframe", T_FROM_DF)
    out["gen_split_rule"] = ("split_rule", dec_split(u.holes["HOLE_KEY"], u.lmap["name"]))
    if "staticmethod" not in decorators(methods["from_dataframe"]):
        raise Untranslatable("from_dataframe is not a staticmethod")

    u = unify_method(methods, "to_pytorch", T_TO_TORCH)
    rows, ids, ln = (dec_id_source(u.holes[h]) for h in ("HOLE_ROWS", "HOLE_IDS", "HOLE_LEN"))
    if ln not in (rows, ids):
        raise Untranslatable("to_pytorch: the first dimension is the length of something that is neither the rows nor the identifiers")
    out["gen_torch_iter"] = ("torch_iter", f"mkTI {rows} {ids}")

    u = unify_method(methods, "from_pytorch", T_FROM_TORCH)
    if dec_exc(u.holes["HOLE_EXC"]) != "ExcInput" or "staticmethod" not in decorators(methods["from_pytorch"]):
        raise Untranslatable("from_pytorch: length test raises another exception / not a staticmethod")

    g = unify_method(methods, "__getitem__", T_GETITEM)
    t = dotted(g.holes["HOLE_T"])
    if not (t == "str" or (t == "IDType" and idtype_is_str)) or dec_exc(g.holes["HOLE_EXC1"]) != "ExcInput" or dec_exc(g.holes["HOLE_EXC2"]) != "ExcInput":
        raise Untranslatable("__getitem__: type test / exception classes")
    u = unify_method(methods, "subset", T_SUBSET)
    if dec_exc(u.holes["HOLE_EXC"]) != "ExcInput":
        raise Untranslatable("subset: unknown identifiers raise another exception")
    out["gen_subset_rule"] = ("subset_rule", f"mkSR {dec_id_source(u.holes['HOLE_MEMBER'])} {dec_id_source(g.holes['HOLE_READ'])} true")

    u = unify_method(methods, "_save_json", T_SAVE_JSON)
    mem = u.holes["HOLE_MEMBERS"]
    if not isinstance(mem, ast.Dict) or any(k is None for k in mem.keys):
        raise Untranslatable("_save_json: json_data is not a dict literal")
    members = []
    for k, v in zip(mem.keys, mem.values):
        d = dotted(v) or ""
        if not d.startswith("self.") or d[5:] not in FIELDS:
            raise Untranslatable("_save_json: member value " + ast.unparse(v))
        members.append(f"({coq_str(dec_str(k))}, {FIELDS[d[5:]]})")
    out["gen_json_members"] = ("list (string * field)", "[" + "; ".join(members) + "]")
    unify_method(methods, "_save_csv", T_SAVE_CSV)

    fills = translate_load_json(methods)
    u = unify_method(methods, "_load_csv", T_LOAD_CSV)
    t = dotted(u.holes["HOLE_T"])
    if not (t == "str" or (t == "IDType" and idtype_is_str)) or "classmethod" not in decorators(methods["_load_csv"]):
        raise Untranslatable("_load_csv: the identifier column is not read as str / not a classmethod")
    u = unify_method(methods, "load", T_LOAD)
    if dec_exc(u.holes["HOLE_EXC"]) != "ExcInput" or "classmethod" not in decorators(methods["load"]):
        raise Untranslatable("load: exception class / not a classmethod")
    out["gen_load_dispatch"] = ("list string * string", f"([{'; '.join(coq_str(e) for e in valid_ext)}], {coq_str(dec_str(u.holes['HOLE_EXT']))})")
    fill_l = "[" + "; ".join(f"({f}, {coq_str(m)})" for f, m in fills) + "]"
    out["gen_builders"] = ("list (string * build)",
                           '[("from_dataframe", ViaAdd); ("from_pytorch", ViaAdd); ("subset", ViaAdd);\n   '
                           f'("_load_csv", ViaMethod "from_dataframe"); ("_load_json", DirectFill {fill_l})]')

    attrs, writers = attribute_writes(cls)
    out["gen_attributes"] = ("list string", "[" + "; ".join(coq_str(a) for a in attrs) + "]")
    out["gen_writers"] = ("list string", "[" + "; ".join(coq_str(w) for w in writers) + "]")
    return out


def translate(run: Run) -> bool:
    try:
        defs = build()
    except (Untranslatable, KeyError, OSError, SyntaxError) as e:
        run.broken("translate:GenC16", f"{type(e).__name__}: {e}", kind="broken-translation")
        return False
    text = HEADER + "\n" + "\n".join(f"Definition {n} : {ty} :=\n  {v}.\n" for n, (ty, v) in defs.items())
    run.gen("GenC16", text)
    run.extra["source_level_tables"] = {n: " ".join(v.split()) for n, (ty, v) in defs.items()}
    run.trusted.append("translator harness/translate/c16_container.py (python ast -> the tables of coq/gen/GenC16.v: every method it reads is "
                       "unified with a template, statement by statement; only the holes are copied from the source) and the meaning of one "
                       "step in coq/theories/Io/IndivParamsSrc.v (bool derives from int, np.float64 from float; `x in list`; `d[k] = v`)")
    return True
