"""Fail-closed translator of the GENERATION statements of leaspy's simulate.py (python ast) into the program
`gen_prog_src : Leaspy.Api.SimulateGen.gen_prog` of coq/gen/GenC18.v  (T1 for C18, generation part).

Understood vocabulary (anything else raises `Untranslatable`):

* draws: `np.random.normal(<loc>, <scale>[, self.param_study['patient_number']])`, `<loc>/<scale>` one of
  `self.param_study[k]`, `model.parameters[k]`, `model.hyperparameters[k]`, a numeric literal;
* column expressions: `df_ind[c]`, `df_ind[c].apply(lambda x: x.numpy())` (tensor cell -> numpy: the same number),
  `pd.DataFrame(<e>, index=df_ind.index)[0]` (re-labelling of a positional vector: the same numbers), `np.abs(e)`, `a + b`;
* `_sample_individual_parameters_from_model_parameters`: `<name> = torch.tensor(<draw>)` statements, the table
  `pd.DataFrame([<names>], index=[<labels>], columns=columns).T`, and one draw inside `for i in range(model.source_dimension)`;
* `_generate_visit_ages`: the table branch `return self.param_study['df_visits'].groupby('ID')['TIME'].apply(list).to_dict()`,
  column assignments `df_ind[c] = <e>`, and the loop
  `for id_ in df_ind.index.values: time = df_ind.loc[id_, S]; age_visits = [time]; while time < df_ind.loc[id_, E]: <step>;
   age_visits.append(time); dict_timepoints[id_] = list(age_visits)`  with `<step>` = `time += <e>` / `time = <e>`, possibly under
  `if self.visit_type == VisitType.RANDOM:` (the only visit type that reaches the loop);
* `_run` (base.py): the order of the five pipeline calls.
"""
from __future__ import annotations

import ast

from harness.common import coq_Q, coq_bool, coq_list, coq_string
from harness.translate.pysym import Untranslatable, dotted

NORMAL = ("np.random.normal", "numpy.random.normal")
PARAM_TABLES = {"self.param_study": "PStudy", "model.parameters": "PModel", "model.hyperparameters": "PHyper"}
TABLE_BRANCH = "return self.param_study['df_visits'].groupby('ID')['TIME'].apply(list).to_dict()"
RUN_ORDER = ["self._sample_individual_parameters_from_model_parameters", "self._get_leaspy_model", "self._generate_visit_ages",
             "self._generate_dataset", "Data.from_dataframe"]


def _u(node) -> str:
    return ast.unparse(node)


def _body(fn):
    return [s for s in fn.body if not (isinstance(s, ast.Expr) and isinstance(s.value, ast.Constant))]


def _random_calls(node):
    """every call into numpy's global generator below `node`, in source order"""
    out = []

    class V(ast.NodeVisitor):
        def visit_Call(self, n):
            name = dotted(n.func) or ""
            if name.startswith("np.random.") or name.startswith("numpy.random."):
                out.append(n)
            self.generic_visit(n)
    V().visit(node)
    return out


def dparam(node) -> str:
    if isinstance(node, ast.Subscript) and isinstance(node.slice, ast.Constant) and isinstance(node.slice.value, str):
        kind = PARAM_TABLES.get(dotted(node.value) or "")
        if kind:
            return f"({kind} {coq_string(node.slice.value)})"
    neg = False
    if isinstance(node, ast.UnaryOp) and isinstance(node.op, ast.USub):
        neg, node = True, node.operand
    if isinstance(node, ast.Constant) and isinstance(node.value, (int, float)) and not isinstance(node.value, bool):
        v = float(node.value)
        return f"(PConst {coq_Q(-v if neg else v)})"
    raise Untranslatable("parameter of a draw: " + _u(node))


def dcall(call: ast.Call) -> str:
    if dotted(call.func) not in NORMAL:
        raise Untranslatable("draw from another distribution: " + _u(call))
    args = {}
    for name, a in zip(("loc", "scale", "size"), call.args):
        args[name] = a
    if len(call.args) > 3:
        raise Untranslatable("arguments of " + _u(call))
    for k in call.keywords:
        if k.arg not in ("loc", "scale", "size") or k.arg in args:
            raise Untranslatable("arguments of " + _u(call))
        args[k.arg] = k.value
    if "loc" not in args or "scale" not in args:
        raise Untranslatable("draw without explicit location / scale: " + _u(call))
    if "size" in args:
        if _u(args["size"]) != "self.param_study['patient_number']":
            raise Untranslatable("size of a draw: " + _u(args["size"]))
        size = "SzN"
    else:
        size = "SzScalar"
    return f"({dparam(args['loc'])}, {dparam(args['scale'])}, {size})"


def cexpr(node, table: str, time_var: str | None = None) -> str:
    if isinstance(node, ast.BinOp) and isinstance(node.op, ast.Add):
        return f"(CAdd {cexpr(node.left, table, time_var)} {cexpr(node.right, table, time_var)})"
    if isinstance(node, ast.Name) and time_var is not None and node.id == time_var:
        return "CTime"
    if isinstance(node, ast.Call):
        name = dotted(node.func)
        if name in NORMAL:
            return f"(CDraw {dcall(node)})"
        if name in ("np.abs", "numpy.abs", "np.absolute", "abs") and len(node.args) == 1 and not node.keywords:
            return f"(CAbs {cexpr(node.args[0], table, time_var)})"
        # tensor cell -> numpy scalar, element by element: the same numbers
        if isinstance(node.func, ast.Attribute) and node.func.attr == "apply" and len(node.args) == 1 and not node.keywords \
                and _u(node.args[0]) == "lambda x: x.numpy()":
            return cexpr(node.func.value, table, time_var)
    if isinstance(node, ast.Subscript):
        # column of the working table
        if isinstance(node.value, ast.Name) and node.value.id == table and isinstance(node.slice, ast.Constant) \
                and isinstance(node.slice.value, str) and time_var is None:
            return f"(CCol {coq_string(node.slice.value)})"
        # pd.DataFrame(<vector>, index=<table>.index)[0]: the positional vector labelled by the table's index
        v = node.value
        if isinstance(node.slice, ast.Constant) and node.slice.value == 0 and isinstance(v, ast.Call) \
                and dotted(v.func) in ("pd.DataFrame", "pandas.DataFrame") and len(v.args) == 1 \
                and [(k.arg, _u(k.value)) for k in v.keywords] == [("index", f"{table}.index")] and time_var is None:
            return cexpr(v.args[0], table, time_var)
    raise Untranslatable("expression: " + _u(node))


def translate_ip(fn: ast.FunctionDef):
    """-> (gp_ip, gp_source) from `_sample_individual_parameters_from_model_parameters`"""
    body = _body(fn)
    draws = {}          # local name -> dcall, statement order
    src = None
    table = None
    seen = 0
    for st in body:
        calls = _random_calls(st)
        if isinstance(st, ast.Assign) and len(st.targets) == 1 and isinstance(st.targets[0], ast.Name) and len(calls) == 1 \
                and isinstance(st.value, ast.Call) and dotted(st.value.func) == "torch.tensor" and len(st.value.args) == 1 \
                and st.value.args[0] is calls[0] and not st.value.keywords:
            if table is not None or src is not None:
                raise Untranslatable("a draw after the parameter table was built: " + _u(st)[:80])
            if st.targets[0].id in draws:
                raise Untranslatable("two draws bound to " + st.targets[0].id)
            draws[st.targets[0].id] = dcall(calls[0])
            seen += 1
            continue
        if isinstance(st, ast.For) and _u(st.iter) == "range(model.source_dimension)" and not st.orelse:
            if src is not None or len(calls) != 1:
                raise Untranslatable("expected one loop over the sources with exactly one draw")
            first = st.body[0]
            if not (isinstance(first, ast.Assign) and _random_calls(first) == calls and isinstance(first.value, ast.Call)
                    and dotted(first.value.func) == "torch.tensor" and first.value.args and first.value.args[0] is calls[0]):
                raise Untranslatable("the draw of a source column is not the first statement of its loop")
            src = f"(CDraw {dcall(calls[0])})"
            seen += 1
            continue
        if calls:
            raise Untranslatable("draw in an unexpected statement: " + _u(st)[:100])
        for n in ast.walk(st):
            if isinstance(n, ast.Call) and dotted(n.func) in ("pd.DataFrame", "pandas.DataFrame") and n.args and isinstance(n.args[0], ast.List) \
                    and n.args[0].elts and all(isinstance(e, ast.Name) and e.id in draws for e in n.args[0].elts):
                kw = {k.arg: k.value for k in n.keywords}
                if table is not None or "index" not in kw or not isinstance(kw["index"], ast.List) or len(kw["index"].elts) != len(n.args[0].elts) \
                        or not all(isinstance(e, ast.Constant) and isinstance(e.value, str) for e in kw["index"].elts):
                    raise Untranslatable("parameter table: " + _u(n)[:100])
                table = {e.id: lab.value for e, lab in zip(n.args[0].elts, kw["index"].elts)}
                if not (isinstance(st, ast.Assign) and isinstance(st.value, ast.Attribute) and st.value.attr == "T" and st.value.value is n):
                    raise Untranslatable("parameter table is not `pd.DataFrame([...], index=[...], columns=columns).T`")
    if table is None or src is None or set(table) != set(draws) or len(_random_calls(fn)) != seen:
        raise Untranslatable("draws of the individual parameters: names %s, table %s, source %s" % (list(draws), table, src))
    ip = coq_list(f"({coq_string(table[name])}, CDraw {call})" for name, call in draws.items())
    return ip, src


def translate_visits(fn: ast.FunctionDef):
    """-> (gp_cols, loop record) from `_generate_visit_ages`"""
    body = _body(fn)
    if len(fn.args.args) != 2:
        raise Untranslatable("_generate_visit_ages arguments")
    arg = fn.args.args[1].arg
    if not body or not (isinstance(body[0], ast.Assign) and len(body[0].targets) == 1 and isinstance(body[0].targets[0], ast.Name)
                        and _u(body[0].value) == f"{arg}.copy()"):
        raise Untranslatable("_generate_visit_ages does not start with `<table> = df.copy()`")
    table = body[0].targets[0].id
    if len(body) < 2 or not (isinstance(body[1], ast.If) and _u(body[1].test) == "self.visit_type == VisitType.DATAFRAME" and not body[1].orelse
                             and [_u(s) for s in body[1].body] == [TABLE_BRANCH]):
        raise Untranslatable("table branch of _generate_visit_ages: " + (_u(body[1])[:160] if len(body) > 1 else ""))
    cols = []
    i = 2
    while i < len(body) and isinstance(body[i], ast.Assign) and len(body[i].targets) == 1 and isinstance(body[i].targets[0], ast.Subscript):
        t = body[i].targets[0]
        if not (isinstance(t.value, ast.Name) and t.value.id == table and isinstance(t.slice, ast.Constant) and isinstance(t.slice.value, str)):
            raise Untranslatable("column assignment " + _u(t))
        cols.append(f"({coq_string(t.slice.value)}, {cexpr(body[i].value, table)})")
        i += 1
    rest = body[i:]
    if len(rest) != 3 or not (isinstance(rest[0], ast.Assign) and isinstance(rest[0].value, ast.Dict) and not rest[0].value.keys
                              and len(rest[0].targets) == 1 and isinstance(rest[0].targets[0], ast.Name)):
        raise Untranslatable("expected `<dict> = {}`, the loop over the individuals, `return <dict>` after the columns")
    out = rest[0].targets[0].id
    loop = rest[1]
    if not (isinstance(rest[2], ast.Return) and _u(rest[2].value) == out):
        raise Untranslatable("_generate_visit_ages does not return the dictionary of the loop")
    if not (isinstance(loop, ast.For) and not loop.orelse and isinstance(loop.target, ast.Name) and _u(loop.iter) == f"{table}.index.values"):
        raise Untranslatable("loop over the individuals: " + _u(loop)[:80])
    idv = loop.target.id
    lb = [s for s in loop.body if not (isinstance(s, ast.Expr) and isinstance(s.value, ast.Constant))]
    if len(lb) != 4:
        raise Untranslatable("body of the loop over the individuals has %d statements" % len(lb))
    s0, s1, wh, s3 = lb

    def cell(node):
        if isinstance(node, ast.Subscript) and _u(node.value) == f"{table}.loc" and isinstance(node.slice, ast.Tuple) and len(node.slice.elts) == 2 \
                and _u(node.slice.elts[0]) == idv and isinstance(node.slice.elts[1], ast.Constant) and isinstance(node.slice.elts[1].value, str):
            return node.slice.elts[1].value
        raise Untranslatable("cell of the working table: " + _u(node))
    if not (isinstance(s0, ast.Assign) and len(s0.targets) == 1 and isinstance(s0.targets[0], ast.Name)):
        raise Untranslatable("start of the visit loop: " + _u(s0))
    tv = s0.targets[0].id
    start = cell(s0.value)
    if not (isinstance(s1, ast.Assign) and len(s1.targets) == 1 and isinstance(s1.targets[0], ast.Name) and _u(s1.value) in (f"[{tv}]", "[]")):
        raise Untranslatable("list of ages: " + _u(s1))
    ages = s1.targets[0].id
    keep = _u(s1.value) == f"[{tv}]"
    if not (isinstance(wh, ast.While) and not wh.orelse and isinstance(wh.test, ast.Compare) and len(wh.test.ops) == 1
            and isinstance(wh.test.ops[0], ast.Lt) and _u(wh.test.left) == tv):
        raise Untranslatable("visit loop condition: " + _u(wh.test if isinstance(wh, ast.While) else wh)[:80])
    end = cell(wh.test.comparators[0])
    wb = list(wh.body)
    if len(wb) != 2 or _u(wb[1]) != f"{ages}.append({tv})":
        raise Untranslatable("visit loop body: " + "; ".join(_u(s) for s in wb)[:160])
    st = wb[0]
    if isinstance(st, ast.If):
        if _u(st.test) != "self.visit_type == VisitType.RANDOM" or st.orelse or len(st.body) != 1:
            raise Untranslatable("guard of the spacing draw: " + _u(st.test))
        st = st.body[0]
    if isinstance(st, ast.AugAssign) and isinstance(st.op, ast.Add) and _u(st.target) == tv:
        step = f"(CAdd CTime {cexpr(st.value, table, tv)})"
    elif isinstance(st, ast.Assign) and len(st.targets) == 1 and _u(st.targets[0]) == tv:
        step = cexpr(st.value, table, tv)
    else:
        raise Untranslatable("step of the visit loop: " + _u(st))
    if _u(s3) not in (f"{out}[{idv}] = list({ages})", f"{out}[{idv}] = {ages}"):
        raise Untranslatable("result of the visit loop: " + _u(s3))
    n_calls = len(_random_calls(fn))
    n_seen = sum(c.count("CDraw") for c in cols) + step.count("CDraw")
    if n_calls != n_seen:
        raise Untranslatable(f"{n_calls} draws in _generate_visit_ages, {n_seen} translated")
    lp = f"{{| lp_start := {coq_string(start)}; lp_end := {coq_string(end)}; lp_step := {step}; lp_keep_start := {coq_bool(keep)} |}}"
    return coq_list(cols), lp


def translate_generation(methods: dict, run_fn: ast.FunctionDef) -> str:
    """Coq text of `gen_prog_src` and `gen_run_order`."""
    ip, src = translate_ip(methods["_sample_individual_parameters_from_model_parameters"])
    cols, lp = translate_visits(methods["_generate_visit_ages"])
    for name in ("_generate_dataset", "_get_leaspy_model"):
        if _random_calls(methods[name]):
            raise Untranslatable("a numpy draw in " + name)
    order = []
    class V(ast.NodeVisitor):
        def visit_Call(self, n):
            # arguments are evaluated before the call itself
            self.generic_visit(n)
            name = dotted(n.func) or ""
            if name.startswith("self._") or name == "Data.from_dataframe":
                order.append(name)
    V().visit(run_fn)
    if order != RUN_ORDER or _random_calls(run_fn):
        raise Untranslatable("_run pipeline order: " + ", ".join(order))
    return (f"Definition gen_prog_src : gen_prog :=\n  {{| gp_ip := {ip};\n     gp_source := {src};\n     gp_cols := {cols};\n     gp_loop := {lp} |}}.\n\n"
            "Definition gen_run_order : list string := " + coq_list(coq_string(x) for x in order) + ".\n")
