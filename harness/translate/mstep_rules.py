"""C04 — T1: regenerate coq/gen/GenC04.v by TRACING the running update rules of $VERIF_REPO.

What is traced (every item through the real `ModelParameter.compute_update` dispatch):
  * for_pop_mean / for_ind_mean / for_ind_std (normal rule and burn-in rule) on symbolic statistics; the reductions over
    individuals (`torch.mean`, `torch.std`) are intercepted and their arguments (dim, Bessel correction) recorded;
  * `compute_std_from_variance`: the real function is run twice on a probe object, once with the comparison answering
    "no entry below" and once "some entry below": it must return the square root in the first case and raise
    LeaspyConvergenceError in the second; the comparison operator and the threshold are read off the probe;
  * scalar / diagonal noise rules, point-wise reading (`sum_dim` erased while the formula is traced); the `sum_dim` calls are
    recorded: how many, which axes are kept, and — on a real state with a missing entry — which operand each one sums and
    whether that operand carries the mask of `y`.  Both rules must be ONE sum of the combined weighted statistic
    `-2*y_x_model + model_x_model` (scalar: over every axis, diagonal: keeping the feature axis); the former shape of the
    scalar rule (`sum_dim(y_x_model)`, `sum_dim(model_x_model)` separately: the second operand is a plain tensor, NOT masked)
    is still translated — it yields `gen_scalar_sum_masks = [true; false]`, which breaks the tie lemma, as it must;
  * the statistics `x**2`, `y*model`, `model**2`;
  * the mixture std rules (`for_ind_std_mixture`, normal and burn-in): probed with zero-dispersion statistics — do they call
    `compute_std_from_variance` and raise (guarded) or return 0 (unguarded)?  -> `gen_mix_std_guarded`, `gen_mix_std_burn_guarded`;
  * the order of events of `McmcSaemCompatibleModel.update_parameters` on a recording state (Compute i / Assign i);
  * the choice normal / burn-in rule of `compute_update`.
Anything unexpected raises `Untraceable` (fail closed)."""
from __future__ import annotations

from fractions import Fraction

from harness.translate.formulas import HEADER, S, Sym, Untraceable, definition, expr_of


def _q(x) -> str:
    f = Fraction(*float(x).as_integer_ratio()) if not isinstance(x, Fraction) else x
    return f"({f.numerator} # {f.denominator})%Q"


def generate() -> tuple[str, dict]:
    """Returns (text of GenC04.v, facts for the evidence)."""
    import torch
    import leaspy.models.utilities as mutil
    import leaspy.models.obs_models._gaussian as gauss
    from leaspy.exceptions import LeaspyConvergenceError
    from leaspy.models.mcmc_saem_compatible import McmcSaemCompatibleModel
    from leaspy.models.obs_models import FullGaussianObservationModel
    from leaspy.utils.weighted_tensor import WeightedTensor
    from leaspy.variables.specs import LVL_FT, LVL_IND, Collect, ModelParameter

    facts: dict = {}
    out = [HEADER.replace("From Coq Require Import Reals.", "From Coq Require Import Reals ZArith QArith List.\nImport ListNotations."),
           "From Leaspy Require Import Saem.MStep.\n"]

    if LVL_IND != 0 or LVL_FT != -1:
        raise Untraceable(f"axis conventions changed: LVL_IND={LVL_IND}, LVL_FT={LVL_FT}")

    # ---- reductions over individuals are intercepted (a traced scalar stands for the whole per-individual vector)
    reductions = []

    class RSym(Sym):
        @classmethod
        def __torch_function__(cls, func, types, args=(), kwargs=None):
            kwargs = dict(kwargs or {})
            name = getattr(func, "__name__", str(func))
            if name in ("mean", "std", "var", "median", "sum", "nanmean"):
                if len(args) > 1:
                    kwargs["dim"] = args[1]
                reductions.append((name, dict(kwargs)))
                return Sym((f"red_{name}", args[0].expr))
            return super().__torch_function__(func, types, args, kwargs)

    def R(name):
        t = torch.Tensor._make_subclass(RSym, torch.zeros(()))
        t.expr = ("var", name)
        return t

    # ---- compute_std_from_variance, patched by a recorder while the callers are traced
    std_calls = []

    def rec_std(variance, varname=None, **kws):
        std_calls.append((expr_of(variance), varname, dict(kws)))
        return variance.sqrt()

    real_std_m, real_std_g = mutil.compute_std_from_variance, gauss.compute_std_from_variance
    real_sum_dim = gauss.sum_dim
    sum_calls = []

    def rec_sum(x, **kws):
        sum_calls.append(dict(kws))
        return x

    mutil.compute_std_from_variance = rec_std
    gauss.compute_std_from_variance = rec_std
    gauss.sum_dim = rec_sum
    try:
        # pop mean: Identity of the statistic, in both phases
        mp = ModelParameter.for_pop_mean("g", (1,))
        for b in (False, True):
            e = expr_of(mp.compute_update(state={}, suff_stats={"g": S("stat")}, burn_in=b))
            if e != ("var", "stat"):
                raise Untraceable(f"for_pop_mean rule (burn_in={b}) is {e!r}, not the identity of the statistic")
        if tuple(mp.suff_stats.variables) != ("g",):
            raise Untraceable(f"for_pop_mean collects {mp.suff_stats.variables!r}")
        out.append(definition("gen_pop_rule", ["stat"], ("var", "stat")))

        # ind mean: torch.mean over the individual axis, both phases
        mp = ModelParameter.for_ind_mean("x", (1,))
        for b in (False, True):
            reductions.clear()
            e = expr_of(mp.compute_update(state={}, suff_stats={"x": R("S1")}, burn_in=b))
            if e != ("red_mean", ("var", "S1")) or reductions != [("mean", {"dim": LVL_IND})]:
                raise Untraceable(f"for_ind_mean rule (burn_in={b}) is {e!r} with reductions {reductions!r}")
        out.append("(* for_ind_mean: torch.mean(statistic, dim=LVL_IND=0), in and after burn-in *)\n"
                   "Definition gen_ind_mean_is_mean_over_individuals : bool := true.\n")

        # ind std, after burn-in
        mp = ModelParameter.for_ind_std("x", (1,))
        if tuple(mp.suff_stats.variables) != ("x", "x_sqr"):
            raise Untraceable(f"for_ind_std collects {mp.suff_stats.variables!r}")
        reductions.clear(); std_calls.clear()
        e = expr_of(mp.compute_update(state={"x_mean": S("old_mean")}, suff_stats={"x": R("S1"), "x_sqr": R("S2")}, burn_in=False))
        if len(std_calls) != 1 or e != ("sqrt", std_calls[0][0]):
            raise Untraceable("for_ind_std: the rule does not end with compute_std_from_variance(variance)")
        var_e, varname, kws = std_calls[0]
        if reductions != [("mean", {"dim": LVL_IND}), ("mean", {"dim": LVL_IND})] or varname != "x_std":
            raise Untraceable(f"for_ind_std: reductions {reductions!r}, varname {varname!r}")
        if set(kws) - {"tol"}:
            raise Untraceable(f"for_ind_std: unexpected arguments to compute_std_from_variance {kws!r}")

        def unred(t):
            if t[0] == "red_mean":
                return ("var", "m" + t[1][1])      # mean over individuals of the statistic S1 / S2
            return tuple(unred(x) if isinstance(x, tuple) else x for x in t)
        out.append("(* for_ind_std after burn-in; mS1, mS2 = torch.mean(S1 | S2, dim=LVL_IND); old_mean = state[x_mean] *)")
        out.append(definition("gen_ind_var", ["old_mean", "mS1", "mS2"], unred(var_e)))
        ind_tol_explicit = kws.get("tol")

        # ind std, burn-in
        reductions.clear(); std_calls.clear()
        e = expr_of(mp.compute_update(state={"x_mean": S("old_mean")}, suff_stats={"x": R("S1"), "x_sqr": R("S2")}, burn_in=True))
        if e != ("red_std", ("var", "S1")) or len(reductions) != 1 or std_calls:
            raise Untraceable(f"for_ind_std burn-in rule is {e!r} (reductions {reductions!r}, guarded={bool(std_calls)})")
        rk = dict(reductions[0][1])
        if rk.pop("dim", None) != LVL_IND:
            raise Untraceable("for_ind_std burn-in: not over the individual axis")
        corr = 1
        if "unbiased" in rk:
            corr = 1 if rk.pop("unbiased") else 0
        if "correction" in rk:
            corr = int(rk.pop("correction"))
        if rk:
            raise Untraceable(f"for_ind_std burn-in: unknown arguments {rk!r}")
        out.append(f"(* for_ind_std in burn-in: torch.std(S1, dim=LVL_IND), Bessel correction as called; no guard *)\n"
                   f"Definition gen_burn_in_correction : Z := ({corr})%Z.\n")
        facts["burn_in_correction"] = corr

        # statistic x_sqr
        sq = mp.suff_stats.dedicated_variables["x_sqr"]
        out.append(definition("gen_stat_sqr", ["x"], expr_of(sq.f(x=S("x")))))

        # noise rules
        res = {}
        for dim, nm in ((1, "scalar"), (2, "diag")):
            mpn = FullGaussianObservationModel.noise_std_specs(dim)
            if tuple(mpn.suff_stats.variables) != ("y_x_model", "model_x_model") or mpn.update_rule_burn_in is not None:
                raise Untraceable(f"noise_std_specs({dim}): statistics {mpn.suff_stats.variables!r}")
            std_calls.clear(); sum_calls.clear()
            st = {"y_L2": S("yL2"), "n_obs": S("n"), "y_L2_per_ft": S("yL2"), "n_obs_per_ft": S("n")}
            for b in (False, True):
                std_calls.clear(); sum_calls.clear()
                e = expr_of(mpn.compute_update(state=st, suff_stats={"y_x_model": S("s_ym"), "model_x_model": S("s_mm")}, burn_in=b))
                if len(std_calls) != 1 or e != ("sqrt", std_calls[0][0]) or std_calls[0][1] != "noise_std":
                    raise Untraceable(f"noise rule ({nm}) does not end with compute_std_from_variance")
                res[nm, b] = (std_calls[0][0], list(sum_calls), dict(std_calls[0][2]))
            if res[nm, False] != res[nm, True]:
                raise Untraceable(f"noise rule ({nm}) differs between phases")
        sc_e, sc_sums, sc_kw = res["scalar", False]
        dg_e, dg_sums, dg_kw = res["diag", False]
        if sc_sums not in ([{}], [{}, {}]):
            raise Untraceable(f"scalar noise rule: sum_dim calls {sc_sums!r} (expected one sum over every axis of the combined "
                              "statistic, or the former two separate full sums)")
        if dg_sums != [{"but_dim": LVL_FT}]:
            raise Untraceable(f"diagonal noise rule: sum_dim calls {dg_sums!r} (expected one sum keeping the feature axis)")
        if set(sc_kw) != {"tol"} or sc_kw != dg_kw:
            raise Untraceable(f"noise rules: compute_std_from_variance arguments {sc_kw!r} / {dg_kw!r}")
        out.append(f"(* scalar_noise_std_update, point-wise reading: {len(sc_sums)} sum_dim call(s) over every axis "
                   "(operands and masks: gen_scalar_sum_masks below) *)")
        out.append(definition("gen_noise_scalar_var", ["yL2", "s_ym", "s_mm", "n"], sc_e))
        facts["scalar_sum_dim_calls"] = len(sc_sums)
        out.append("(* diagonal_noise_std_update, point-wise reading: ONE sum_dim(-2*y_x_model + model_x_model, but_dim=LVL_FT) *)")
        out.append(definition("gen_noise_diag_var", ["yL2", "s_ym", "s_mm", "n"], dg_e))
        out.append(f"Definition gen_noise_tol : Q := {_q(sc_kw['tol'])}.\n")
        facts["noise_tol"] = float(sc_kw["tol"])
        ss = FullGaussianObservationModel.noise_std_suff_stats()
        out.append(definition("gen_stat_ym", ["y", "m"], expr_of(ss["y_x_model"].f(y=WeightedTensor(S("y")), model=S("m")))))
        out.append(definition("gen_stat_mm", ["m"], expr_of(ss["model_x_model"].f(model=S("m")))))
    finally:
        mutil.compute_std_from_variance = real_std_m
        gauss.compute_std_from_variance = real_std_g
        gauss.sum_dim = real_sum_dim

    # ---- compute_std_from_variance itself: two executions on a probe
    class Cmp:
        def __init__(self, flag):
            self.flag = flag

        def any(self):
            return self.flag

        def __bool__(self):
            raise Untraceable("compute_std_from_variance: truth value of the whole comparison is used")

    class VarProbe:
        def __init__(self, flag):
            self.flag, self.seen = flag, []

        def _c(self, op, other):
            self.seen.append((op, other))
            return Cmp(self.flag)

        def __lt__(self, o): return self._c("lt", o)
        def __le__(self, o): return self._c("le", o)
        def __gt__(self, o): return self._c("gt", o)
        def __ge__(self, o): return self._c("ge", o)

        def sqrt(self):
            return ("sqrt", self)

        def __pow__(self, p):
            if p == 0.5:
                return ("sqrt", self)
            raise Untraceable(f"compute_std_from_variance: variance ** {p}")

    p0 = VarProbe(False)
    r0 = mutil.compute_std_from_variance(p0, "v")
    if r0 != ("sqrt", p0) or len(p0.seen) != 1:
        raise Untraceable(f"compute_std_from_variance: returns {r0!r} after comparisons {p0.seen!r} when nothing is below the threshold")
    op, default_tol = p0.seen[0]
    p1 = VarProbe(True)
    try:
        mutil.compute_std_from_variance(p1, "v")
        raise Untraceable("compute_std_from_variance does not raise when an entry is below the threshold")
    except LeaspyConvergenceError:
        pass
    p2 = VarProbe(False)
    mutil.compute_std_from_variance(p2, "v", tol=0.125)
    if p2.seen != [(op, 0.125)]:
        raise Untraceable("compute_std_from_variance: `tol` is not the threshold compared with")
    if op not in ("lt", "le"):
        raise Untraceable(f"compute_std_from_variance: comparison `{op}`")
    cmp_q = {"lt": "Leaspy.Base.QAux.Qlt_bool v tol", "le": "Qle_bool v tol"}[op]
    out.append("(* compute_std_from_variance: raises LeaspyConvergenceError iff the comparison below holds for some entry, else sqrt *)\n"
               f"Definition gen_guard_collapses (v tol : Q) : bool := {cmp_q}.\n")
    tol_ind = default_tol if ind_tol_explicit is None else ind_tol_explicit
    out.append(f"Definition gen_ind_std_tol : Q := {_q(tol_ind)}.\n")
    facts["guard"] = f"variance {op} tol"
    facts["ind_std_tol"] = float(tol_ind)

    # ---- mixture std rules: do they go through compute_std_from_variance?  Concrete probe through the real dispatch, with
    #      zero-dispersion statistics (every individual at the cluster's old mean): a guarded rule calls the guard and
    #      raises LeaspyConvergenceError; an unguarded one calls nothing and returns 0.
    guard_calls = []
    real_guard = mutil.compute_std_from_variance

    def counting_guard(variance, varname=None, **kws):
        guard_calls.append((varname, dict(kws)))
        return real_guard(variance, varname, **kws)

    try:
        mpm = ModelParameter.for_ind_std_mixture("x", (2,), tol=1e-5)
    except Exception as e:
        raise Untraceable(f"for_ind_std_mixture: {type(e).__name__}: {e}")
    if mpm.update_rule_burn_in is None:
        raise Untraceable("for_ind_std_mixture: no burn-in rule any more")
    zst = {"x_mean": torch.zeros(2, dtype=torch.float64), "x": torch.zeros(5, 1, dtype=torch.float64),
           "nll_regul_ind_sum_ind": WeightedTensor(torch.ones(5, 2, dtype=torch.float64))}
    zss = {"x": torch.zeros(5, 1, dtype=torch.float64), "x_sqr": torch.zeros(5, 1, dtype=torch.float64)}
    mix_guarded = {}
    mutil.compute_std_from_variance = counting_guard
    try:
        for b in (False, True):
            guard_calls.clear()
            try:
                r = mpm.compute_update(state=zst, suff_stats=zss, burn_in=b)
                raised = False
            except LeaspyConvergenceError:
                raised = True
            if raised != bool(guard_calls):
                raise Untraceable(f"mixture std rule (burn_in={b}): raised={raised} with {len(guard_calls)} call(s) of the guard")
            if not raised and not (tuple(r.shape) == (2,) and bool((r == 0).all())):
                raise Untraceable(f"mixture std rule (burn_in={b}) returns {r!r} on zero-dispersion statistics")
            mix_guarded[b] = raised
    finally:
        mutil.compute_std_from_variance = real_guard
    out.append("(* compute_ind_param_std_from_suff_stats_mixture / ..._burn_in through for_ind_std_mixture(tol=1e-5) on zero-dispersion\n"
               "   statistics: does the rule call compute_std_from_variance and raise LeaspyConvergenceError (true), or return 0 (false)? *)\n"
               f"Definition gen_mix_std_guarded : bool := {str(mix_guarded[False]).lower()}.\n"
               f"Definition gen_mix_std_burn_guarded : bool := {str(mix_guarded[True]).lower()}.\n")
    facts["mixture_std_guarded"] = {"normal": mix_guarded[False], "burn_in": mix_guarded[True]}

    # ---- masks of the summed operands, on a real state with a missing entry
    facts["masks"] = masks = _mask_probe()
    if len(masks["scalar"]) != len(sc_sums):
        raise Untraceable(f"scalar noise rule: {len(sc_sums)} sum_dim call(s) when traced, {len(masks['scalar'])} on a real state")
    out.append("(* one entry per sum_dim call of the rule, in call order, on a real state with one missing entry:\n"
               f"   does the summed operand carry the mask of y?   scalar rule operands: {masks['scalar_operands']!r}  "
               "(combined = -2*y_x_model + model_x_model) *)")
    out.append(f"Definition gen_scalar_sum_masks : list bool := [{'; '.join(str(b).lower() for b in masks['scalar'])}].")
    out.append(f"Definition gen_diag_masked : bool := {str(masks['diag'][0]).lower()}.\n")

    # ---- compute_update: which rule in which phase
    def fN(*, x):
        return "N"

    def fB(*, x):
        return "B"
    rows = []
    for has_b in (False, True):
        mpx = ModelParameter((1,), suff_stats=Collect("x"), update_rule=fN, update_rule_burn_in=fB if has_b else None)
        for burn in (False, True):
            r = mpx.compute_update(state={}, suff_stats={"x": 0}, burn_in=burn)
            rows.append((burn, has_b, r == "B"))
            if r not in ("N", "B"):
                raise Untraceable("compute_update returned something else than one of the two rules' results")
    tbl = " | ".join(f"{str(b).lower()}, {str(h).lower()} => {str(c).lower()}" for b, h, c in rows)
    out.append("(* ModelParameter.compute_update: is the burn-in rule the one applied? *)\n"
               f"Definition gen_uses_burn_rule (burn has_burn_rule : bool) : bool :=\n  match burn, has_burn_rule with {tbl} end.\n")

    # ---- update_parameters: order of events on a recording state, n = 0..4 parameters
    for n in range(5):
        ev = []

        class Stub:
            def __init__(self, i):
                self.i = i

            def compute_update(self, *, state, suff_stats, burn_in):
                ev.append(f"Compute {self.i}%nat")
                return ("val", self.i)

        class Dag:
            sorted_variables_by_type = {ModelParameter: {f"p{i}": Stub(i) for i in range(n)}}

        class RecState:
            dag = Dag()

            def __setitem__(self, k, v):
                i = int(k[1:])
                if v != ("val", i):
                    raise Untraceable("update_parameters assigns a value that is not the computed update of that parameter")
                ev.append(f"Assign {i}%nat")

            def __getitem__(self, k):
                raise Untraceable("update_parameters reads the state outside the rules")
        McmcSaemCompatibleModel.update_parameters(RecState(), {}, burn_in=False)
        out.append(f"Definition gen_update_trace_{n} : list op := [{'; '.join(ev)}].")
    out.append("")
    return "\n".join(out), facts


def _mask_probe() -> dict:
    """On real states (scalar and diagonal noise, one missing entry): which operands of sum_dim carry the mask of y."""
    import warnings
    import leaspy.models.obs_models._gaussian as gauss
    from harness import synth
    from leaspy.io.data.dataset import Dataset
    from leaspy.utils.weighted_tensor import WeightedTensor
    res = {}
    for nm, noise in (("scalar", "gaussian-scalar"), ("diag", "gaussian-diagonal")):
        df = synth.make_df(n_ind=3, n_feat=2, seed=5, visits=(2, 3))
        df.loc[df.index[1], "Y1"] = float("nan")
        m = synth.make_model("logistic", 2, None, noise)
        with warnings.catch_warnings():
            warnings.simplefilter("ignore")
            ds = Dataset(synth.make_data(df))
            m.initialize(ds)
            st = m.state
            m.put_data_variables(st, ds)
            m.put_individual_parameters(st, ds)
        suff = m.compute_sufficient_statistics(st)
        seen, which = [], []
        real = gauss.sum_dim

        def rec(x, **kw):
            seen.append(isinstance(x, WeightedTensor) and x.weight is not None and not bool(x.weight.all()))
            which.append("ym" if x is suff["y_x_model"] else "mm" if x is suff["model_x_model"] else "other")
            return real(x, **kw)
        gauss.sum_dim = rec
        try:
            st.dag["noise_std"].compute_update(state=st, suff_stats=suff, burn_in=False)
        finally:
            gauss.sum_dim = real
        # "combined": neither statistic itself, i.e. an expression built from them (checked point-wise by the traced formula)
        which = ["combined" if w == "other" else w for w in which]
        if which not in ([["combined"], ["ym", "mm"]] if nm == "scalar" else [["combined"]]):
            raise Untraceable(f"{nm} noise rule: sum_dim operands on a real state are {which!r}")
        res[nm] = seen
        res[nm + "_operands"] = which
    return res
