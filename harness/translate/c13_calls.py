"""C13 — T1: regenerate coq/gen/GenC13.v (the public calls as source-level programs of Api/SrcProg.v) from the python `ast` of

* models/base.py            BaseModel.estimate / personalize / simulate (which algorithm entry point is called with what)
* models/mcmc_saem_compatible.py, models/joint.py
                            compute_individual_trajectory, _put_data_timepoints, put_data_variables, reset_data_variables
* models/time_reparametrized.py, joint.py, mixture.py
                            put_individual_parameters: confined to its `state` parameter
* variables/state.py        State.put_individual_latent_variables (which variables, which value)
* algo/base.py              BaseAlgorithm.__init__ (deepcopy of the settings), run (seed first, then _run), _initialize_seed
* algo/personalize/base.py, mcmc.py, scipy_minimize.py
* algo/simulate/base.py, simulate.py

Fail closed.  A statement is translated when it has one of the known forms; a statement that mentions a State object (or calls a
method of the model / the algorithm that is not known to be State-free) and has no known form raises `Untranslatable`.  WHICH
object a statement addresses (`model.state`, a local name, `states[idx]`) is copied from the source into the generated program;
the Coq side resolves the names (Api/SrcProg.v `denote`).
"""
from __future__ import annotations

import ast

from harness.common import Run, SRC
from harness.translate.pysym import Untranslatable, dotted, load_methods

HEADER = """(* REGENERATED on every run from $VERIF_REPO/src/leaspy by harness/translate/c13_calls.py — do not edit *)
From Coq Require Import List String.
From Leaspy Require Import Api.ApiModel Api.SrcProg.
Import ListNotations.
Local Open Scope string_scope.
"""

OMODEL = ("OModel",)


def coq_str(s: str) -> str:
    if any(ord(c) > 126 or ord(c) < 32 for c in s):
        raise Untranslatable(f"non-ascii text in a label: {s!r}")
    return '"' + s.replace('"', '""') + '"'


def coq_obj(o) -> str:
    return "OModel" if o[0] == "OModel" else f"({o[0]} {coq_str(o[1])})"


def coq_group(g) -> str:
    return g[0] if len(g) == 1 else f"({g[0]} {coq_str(g[1])})"


def coq_vsrc(v) -> str:
    return v[0] if len(v) == 1 else f"(VIn {coq_str(v[1])})"


def coq_atom(a) -> str:
    k = a[0]
    if k == "ASeed":
        return "ASeed"
    if k == "AAlias":
        return f"AAlias {coq_str(a[1])} {coq_obj(a[2])}"
    if k == "AClone":
        return f"AClone {coq_obj(a[1])} {coq_obj(a[2])}"
    if k == "APut":
        return f"APut {coq_obj(a[1])} {coq_group(a[2])} {coq_vsrc(a[3])}"
    if k == "AGet":
        return f"AGet {coq_obj(a[1])} {coq_group(a[2])}"
    if k == "AWork":
        return f"AWork {coq_str(a[1])} {coq_obj(a[2])}"
    if k == "ADraws":
        return f"ADraws {coq_str(a[1])} {a[2]}"
    if k == "ASetModel":
        return f"ASetModel {coq_obj(a[1])}"
    if k == "AFork":
        return f"AFork {coq_obj(a[1])} {'true' if a[2] else 'false'}"
    raise Untranslatable(f"unknown atom {a!r}")


def coq_prog(p) -> str:
    out = []
    for s in p:
        if s[0] == "SForInd":
            out.append("SForInd [" + ";\n            ".join(coq_atom(a) for a in s[1]) + "]")
        elif s[0] == "SRepeat":
            out.append(f"SRepeat {coq_str(s[1])} [" + ";\n            ".join(coq_atom(a) for a in s[2]) + "]")
        else:
            out.append(f"SAtom ({coq_atom(s)})")
    return "[" + ";\n   ".join(out) + "]"


# ----------------------------------------------------------------------------- scopes


class Scope:
    def __init__(self, model_names, states=None, dicts=None, loopvar=None):
        self.model = set(model_names)        # dotted expressions that denote the model object ("self", "model", "self.model")
        self.states = dict(states or {})     # python name -> sobj
        self.dicts = set(dicts or ())        # per-individual dictionaries of states
        self.loopvar = loopvar

    def child(self, **kw):
        s = Scope(self.model, self.states, self.dicts, self.loopvar)
        for k, v in kw.items():
            setattr(s, k, v)
        return s


def obj_of(node, sc: Scope):
    if isinstance(node, ast.Attribute) and node.attr in ("state", "_state") and dotted(node.value) in sc.model:
        return OMODEL
    if isinstance(node, ast.Name) and node.id in sc.states:
        return sc.states[node.id]
    if (isinstance(node, ast.Subscript) and isinstance(node.value, ast.Name) and node.value.id in sc.dicts
            and isinstance(node.slice, ast.Name) and node.slice.id == sc.loopvar):
        return ("OAt", node.value.id)
    return None


def mentions_state(node, sc: Scope) -> bool:
    for n in ast.walk(node):
        if obj_of(n, sc) is not None:
            return True
        if isinstance(n, ast.Name) and n.id in sc.dicts:
            return True
        if isinstance(n, ast.Attribute) and n.attr in ("state", "_state"):
            return True
    return False


class Ctx:
    """Per-call translation context."""

    def __init__(self, pure=(), bound=None, work_tag=None, contexts=()):
        self.pure = set(pure)         # dotted callee names (methods of the model / algorithm) checked to be State-free
        self.bound = bound if bound is not None else set()   # python names already bound to a State object in the program
        self.work_tag = work_tag      # tag of the opaque activity a confined loop of this call belongs to (None: no such loop)
        self.contexts = set(contexts)  # context managers that take the model but perform no State operation of the model


def object_calls(node, sc: Scope):
    """Calls whose receiver is the model or the algorithm object (anything reachable from `self` / the model)."""
    out = []
    for n in ast.walk(node):
        if isinstance(n, ast.Call):
            d = dotted(n.func)
            if d is None:
                continue
            base = d.split(".")[0]
            if base == "self" or base in {m.split(".")[0] for m in sc.model}:
                if "." in d:
                    out.append(d)
    return out


def require_state_free(node, sc: Scope, ctx: Ctx, what: str):
    if mentions_state(node, sc):
        raise Untranslatable(f"{what}: statement mentions a State object and has no known form: {ast.unparse(node)[:160]}")
    for d in object_calls(node, sc):
        if d not in ctx.pure:
            raise Untranslatable(f"{what}: call `{d}` is not known to leave every State alone: {ast.unparse(node)[:160]}")


def method_state_free(fn: ast.FunctionDef) -> bool:
    """A method body that never names a State: no `.state` / `._state` attribute, no name `state` / `*_state`."""
    for n in ast.walk(fn):
        if isinstance(n, ast.Attribute) and n.attr in ("state", "_state"):
            return False
        if isinstance(n, ast.Name) and (n.id == "state" or n.id.endswith("_state") or n.id == "states"):
            return False
        if isinstance(n, ast.arg) and (n.arg == "state" or n.arg.endswith("_state")):
            return False
    return True


def is_clone_call(node, sc: Scope):
    """`<obj>.clone(...)` -> the source object."""
    if isinstance(node, ast.Call) and isinstance(node.func, ast.Attribute) and node.func.attr == "clone":
        o = obj_of(node.func.value, sc)
        if o is None:
            return None
        if node.args or any(k.arg != "disable_auto_fork" for k in node.keywords):
            raise Untranslatable(f"clone with unexpected arguments: {ast.unparse(node)}")
        return o
    return None


def reads_in(node, sc: Scope):
    """State reads of an expression, in evaluation order: `o["name"]`, `o.get_tensor_value("name")`.  Returns the atoms;
    raises when the expression mentions a State in another way."""
    atoms = []
    consumed = set()

    def visit(n):
        if isinstance(n, ast.Subscript) and isinstance(n.ctx, ast.Load):
            o = obj_of(n.value, sc)
            if o is not None:
                if isinstance(n.slice, ast.Constant) and isinstance(n.slice.value, str):
                    atoms.append(("AGet", o, ("GName", n.slice.value)))
                    consumed.add(id(n.value))
                    return
                raise Untranslatable(f"read of a State with a computed key: {ast.unparse(n)}")
        if isinstance(n, ast.Call) and isinstance(n.func, ast.Attribute) and n.func.attr == "get_tensor_value":
            o = obj_of(n.func.value, sc)
            if o is not None:
                if len(n.args) == 1 and isinstance(n.args[0], ast.Constant) and isinstance(n.args[0].value, str) and not n.keywords:
                    atoms.append(("AGet", o, ("GName", n.args[0].value)))
                    consumed.add(id(n.func.value))
                    return
                raise Untranslatable(f"get_tensor_value with a computed name: {ast.unparse(n)}")
        if obj_of(n, sc) is not None and id(n) not in consumed:
            raise Untranslatable(f"a State object is used in an expression of unknown form: {ast.unparse(node)[:160]}")
        if isinstance(n, ast.Attribute) and n.attr in ("state", "_state"):
            raise Untranslatable(f"a State attribute is used in an expression of unknown form: {ast.unparse(node)[:160]}")
        for ch in ast.iter_child_nodes(n):
            visit(ch)

    visit(node)
    return atoms


def group_of_key(key, sc: Scope):
    if isinstance(key, ast.Constant) and isinstance(key.value, str):
        return ("GName", key.value)
    return None


# ----------------------------------------------------------------------------- the statement walker


class Walker:
    def __init__(self, ctx: Ctx, helpers):
        self.ctx = ctx
        self.helpers = helpers       # callee attribute name -> handler(self, call, sc, out) -> returned sobj or None

    def bind(self, name):
        if name in self.ctx.bound:
            raise Untranslatable(f"python name `{name}` is bound to a State twice (the flat name space of the generated program cannot express it)")
        self.ctx.bound.add(name)

    def block(self, stmts, sc: Scope, out: list, what: str):
        """Translate a list of statements; returns the sobj of a returned State (or None)."""
        ret = None
        for st in stmts:
            r = self.stmt(st, sc, out, what)
            if r is not None:
                ret = r
        return ret

    def call_helper(self, call: ast.Call, sc: Scope, out: list, what: str):
        if isinstance(call, ast.Call) and isinstance(call.func, ast.Attribute):
            h = self.helpers.get(call.func.attr)
            if h is not None:
                return h(self, call, sc, out, what)
        return NotImplemented

    def stmt(self, st, sc: Scope, out: list, what: str):
        if isinstance(st, ast.Expr) and isinstance(st.value, ast.Constant):
            return None
        if isinstance(st, (ast.Pass, ast.Import, ast.ImportFrom, ast.Raise, ast.Assert)):
            require_state_free(st, sc, self.ctx, what)
            return None
        if isinstance(st, ast.AnnAssign) and st.value is not None:
            st = ast.Assign(targets=[st.target], value=st.value)
        if isinstance(st, ast.Assign):
            return self.assign(st, sc, out, what)
        if isinstance(st, ast.Expr):
            if isinstance(st.value, ast.Call):
                r = self.call_helper(st.value, sc, out, what)
                if r is not NotImplemented:
                    return None
            out.extend(self.expr_reads(st.value, sc, what))
            return None
        if isinstance(st, ast.With):
            return self.with_(st, sc, out, what)
        if isinstance(st, ast.If):
            return self.if_(st, sc, out, what)
        if isinstance(st, ast.For):
            return self.for_(st, sc, out, what)
        if isinstance(st, ast.Return):
            if st.value is None:
                return None
            o = obj_of(st.value, sc)
            if o is not None:
                return o
            out.extend(self.expr_reads(st.value, sc, what))
            return None
        require_state_free(st, sc, self.ctx, what)
        return None

    def expr_reads(self, node, sc: Scope, what: str):
        atoms = reads_in(node, sc)
        for d in object_calls(node, sc):
            if d not in self.ctx.pure:
                raise Untranslatable(f"{what}: call `{d}` is not known to leave every State alone: {ast.unparse(node)[:160]}")
        return atoms

    def assign(self, st: ast.Assign, sc: Scope, out: list, what: str):
        if len(st.targets) != 1:
            require_state_free(st, sc, self.ctx, what)
            return None
        tgt, val = st.targets[0], st.value
        # model.state = x
        if isinstance(tgt, ast.Attribute) and tgt.attr in ("state", "_state") and dotted(tgt.value) in sc.model:
            o = obj_of(val, sc)
            if o is None:
                raise Untranslatable(f"{what}: model state replaced by something that is not a known State: {ast.unparse(st)}")
            out.append(("ASetModel", o))
            return None
        # o[key] = value
        if isinstance(tgt, ast.Subscript):
            o = obj_of(tgt.value, sc)
            if o is not None:
                g = group_of_key(tgt.slice, sc)
                if g is None:
                    raise Untranslatable(f"{what}: assignment to a State with a computed key outside a known loop: {ast.unparse(st)}")
                out.extend(self.put(o, g, val, sc, what))
                return None
            # states[idx] = o.clone(...)
            src = is_clone_call(val, sc)
            if src is not None:
                if not (isinstance(tgt.value, ast.Name) and isinstance(tgt.slice, ast.Name) and tgt.slice.id == sc.loopvar):
                    raise Untranslatable(f"{what}: clone stored in something that is not `dict[individual]`: {ast.unparse(st)}")
                sc.dicts.add(tgt.value.id)
                self.bind(tgt.value.id)
                out.append(("AClone", ("OAt", tgt.value.id), src))
                return None
        if isinstance(tgt, ast.Name):
            o = obj_of(val, sc)
            if o is not None:                      # x = <state>
                if o == ("OVar", tgt.id):
                    return None
                self.bind(tgt.id)
                sc.states[tgt.id] = ("OVar", tgt.id)
                out.append(("AAlias", tgt.id, o))
                return None
            src = is_clone_call(val, sc)
            if src is not None:                    # x = <state>.clone(...)
                self.bind(tgt.id)
                sc.states[tgt.id] = ("OVar", tgt.id)
                out.append(("AClone", ("OVar", tgt.id), src))
                return None
            if isinstance(val, ast.Call):
                r = self.call_helper(val, sc, out, what)
                if r is not NotImplemented:
                    if r is not None:              # the helper returned a State
                        if r != ("OVar", tgt.id):
                            self.bind(tgt.id)
                            out.append(("AAlias", tgt.id, r))
                        sc.states[tgt.id] = ("OVar", tgt.id)
                    return None
            if tgt.id in sc.states or tgt.id in sc.dicts:
                if isinstance(val, ast.Dict) and not val.keys and tgt.id not in sc.states:
                    return None
                raise Untranslatable(f"{what}: a name bound to a State is re-assigned: {ast.unparse(st)[:160]}")
            out.extend(self.expr_reads(val, sc, what))
            return None
        if mentions_state(tgt, sc):
            raise Untranslatable(f"{what}: assignment target of unknown form: {ast.unparse(st)[:160]}")
        out.extend(self.expr_reads(val, sc, what))
        return None

    def put(self, o, g, val, sc: Scope, what: str):
        atoms = []
        if isinstance(val, ast.Constant) and val.value is None:
            return [("APut", o, g, ("VNone",))]
        atoms.extend(self.expr_reads(val, sc, what))     # reads of a State inside the value come first
        atoms.append(("APut", o, g, ("VIn", ast.unparse(val))))
        return atoms

    def with_(self, st: ast.With, sc: Scope, out: list, what: str):
        if len(st.items) != 1 or st.items[0].optional_vars is not None:
            raise Untranslatable(f"{what}: `with` of unknown form: {ast.unparse(st.items[0].context_expr) if st.items else ''}")
        ce = st.items[0].context_expr
        if isinstance(ce, ast.Call) and isinstance(ce.func, ast.Attribute) and ce.func.attr == "auto_fork":
            o = obj_of(ce.func.value, sc)
            if o is None:
                raise Untranslatable(f"{what}: auto_fork on an unknown object: {ast.unparse(ce)}")
            if not (len(ce.args) == 1 and isinstance(ce.args[0], ast.Constant) and ce.args[0].value is None and not ce.keywords):
                raise Untranslatable(f"{what}: auto_fork with an argument other than None: {ast.unparse(ce)}")
            out.append(("AFork", o, True))
            r = self.block(st.body, sc, out, what)
            out.append(("AFork", o, False))
            return r
        d = dotted(ce.func) if isinstance(ce, ast.Call) else None
        if (d in self.ctx.pure or d in self.ctx.contexts) and not any(obj_of(a, sc) is not None for a in ce.args):
            return self.block(st.body, sc, out, what)
        raise Untranslatable(f"{what}: `with {ast.unparse(ce)}` is not a known context")

    def if_(self, st: ast.If, sc: Scope, out: list, what: str):
        out.extend(self.expr_reads(st.test, sc, what))
        branches = []
        node = st
        while True:
            branches.append(node.body)
            if len(node.orelse) == 1 and isinstance(node.orelse[0], ast.If):
                node = node.orelse[0]
                out.extend(self.expr_reads(node.test, sc, what))
                continue
            branches.append(node.orelse)
            break
        results = []
        for b in branches:
            if b and all(isinstance(x, ast.Raise) for x in b[-1:]) and len(b) == 1:
                require_state_free(b[0], sc, self.ctx, what)
                continue
            o2 = []
            saved = set(self.ctx.bound)
            self.block(b, sc.child(states=dict(sc.states), dicts=set(sc.dicts)), o2, what)
            if self.ctx.bound != saved and o2:
                raise Untranslatable(f"{what}: a State is bound inside a conditional branch")
            results.append(o2)
        nonempty = [r for r in results if r]
        if not nonempty:
            return None
        def strip(r):
            return [a[:3] + (("VIn",),) if a[0] == "APut" and a[3][0] == "VIn" else a for a in r]
        if len(nonempty) != len(results) or any(strip(r) != strip(nonempty[0]) for r in nonempty):
            raise Untranslatable(f"{what}: the branches of `if {ast.unparse(st.test)[:80]}` do not perform the same State operations")
        merged = []
        for i, a in enumerate(nonempty[0]):
            if a[0] == "APut" and a[3][0] == "VIn":      # same operation, the value is written differently in the branches
                labels = []
                for r in nonempty:
                    if r[i][3][1] not in labels:
                        labels.append(r[i][3][1])
                a = a[:3] + (("VIn", " | ".join(labels)),)
            merged.append(a)
        out.extend(merged)
        return None

    def for_(self, st: ast.For, sc: Scope, out: list, what: str):
        if st.orelse:
            raise Untranslatable(f"{what}: for-else")
        # for k, v in D.items(): o[k] = v
        if (isinstance(st.iter, ast.Call) and isinstance(st.iter.func, ast.Attribute) and st.iter.func.attr == "items"
                and isinstance(st.iter.func.value, ast.Name) and not st.iter.args
                and isinstance(st.target, ast.Tuple) and len(st.target.elts) == 2 and all(isinstance(e, ast.Name) for e in st.target.elts)
                and len(st.body) == 1 and isinstance(st.body[0], ast.Assign) and len(st.body[0].targets) == 1
                and isinstance(st.body[0].targets[0], ast.Subscript)):
            k, v = (e.id for e in st.target.elts)
            a = st.body[0]
            o = obj_of(a.targets[0].value, sc)
            if o is not None:
                if not (isinstance(a.targets[0].slice, ast.Name) and a.targets[0].slice.id == k and isinstance(a.value, ast.Name) and a.value.id == v):
                    raise Untranslatable(f"{what}: loop over `{ast.unparse(st.iter)}` assigns something else than its items: {ast.unparse(a)}")
                out.append(("APut", o, ("GKeys", st.iter.func.value.id), ("VIn", v)))
                return None
        # for obs_model in <model>.obs_models: o[obs_model.name] = <value>
        if (isinstance(st.iter, ast.Attribute) and st.iter.attr == "obs_models" and dotted(st.iter.value) in sc.model
                and isinstance(st.target, ast.Name) and len(st.body) == 1 and isinstance(st.body[0], ast.Assign)
                and len(st.body[0].targets) == 1 and isinstance(st.body[0].targets[0], ast.Subscript)):
            a = st.body[0]
            o = obj_of(a.targets[0].value, sc)
            if o is not None:
                if ast.unparse(a.targets[0].slice) != f"{st.target.id}.name":
                    raise Untranslatable(f"{what}: loop over obs_models assigns another key: {ast.unparse(a)}")
                if isinstance(a.value, ast.Constant) and a.value.value is None:
                    out.append(("APut", o, ("GObs",), ("VNone",)))
                elif mentions_state(a.value, sc):
                    raise Untranslatable(f"{what}: observation value read from a State: {ast.unparse(a)}")
                else:
                    out.append(("APut", o, ("GObs",), ("VIn", ast.unparse(a.value))))
                return None
        if self.ctx.work_tag is not None and mentions_state(st, sc):
            o = confined_region(st, sc, self.ctx, what)
            add_work(out, self.ctx.work_tag, o)
            return None
        require_state_free(st, sc, self.ctx, what)
        return None


def add_work(out, tag, o):
    if out and out[-1] == ("AWork", tag, o):
        return                          # the same activity goes on
    out.append(("AWork", tag, o))


def confined_region(node, sc: Scope, ctx: Ctx, what: str):
    """A statement (typically the sampling loop) all of whose State operations are on ONE object: that object.  No clone,
    no aliasing, no `model.state`, no per-individual dictionary; a State is passed only as first argument of `.sample(...)`;
    other calls on the algorithm are known to be State-free."""
    objs = set()
    for n in ast.walk(node):
        if isinstance(n, ast.Attribute) and n.attr in ("state", "_state"):
            raise Untranslatable(f"{what}: `{ast.unparse(n)}` inside an activity that must be confined to a local State name")
        if isinstance(n, ast.Name) and n.id in sc.dicts:
            raise Untranslatable(f"{what}: dictionary of States used inside a confined activity")
        if isinstance(n, ast.Name) and n.id in sc.states:
            objs.add(sc.states[n.id])
            if isinstance(n.ctx, ast.Store):
                raise Untranslatable(f"{what}: State name `{n.id}` re-bound inside a confined activity")
        if isinstance(n, ast.Call):
            if isinstance(n.func, ast.Attribute) and n.func.attr in ("clone", "auto_fork"):
                raise Untranslatable(f"{what}: `{ast.unparse(n)[:80]}` inside a confined activity")
            for i, a in enumerate(list(n.args) + [k.value for k in n.keywords]):
                if obj_of(a, sc) is not None and not (isinstance(n.func, ast.Attribute) and n.func.attr == "sample" and i == 0):
                    raise Untranslatable(f"{what}: a State is passed to `{ast.unparse(n.func)}` inside a confined activity")
        if isinstance(n, (ast.Assign, ast.AugAssign)):
            for t in (n.targets if isinstance(n, ast.Assign) else [n.target]):
                for m in ast.walk(t):
                    if isinstance(m, ast.Subscript) and obj_of(m.value, sc) is not None:
                        raise Untranslatable(f"{what}: direct assignment to a State inside a confined activity: {ast.unparse(n)[:100]}")
    for d in object_calls(node, sc):
        if d not in ctx.pure:
            raise Untranslatable(f"{what}: call `{d}` inside a confined activity is not known to be State-free")
    if len(objs) != 1:
        raise Untranslatable(f"{what}: confined activity addresses {len(objs)} State objects")
    return objs.pop()


def confined_method(tables, name, param, what, seen=None):
    """Method `name` only ever uses the State it receives as `param`: no `.state` attribute, no clone, and it hands the State
    only to methods of the same object that are confined too (or to `minimize(..., args=(state, ...))`)."""
    seen = seen if seen is not None else set()
    if (name, param) in seen:
        return
    seen.add((name, param))
    fn = None
    for t in tables:
        if name in t:
            fn = t[name]
            break
    if fn is None:
        raise Untranslatable(f"{what}: method `{name}` not found")
    pos, kwo = params_of(fn)
    if param not in pos + kwo:
        raise Untranslatable(f"{what}: `{name}` has no parameter `{param}`")
    for n in ast.walk(fn):
        if isinstance(n, ast.Attribute) and n.attr in ("state", "_state"):
            raise Untranslatable(f"{what}: `{name}` names `{ast.unparse(n)}`")
        if isinstance(n, ast.Name) and n.id == param and isinstance(n.ctx, ast.Store):
            raise Untranslatable(f"{what}: `{name}` re-binds `{param}`")
        if isinstance(n, ast.Call):
            if isinstance(n.func, ast.Attribute) and n.func.attr == "clone":
                raise Untranslatable(f"{what}: `{name}` clones a State")
            d = dotted(n.func)
            passes = [i for i, a in enumerate(n.args) if isinstance(a, ast.Name) and a.id == param]
            kpasses = [k.arg for k in n.keywords if isinstance(k.value, ast.Name) and k.value.id == param]
            if d and d.startswith("self.") and d.count(".") == 1 and (passes or kpasses):
                callee = d.split(".")[1]
                cfn = next((t[callee] for t in tables if callee in t), None)
                if cfn is None:
                    raise Untranslatable(f"{what}: `{name}` hands its State to unknown `{d}`")
                cpos, _ = params_of(cfn)
                cpos = cpos[1:] if cpos and cpos[0] == "self" else cpos
                for i in passes:
                    if i >= len(cpos):
                        raise Untranslatable(f"{what}: `{d}` positional State argument out of range")
                    confined_method(tables, callee, cpos[i], what, seen)
                for k in kpasses:
                    confined_method(tables, callee, k, what, seen)


def no_model_state_in(path, what):
    tree = ast.parse(path.read_text())
    for n in ast.walk(tree):
        if isinstance(n, ast.Attribute) and n.attr in ("state", "_state"):
            raise Untranslatable(f"{what}: {path.name} names `{ast.unparse(n)}`")
        if isinstance(n, ast.Call) and isinstance(n.func, ast.Attribute) and n.func.attr == "clone" and not n.args and "tensor" not in ast.unparse(n.func.value):
            src = ast.unparse(n.func.value)
            if "state" in src:
                raise Untranslatable(f"{what}: {path.name} clones a State: {ast.unparse(n)}")


# ----------------------------------------------------------------------------- helpers shared by the calls


class Sources:
    def __init__(self):
        self.base_model = load_methods(SRC / "models" / "base.py", "BaseModel")
        self.mcmc_model = load_methods(SRC / "models" / "mcmc_saem_compatible.py", "McmcSaemCompatibleModel")
        self.joint_model = load_methods(SRC / "models" / "joint.py", "JointModel")
        self.state = load_methods(SRC / "variables" / "state.py", "State")
        self.algo_base = load_methods(SRC / "algo" / "base.py", "BaseAlgorithm")
        self.pers_base = load_methods(SRC / "algo" / "personalize" / "base.py", "PersonalizeAlgorithm")
        self.mcmc = load_methods(SRC / "algo" / "personalize" / "mcmc.py", "McmcPersonalizeAlgorithm")
        self.scipy = load_methods(SRC / "algo" / "personalize" / "scipy_minimize.py", "ScipyMinimizeAlgorithm")

    def method(self, table, name, what):
        if name not in table:
            raise Untranslatable(f"{what}: method `{name}` not found")
        return table[name]


def params_of(fn: ast.FunctionDef):
    a = fn.args
    return [x.arg for x in a.posonlyargs + a.args], [x.arg for x in a.kwonlyargs]


def bind_call(fn: ast.FunctionDef, call: ast.Call, skip_self=True):
    """python parameter name -> argument expression of `call` (positional + keyword)."""
    pos, kwo = params_of(fn)
    if skip_self and pos and pos[0] == "self":
        pos = pos[1:]
    if len(call.args) > len(pos):
        raise Untranslatable(f"call `{ast.unparse(call)[:100]}` passes more positional arguments than `{fn.name}` takes")
    m = dict(zip(pos, call.args))
    for k in call.keywords:
        if k.arg is None or (k.arg not in pos and k.arg not in kwo):
            raise Untranslatable(f"call `{ast.unparse(call)[:100]}`: unknown keyword for `{fn.name}`")
        m[k.arg] = k.value
    return m


def h_put_data_timepoints(src: Sources, model_table):
    """`<model>._put_data_timepoints(o, v)`: every non-raising branch assigns "t" on the state parameter."""
    def h(w: Walker, call, sc, out, what):
        if dotted(call.func.value) not in sc.model:
            return NotImplemented
        fn = src.method(model_table, "_put_data_timepoints", what)
        m = bind_call(fn, call)
        o = obj_of(m.get("state"), sc) if m.get("state") is not None else None
        if o is None:
            raise Untranslatable(f"{what}: `_put_data_timepoints` on an unknown State: {ast.unparse(call)}")
        if mentions_state(m["timepoints"], sc):
            raise Untranslatable(f"{what}: time points read from a State: {ast.unparse(call)}")
        inner = Scope({"self"}, {"state": ("OVar", "\0state")})
        o2 = []
        Walker(Ctx(pure=()), {}).block(fn.body, inner, o2, "_put_data_timepoints")
        puts = [a for a in o2 if a[0] == "APut"]
        if len(o2) != 1 or len(puts) != 1 or puts[0][1] != ("OVar", "\0state") or puts[0][2] != ("GName", "t") or puts[0][3][0] != "VIn":
            raise Untranslatable(f"_put_data_timepoints does something else than `state['t'] = <time points>`: {o2!r}")
        out.append(("APut", o, ("GName", "t"), ("VIn", ast.unparse(m["timepoints"]))))
        return None
    return h


def inline_state_method(src: Sources, table, name, state_param="state", model_param=None):
    """Helper for a method `name(self|model, state, ...)` whose body is translated with `state` bound to the caller's object."""
    def h(w: Walker, call, sc, out, what):
        if dotted(call.func.value) not in sc.model:
            return NotImplemented
        fn = src.method(table, name, what)
        m = bind_call(fn, call)
        if state_param not in m or obj_of(m[state_param], sc) is None:
            raise Untranslatable(f"{what}: `{name}` on an unknown State: {ast.unparse(call)}")
        for k, v in m.items():
            if k != state_param and mentions_state(v, sc):
                raise Untranslatable(f"{what}: `{name}` receives a State in `{k}`: {ast.unparse(call)}")
        inner = Scope({"self"}, {state_param: obj_of(m[state_param], sc)})
        w2 = Walker(w.ctx, w.helpers)
        w2.block(fn.body, inner, out, name)
        return None
    return h


def h_put_individual_latent_variables(src: Sources):
    """`o.put_individual_latent_variables(method, n_individuals=...)` (variables/state.py): without `df`, every individual
    latent variable (sorted) is assigned — None when method is None, otherwise the value of its initialisation function,
    which reads the same state."""
    def h(w: Walker, call, sc, out, what):
        o = obj_of(call.func.value, sc)
        if o is None:
            return NotImplemented
        fn = src.method(src.state, "put_individual_latent_variables", what)
        m = bind_call(fn, call)
        if "df" in m:
            raise Untranslatable(f"{what}: put_individual_latent_variables(df=...) is not modelled")
        if "method" not in m:
            raise Untranslatable(f"{what}: put_individual_latent_variables without a method")
        # the shape of the method itself
        want_names = "individual_parameters = sorted(list(set(self.dag.sorted_variables_by_type[IndividualLatentVariable])))"
        want_loop = ("for individual_parameter in individual_parameters:\n"
                     "    var: IndividualLatentVariable = self.dag[individual_parameter]\n"
                     "    if method is None:\n        self[individual_parameter] = None\n"
                     "    else:\n        self[individual_parameter] = var.get_init_func(method, n_individuals=n_individuals).call(self)")
        body = [s for s in fn.body if not (isinstance(s, ast.Expr) and isinstance(s.value, ast.Constant))]
        texts = [ast.unparse(s) for s in body]
        if ast.unparse(ast.parse(want_names)) not in texts:
            raise Untranslatable("State.put_individual_latent_variables: the list of variables is not the sorted individual latent variables of the DAG")
        last = body[-1]
        if not (isinstance(last, ast.If) and ast.unparse(last.test) == "df is not None" and len(last.orelse) == 1
                and ast.unparse(last.orelse[0]) == ast.unparse(ast.parse(want_loop))):
            raise Untranslatable("State.put_individual_latent_variables: the branch without `df` is not the known loop over every individual variable")
        for s in body[:-1]:
            if ast.unparse(s) != ast.unparse(ast.parse(want_names)) and any(isinstance(n, (ast.Subscript, ast.Call)) and "self[" in ast.unparse(n) for n in ast.walk(s)):
                raise Untranslatable("State.put_individual_latent_variables: State access before the loop")
        meth = m["method"]
        if isinstance(meth, ast.Constant) and meth.value is None:
            out.append(("APut", o, ("GInd",), ("VNone",)))
        elif dotted(meth) in ("LatentVariableInitType.PRIOR_MODE", "LatentVariableInitType.PRIOR_SAMPLES", "LatentVariableInitType.PRIOR_MEAN"):
            out.append(("APut", o, ("GInd",), ("VInit",)))
        else:
            raise Untranslatable(f"{what}: put_individual_latent_variables with an unknown method: {ast.unparse(meth)}")
        return None
    return h


def h_state_put(w: Walker, call, sc, out, what):
    """`o.put("name", value)`"""
    o = obj_of(call.func.value, sc)
    if o is None:
        return NotImplemented
    if len(call.args) != 2 or call.keywords or not (isinstance(call.args[0], ast.Constant) and isinstance(call.args[0].value, str)):
        raise Untranslatable(f"{what}: State.put of unknown form: {ast.unparse(call)[:120]}")
    out.extend(w.put(o, ("GName", call.args[0].value), call.args[1], sc, what))
    return None


def model_helpers(src: Sources, table):
    return {
        "_put_data_timepoints": h_put_data_timepoints(src, table),
        "put_data_variables": inline_state_method(src, src.mcmc_model, "put_data_variables"),
        "reset_data_variables": inline_state_method(src, src.mcmc_model, "reset_data_variables"),
        "put_individual_latent_variables": h_put_individual_latent_variables(src),
        "put": h_state_put,
    }


def check_pure(tables, names, what):
    """Every listed method exists in one of the tables and never names a State."""
    for name in names:
        fn = None
        for t in tables:
            if name in t:
                fn = t[name]
                break
        if fn is None:
            raise Untranslatable(f"{what}: method `{name}` (assumed State-free) not found")
        if not method_state_free(fn):
            raise Untranslatable(f"{what}: method `{name}` was assumed State-free but names a State")


# ----------------------------------------------------------------------------- estimate


def tr_trajectory(src: Sources, table, what):
    """compute_individual_trajectory of `table` as a loop body."""
    fn = src.method(table, "compute_individual_trajectory", what)
    check_pure([table, src.mcmc_model], ["_check_individual_parameters_provided", "_get_tensorized_inputs"], what)
    ctx = Ctx(pure={"self._check_individual_parameters_provided", "self._get_tensorized_inputs"})
    w = Walker(ctx, model_helpers(src, src.mcmc_model))
    out = []
    w.block(fn.body, Scope({"self"}), out, what)
    return out


def tr_estimate(src: Sources):
    """BaseModel.estimate: one compute_individual_trajectory per item of `timepoints`, nothing else touches a State."""
    fn = src.method(src.base_model, "estimate", "estimate")
    loops = [n for n in fn.body if isinstance(n, ast.For)]
    calls = [n for n in ast.walk(fn) if isinstance(n, ast.Call) and isinstance(n.func, ast.Attribute) and n.func.attr == "compute_individual_trajectory"]
    if len(calls) != 1 or dotted(calls[0].func) != "self.compute_individual_trajectory":
        raise Untranslatable("estimate: not exactly one call of self.compute_individual_trajectory")
    loop = [l for l in loops if any(c is calls[0] for c in ast.walk(l))]
    if len(loop) != 1 or ast.unparse(loop[0].iter) != "timepoints.items()" or ast.unparse(loop[0].target) != "(subj_id, tpts)":
        raise Untranslatable("estimate: the trajectory is not computed in `for subj_id, tpts in timepoints.items()`")
    want = ("for subj_id, tpts in timepoints.items():\n    ip = individual_parameters[subj_id]\n"
            "    est = self.compute_individual_trajectory(tpts, ip).cpu().numpy()\n    estimations[subj_id] = est[0]")
    if ast.unparse(loop[0]) != ast.unparse(ast.parse(want)):
        raise Untranslatable("estimate: the per-individual loop is not the known one")
    # the rest of the function never names a State and calls no other method of the model
    for st in fn.body:
        if st is loop[0]:
            continue
        sc = Scope({"self"})
        for n in ast.walk(st):
            if isinstance(n, ast.Attribute) and n.attr in ("state", "_state"):
                raise Untranslatable(f"estimate: State named outside the trajectory: {ast.unparse(st)[:120]}")
        for d in object_calls(st, sc):
            raise Untranslatable(f"estimate: unexpected call `{d}` outside the per-individual loop")
    progs = {}
    for key, table in (("gen_estimate", src.mcmc_model), ("gen_estimate_joint", src.joint_model)):
        progs[key] = [("SForInd", tr_trajectory(src, table, key))]
    return progs


# ----------------------------------------------------------------------------- personalize: common entry


def require_text(fn, text, what):
    want = ast.unparse(ast.parse(text))
    for node in ast.walk(fn):
        if isinstance(node, ast.stmt) and ast.unparse(node) == want:
            return node
    raise Untranslatable(f"{fn.name}: statement not found ({what}): {text}")


def names_no_state(fn, what):
    for n in ast.walk(fn):
        if isinstance(n, ast.Attribute) and n.attr in ("state", "_state"):
            raise Untranslatable(f"{what}: `{fn.name}` names `{ast.unparse(n)}`")


def tr_entry(src: Sources, public: str, arg: str):
    """BaseModel.<public> -> `algorithm.run(<arg>)` -> BaseAlgorithm.run: `_initialize_seed(self.seed)` (random, numpy,
    torch in this order) BEFORE `_run`, and none of these functions names a State."""
    fn = src.method(src.base_model, public, public)
    names_no_state(fn, public)
    require_text(fn, f"return algorithm.run({arg})", "the algorithm is run on the model itself")
    for d in object_calls(fn, Scope({"self"})):
        raise Untranslatable(f"{public}: unexpected call `{d}` on the model before the algorithm runs")
    run = src.method(src.algo_base, "run", "BaseAlgorithm.run")
    names_no_state(run, "BaseAlgorithm.run")
    body = [st for st in run.body]
    idx_seed = [i for i, st in enumerate(body) if ast.unparse(st) == "self._initialize_seed(self.seed)"]
    idx_run = [i for i, st in enumerate(body) if ast.unparse(st) == "output = self._run(model, **run_kwargs)"]
    if len(idx_seed) != 1 or len(idx_run) != 1 or idx_seed[0] > idx_run[0]:
        raise Untranslatable("BaseAlgorithm.run: `self._initialize_seed(self.seed)` does not precede `output = self._run(model, **run_kwargs)`")
    for d in object_calls(run, Scope({"model"})):
        if d not in ("self._initialize_seed", "self._run", "self._duration_to_str", "self.algo_parameters.get", "self.family.value.title"):
            raise Untranslatable(f"BaseAlgorithm.run: unexpected call `{d}`")
    seed = src.method(src.algo_base, "_initialize_seed", "_initialize_seed")
    want = "if seed is not None:\n    random.seed(seed)\n    np.random.seed(seed)\n    torch.manual_seed(seed)\n    print(f' ==> Setting seed to {seed}')"
    require_text(seed, want, "the three generators are seeded, python / numpy / torch")
    return [("ASeed",)]


def algo_pure_tables():
    return [load_methods(SRC / "algo" / "base.py", None), load_methods(SRC / "algo" / "algo_with_samplers.py", None),
            load_methods(SRC / "algo" / "algo_with_annealing.py", None), load_methods(SRC / "algo" / "algo_with_device.py", None)]


# ----------------------------------------------------------------------------- personalize: mean_posterior / mode_posterior


def tr_mcmc(src: Sources):
    out = tr_entry(src, "personalize", "self, dataset")
    run = src.method(src.pers_base, "_run", "PersonalizeAlgorithm._run")
    require_text(run, "return self._compute_individual_parameters(model, dataset, **kwargs)", "personalize runs _compute_individual_parameters")
    tables = algo_pure_tables()
    pure = ["_is_burn_in", "_update_temperature", "_display_progress_bar", "_initialize_annealing"]
    check_pure(tables, pure, "mcmc")
    for cls, f in (("MeanPosteriorAlgorithm", "mean_posterior.py"), ("ModePosteriorAlgorithm", "mode_posterior.py")):
        t = load_methods(SRC / "algo" / "personalize" / f, None)
        check_pure([t], ["_compute_individual_parameters_from_samples_torch"], f)
        for name, fn in t.items():
            if name in ("_compute_individual_parameters", "_get_individual_parameters", "_initialize_algo", "_terminate_algo", "_run", "run"):
                raise Untranslatable(f"{f} overrides `{name}`")
    confined_method(tables, "_initialize_samplers", "state", "mcmc")
    for f in ("base.py", "gibbs.py", "factory.py"):
        no_model_state_in(SRC / "samplers" / f, "samplers")
    ctx = Ctx(pure={"self." + x for x in pure} | {"self._compute_individual_parameters_from_samples_torch", "self.algo_parameters.get",
                                                  "self.samplers", "self.random_order_variables"},
              work_tag="sampling", contexts={"self._device_manager"})
    helpers = model_helpers(src, src.mcmc_model)

    def h_samplers(w, call, sc, out, what):
        if dotted(call.func) != "self._initialize_samplers":
            return NotImplemented
        if len(call.args) != 2 or call.keywords or obj_of(call.args[0], sc) is None or mentions_state(call.args[1], sc):
            raise Untranslatable(f"{what}: _initialize_samplers of unknown form: {ast.unparse(call)}")
        add_work(out, "sampling", obj_of(call.args[0], sc))
        return None

    def inline_self(name, state_params=()):
        def h(w, call, sc, out, what):
            if dotted(call.func) != "self." + name:
                return NotImplemented
            fn = src.method(src.mcmc, name, what)
            m = bind_call(fn, call)
            if "model" not in m or dotted(m["model"]) not in sc.model:
                raise Untranslatable(f"{what}: `{name}` is not called on the model: {ast.unparse(call)}")
            states = {}
            for k, v in m.items():
                if k in state_params:
                    o = obj_of(v, sc)
                    if o is None:
                        raise Untranslatable(f"{what}: `{name}` receives an unknown State: {ast.unparse(call)}")
                    states[k] = o
                elif k != "model" and mentions_state(v, sc):
                    raise Untranslatable(f"{what}: `{name}` receives a State in `{k}`")
            inner = Scope({"model"}, states)
            return Walker(w.ctx, w.helpers).block(fn.body, inner, out, name)
        return h

    helpers.update({"_initialize_samplers": h_samplers,
                    "_get_individual_parameters": inline_self("_get_individual_parameters"),
                    "_initialize_algo": inline_self("_initialize_algo"),
                    "_terminate_algo": inline_self("_terminate_algo", ("state",))})
    fn = src.method(src.mcmc, "_compute_individual_parameters", "mcmc")
    Walker(ctx, helpers).block(fn.body, Scope({"model"}), out, "mcmc._compute_individual_parameters")
    return {"gen_mcmc": out}


# ----------------------------------------------------------------------------- personalize: scipy_minimize


def tr_scipy(src: Sources):
    out = tr_entry(src, "personalize", "self, dataset")
    fn = src.method(src.scipy, "_compute_individual_parameters", "scipy")
    tables = [src.scipy] + algo_pure_tables()
    pure = ["_display_progress_bar", "is_jacobian_implemented"]
    check_pure(tables, ["_display_progress_bar"], "scipy")
    jac = src.method(src.scipy, "is_jacobian_implemented", "scipy")
    names_no_state(jac, "scipy")
    if ast.unparse(jac.body[-1]).replace(" ", "") != "returnany(('jacobian'invar_nameforvar_nameinmodel.dag))":
        raise Untranslatable("scipy: is_jacobian_implemented does more than looking at the names of the DAG")
    # the per-individual work: confined to the State it is given
    confined_method(tables, "_get_individual_parameters_patient_master", "state", "scipy")
    # put_individual_parameters of every shipped model: confined to its `state` parameter
    for f, cls in (("time_reparametrized.py", "TimeReparametrizedModel"), ("joint.py", "JointModel"), ("mixture.py", None)):
        t = load_methods(SRC / "models" / f, cls)
        confined_method([t], "put_individual_parameters", "state", f"models/{f}")
    ctx = Ctx(pure={"self." + x for x in pure} | {"self.algo_parameters.get"})
    helpers = model_helpers(src, src.mcmc_model)

    def h_put_ind(w, call, sc, out, what):
        if dotted(call.func.value) not in sc.model:
            return NotImplemented
        if len(call.args) != 2 or call.keywords or obj_of(call.args[0], sc) is None or mentions_state(call.args[1], sc):
            raise Untranslatable(f"{what}: put_individual_parameters of unknown form: {ast.unparse(call)}")
        add_work(out, "put_individual_parameters", obj_of(call.args[0], sc))
        return None

    def h_from_state(w, call, sc, out, what):
        if dotted(call.func) != "_AffineScalings1D.from_state":
            return NotImplemented
        if len(call.args) != 1 or obj_of(call.args[0], sc) is None or [k.arg for k in call.keywords] != ["var_type"] \
                or dotted(call.keywords[0].value) != "IndividualLatentVariable":
            raise Untranslatable(f"{what}: scalings of unknown form: {ast.unparse(call)}")
        out.append(("AGet", obj_of(call.args[0], sc), ("GScal",)))
        return None
    helpers.update({"put_individual_parameters": h_put_ind, "from_state": h_from_state})
    # `_AffineScalings1D.from_state` only reads the State it is given
    sc_t = load_methods(SRC / "algo" / "personalize" / "scipy_minimize.py", "_AffineScalings1D")
    fs = sc_t.get("from_state")
    if fs is None:
        raise Untranslatable("scipy: _AffineScalings1D.from_state not found")
    for n in ast.walk(fs):
        if isinstance(n, (ast.Assign, ast.AugAssign)):
            for t in (n.targets if isinstance(n, ast.Assign) else [n.target]):
                if "state" in ast.unparse(t).split("=")[0] and isinstance(t, ast.Subscript):
                    raise Untranslatable("scipy: _AffineScalings1D.from_state assigns to the State")
        if isinstance(n, ast.Call) and isinstance(n.func, ast.Attribute) and n.func.attr in ("clone", "put", "put_individual_latent_variables", "__setitem__"):
            raise Untranslatable(f"scipy: _AffineScalings1D.from_state calls `{n.func.attr}`")

    w = Walker(ctx, helpers)
    sc = Scope({"model"})
    top = []
    for st in fn.body:
        # the loop over the individuals that builds one State each
        if isinstance(st, ast.For) and ast.unparse(st.iter) == "dataset.indices" and isinstance(st.target, ast.Name) and not st.orelse \
                and mentions_state(st, sc):
            body = []
            w.block(st.body, sc.child(loopvar=st.target.id, dicts=sc.dicts, states=sc.states), body, "scipy loop")
            top.append(("SForInd", body))
            continue
        # the dispatch: one job per State, in the order of the dictionary
        if isinstance(st, ast.Assign) and "Parallel" in ast.unparse(st.value):
            want = ("ind_p_all = Parallel(n_jobs=self.algo_parameters['n_jobs'])((delayed(self._get_individual_parameters_patient_master)"
                    "(state_pat, scaling=ips_scalings, progress=(it_pat, dataset.n_individuals), with_jac=with_jac, patient_id=id_pat) "
                    "for it_pat, (id_pat, state_pat) in enumerate(states.items())))")
            if ast.unparse(st) != ast.unparse(ast.parse(want)):
                raise Untranslatable("scipy: the dispatch of the per-individual jobs is not the known `Parallel(...)(... for ... in enumerate(states.items()))`")
            if "states" not in sc.dicts:
                raise Untranslatable("scipy: `states` is not the dictionary filled with the per-individual clones")
            top.append(("SForInd", [("AWork", "patient", ("OAt", "states"))]))
            continue
        atoms = []
        w.stmt(st, sc, atoms, "scipy._compute_individual_parameters")
        top.extend(atoms)
    return {"gen_scipy": out + top, "gen_scipy_dispatch": "Parallel(n_jobs=self.algo_parameters['n_jobs'])"}


# ----------------------------------------------------------------------------- simulate


def tr_simulate(src: Sources):
    """simulate (algo/simulate/base.py `_run` and the four methods of simulate.py it calls): the FOOTPRINT of the call on the
    model's own state and on the generators — reads of hyper-parameters / parameters / "mixing_matrix" on `model.state`, numpy
    draws, `estimate` —, in source order but without the (data-dependent) loop structure."""
    out = tr_entry(src, "simulate", "self")
    base = load_methods(SRC / "algo" / "simulate" / "base.py", "BaseSimulationAlgorithm")
    sim = load_methods(SRC / "algo" / "simulate" / "simulate.py", "SimulationAlgorithm")
    run = src.method(base, "_run", "simulate")
    called = []
    for n in ast.walk(run):
        if isinstance(n, ast.Call) and dotted(n.func) and dotted(n.func).startswith("self."):
            called.append(dotted(n.func))
    want = ["self._sample_individual_parameters_from_model_parameters", "self._get_leaspy_model", "self._generate_visit_ages",
            "self._generate_dataset", "self.param_study.get"]
    if sorted(set(called)) != sorted(want):
        raise Untranslatable(f"simulate._run calls {sorted(set(called))}")
    foot = []
    uses_estimate = False

    def visit(node, model_names):
        nonlocal uses_estimate
        for ch in ast.iter_child_nodes(node):
            visit(ch, model_names)
        if isinstance(node, ast.Attribute):
            base_d = dotted(node.value)
            if node.attr in ("state", "_state"):
                if base_d not in model_names:
                    raise Untranslatable(f"simulate: `{ast.unparse(node)}`: State of an unknown object")
                return
            if base_d in model_names:
                if node.attr == "parameters":
                    add(("AGet", OMODEL, ("GParams",)))
                elif node.attr == "hyperparameters":
                    add(("AGet", OMODEL, ("GHyper",)))
                elif node.attr in ("source_dimension", "name", "features", "dimension", "estimate", "__class__"):
                    pass
                else:
                    raise Untranslatable(f"simulate: `{ast.unparse(node)}`: unknown use of the model")
        if isinstance(node, ast.Call):
            d = dotted(node.func) or ""
            if d.startswith("np.random.") or d == "beta.rvs":
                add(("ADraws", d, "GNp"))
            elif d.startswith("torch.rand") or d.startswith("torch.normal") or d.startswith("random."):
                add(("ADraws", d, "GTorch" if d.startswith("torch") else "GPy"))
            elif isinstance(node.func, ast.Attribute) and node.func.attr == "get_tensor_value":
                recv = node.func.value
                if not (isinstance(recv, ast.Attribute) and recv.attr in ("state", "_state") and dotted(recv.value) in model_names
                        and len(node.args) == 1 and isinstance(node.args[0], ast.Constant)):
                    raise Untranslatable(f"simulate: `{ast.unparse(node)[:80]}`")
                add(("AGet", OMODEL, ("GName", node.args[0].value)))
            elif isinstance(node.func, ast.Attribute) and dotted(node.func.value) in model_names:
                if node.func.attr == "estimate":
                    uses_estimate = True
                else:
                    raise Untranslatable(f"simulate: call `{d}` on the model")
            elif isinstance(node.func, ast.Attribute) and node.func.attr in ("clone", "put", "put_individual_latent_variables", "auto_fork"):
                if "state" in ast.unparse(node.func.value):
                    raise Untranslatable(f"simulate: `{ast.unparse(node)[:80]}`")
        if isinstance(node, (ast.Assign, ast.AugAssign)):
            for t in (node.targets if isinstance(node, ast.Assign) else [node.target]):
                txt = ast.unparse(t)
                for m in model_names:
                    if txt.startswith(m + ".") and txt != "self.model":
                        raise Untranslatable(f"simulate: assignment into the model: {ast.unparse(node)[:100]}")
                if isinstance(t, ast.Subscript) and any(ast.unparse(t.value).startswith(m + ".") for m in model_names):
                    raise Untranslatable(f"simulate: assignment into the model: {ast.unparse(node)[:100]}")

    def add(a):
        if a not in foot:
            foot.append(a)

    visit(run, {"model"})
    for name in ("_sample_individual_parameters_from_model_parameters", "_get_leaspy_model", "_check_logistic_model",
                 "_generate_visit_ages", "_generate_dataset"):
        fn = src.method(sim, name, "simulate")
        visit(fn, {"model", "self.model"})
    require_text(src.method(sim, "_get_leaspy_model", "simulate"), "self.model = model", "self.model is the model itself")
    if not uses_estimate:
        raise Untranslatable("simulate: no call of model.estimate")
    return {"gen_simulate_foot": [("ASeed",)] + foot}


# ----------------------------------------------------------------------------- settings


def tr_settings(src: Sources):
    """`self.algo_parameters = deepcopy(settings.parameters)` in BaseAlgorithm.__init__, nobody re-binds `algo_parameters` to the
    caller's dictionary, nobody writes through `settings.parameters`."""
    init = src.method(src.algo_base, "__init__", "BaseAlgorithm.__init__")
    asg = [n for n in ast.walk(init) if isinstance(n, ast.Assign) and any(ast.unparse(t) == "self.algo_parameters" for t in n.targets)]
    if len(asg) != 1:
        raise Untranslatable("BaseAlgorithm.__init__: algo_parameters not assigned exactly once")
    v = ast.unparse(asg[0].value)
    kind = {"deepcopy(settings.parameters)": "CopyDeep", "copy.deepcopy(settings.parameters)": "CopyDeep",
            "settings.parameters": "CopyAlias", "dict(settings.parameters)": "CopyShallow", "settings.parameters.copy()": "CopyShallow",
            "copy(settings.parameters)": "CopyShallow", "copy.copy(settings.parameters)": "CopyShallow"}.get(v)
    if kind is None:
        raise Untranslatable(f"BaseAlgorithm.__init__: algo_parameters = {v}: unknown kind of copy")
    if kind == "CopyDeep":
        mod = ast.parse((SRC / "algo" / "base.py").read_text())
        if not any(isinstance(n, ast.ImportFrom) and n.module == "copy" and any(a.name == "deepcopy" and a.asname is None for a in n.names) for n in mod.body) \
                and "copy.deepcopy" not in v:
            raise Untranslatable("algo/base.py: `deepcopy` is not copy.deepcopy")
    # every other module of leaspy.algo: no re-binding of algo_parameters to the settings' dictionary, no write through settings.parameters
    for path in sorted((SRC / "algo").rglob("*.py")):
        tree = ast.parse(path.read_text())
        for n in ast.walk(tree):
            tg = []
            if isinstance(n, ast.Assign):
                tg = n.targets
            elif isinstance(n, (ast.AugAssign, ast.AnnAssign)):
                tg = [n.target]
            for t in tg:
                txt = ast.unparse(t)
                if txt.endswith(".algo_parameters") and ast.unparse(n) != ast.unparse(asg[0]) and path.name != "settings.py":
                    val = ast.unparse(n.value) if getattr(n, "value", None) is not None else ""
                    if "settings" in val and "deepcopy" not in val:
                        raise Untranslatable(f"{path.name}: `{ast.unparse(n)[:100]}` binds algo_parameters to the caller's settings")
                if path.name != "settings.py" and isinstance(t, ast.Subscript) and ast.unparse(t.value).startswith("settings.parameters"):
                    raise Untranslatable(f"{path.name}: `{ast.unparse(n)[:100]}` writes into the caller's settings")
            if isinstance(n, ast.Call) and isinstance(n.func, ast.Attribute) and n.func.attr in ("update", "pop", "setdefault", "clear", "popitem", "__setitem__") \
                    and ast.unparse(n.func.value).startswith("settings.parameters") and path.name != "settings.py":
                raise Untranslatable(f"{path.name}: `{ast.unparse(n)[:100]}` mutates the caller's settings")
    return {"gen_settings_copy": kind}


# ----------------------------------------------------------------------------- entry point


def build(src: Sources | None = None):
    import warnings
    warnings.simplefilter("ignore", SyntaxWarning)      # docstrings of the translated sources
    src = src or Sources()
    progs = {}
    progs.update(tr_estimate(src))
    progs.update(tr_mcmc(src))
    progs.update(tr_scipy(src))
    progs.update(tr_simulate(src))
    progs.update(tr_settings(src))
    return progs


def translate(run: Run) -> bool:
    try:
        progs = build()
        out = [HEADER]
        for name, p in progs.items():
            if name == "gen_simulate_foot":
                out.append(f"Definition {name} : list atom :=\n  [" + ";\n   ".join(coq_atom(a) for a in p) + "].\n")
            elif name == "gen_settings_copy":
                out.append(f"Definition {name} : copy_kind := {p}.\n")
            elif isinstance(p, str):
                out.append(f"Definition {name} : string := {coq_str(p)}.\n")
            else:
                out.append(f"Definition {name} : prog :=\n  {coq_prog(p)}.\n")
        run.gen("GenC13", "\n".join(out))
        run.trusted.append("translator harness/translate/c13_calls.py (python ast -> source-level programs of Api/SrcProg.v: which State "
                           "object each clone / put / read / clean-up / `model.state =` addresses, copied from the source)")
        return True
    except (Untranslatable, KeyError, OSError, SyntaxError) as e:
        run.broken("translate:GenC13", f"{type(e).__name__}: {e}", kind="broken-translation")
        return False
