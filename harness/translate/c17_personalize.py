"""C17 — T1: regenerate coq/gen/GenC17.v from the personalisation sources.

What is read from the *current* source (python `ast` + harness/translate/pysym.py), fail closed:

* mcmc.py::_get_individual_parameters  — the iteration range, the test under which a draw is appended to the
  histories (with `_is_burn_in` of algo_with_samplers.py inlined), and the *shape* of the function: the three
  histories are appended under that single test, after the samplers of the iteration ran; they are stacked and
  handed to `_compute_individual_parameters_from_samples_torch`; the result goes to
  `IndividualParameters.from_pytorch(dataset.indices, ...)`.
* mean_posterior.py — `value_var.mean(dim=D)`: D.
* mode_posterior.py — the loss handed to `torch.argmin(..., dim=D)`, the regularity factor, the fancy index.
* scipy_minimize.py — the affine maps of `_AffineScalings1D.scaling/unscaling`, the slice table of `__post_init__`,
  `stack/unstack`, the objective of `obj_no_jac`, the `minimize(...)` call (objective, start, result) and the final
  assembly loop (`zip(dataset.indices, ind_p_all)`, `str(id_pat)`).

Expressions are symbolically executed (so `a + b*c` vs `b*c + a` both translate and the tie lemma decides); the
surrounding *shape* is compared as normalised source text (`ast.unparse`), so a rewrite of those statements is
reported as a broken translation and the implementation-side search then decides whether an input fails.
"""
from __future__ import annotations

import ast
from fractions import Fraction

from harness.common import Run, SRC
from harness.translate import pysym
from harness.translate.pysym import Emit, Spec, Untranslatable, definition

HEADER = """(* REGENERATED on every run from $VERIF_REPO/src/leaspy by harness/translate/c17_personalize.py — do not edit *)
From Coq Require Import ZArith Reals QArith Qreals Bool.
From Leaspy Require Import Base.QAux.
"""


def _func(methods, name):
    if name not in methods:
        raise Untranslatable(f"method {name} not found")
    return methods[name]


def _parents(tree):
    par = {}
    for node in ast.walk(tree):
        for ch in ast.iter_child_nodes(node):
            par[ch] = node
    return par


class _Subst(ast.NodeTransformer):
    """Replace sub-expressions (matched on their normalised source) by plain names."""

    def __init__(self, table):
        self.table = table
        self.hit = set()

    def generic_visit(self, node):
        if isinstance(node, ast.expr):
            s = ast.unparse(node)
            if s in self.table:
                self.hit.add(s)
                return ast.copy_location(ast.Name(id=self.table[s], ctx=ast.Load()), node)
        return super().generic_visit(node)

    def visit(self, node):
        if isinstance(node, ast.expr):
            s = ast.unparse(node)
            if s in self.table:
                self.hit.add(s)
                return ast.copy_location(ast.Name(id=self.table[s], ctx=ast.Load()), node)
        return super().visit(node)


def _sym(node, table, types, fixed=None):
    """Symbolic value of `node` after replacing the tensors named in `table` by scalar inputs."""
    sub = _Subst(table)
    n2 = sub.visit(ast.parse(ast.unparse(node), mode="eval").body)
    missing = set(table) - sub.hit
    ex = pysym.Exec(Spec(types=types, fixed=fixed or {}))
    env = {v: ("var", v) for v in table.values()}
    return ex.expr(n2, env, {}), missing


def _class_const(path, classname, attr):
    tree = ast.parse(path.read_text())
    for node in ast.walk(tree):
        if isinstance(node, ast.ClassDef) and node.name == classname:
            for st in node.body:
                tgt = None
                if isinstance(st, ast.AnnAssign) and isinstance(st.target, ast.Name):
                    tgt, val = st.target.id, st.value
                elif isinstance(st, ast.Assign) and len(st.targets) == 1 and isinstance(st.targets[0], ast.Name):
                    tgt, val = st.targets[0].id, st.value
                if tgt == attr:
                    if isinstance(val, ast.Constant) and isinstance(val.value, (int, float)) and not isinstance(val.value, bool):
                        return Fraction(*float(val.value).as_integer_ratio())
                    raise Untranslatable(f"{classname}.{attr} is not a numeric literal")
    raise Untranslatable(f"{classname}.{attr} not found")


def _require_stmt(fn, text, what):
    """The function must contain a statement whose normalised source is `text`."""
    want = ast.unparse(ast.parse(text))
    for node in ast.walk(fn):
        if isinstance(node, ast.stmt) and ast.unparse(node) == want:
            return node
    raise Untranslatable(f"{fn.name}: statement not found ({what}): {text}")


def _mcmc(out):
    samplers = pysym.load_methods(SRC / "algo" / "algo_with_samplers.py", "AlgorithmWithSamplersMixin")
    mcmc = pysym.load_methods(SRC / "algo" / "personalize" / "mcmc.py", "McmcPersonalizeAlgorithm")
    fn = _func(mcmc, "_get_individual_parameters")
    par = _parents(fn)
    zt = {"current_iteration": "Z", "n_burn_in_iter": "Z", "n_iter": "Z"}
    # the iteration loop
    loops = [n for n in ast.walk(fn) if isinstance(n, ast.For) and ast.unparse(n.target) == "self.current_iteration"]
    if len(loops) != 1:
        raise Untranslatable(f"{len(loops)} loops over self.current_iteration")
    loop = loops[0]
    if loop.orelse:
        raise Untranslatable("iteration loop has an else clause")
    _require_stmt(fn, "n_iter = self.algo_parameters['n_iter']", "iteration count")
    it = loop.iter
    if not (isinstance(it, ast.Call) and pysym.dotted(it.func) == "range" and len(it.args) == 2 and not it.keywords):
        raise Untranslatable("iteration loop is not `range(a, b)`")
    ex = pysym.Exec(Spec(types=zt, methods=samplers))
    env = {"n_iter": ("var", "n_iter")}
    lo, hi = ex.expr(it.args[0], env, {}), ex.expr(it.args[1], env, {})
    out.append(definition("gen_iter_lo", [], "Z", Emit(zt, "Z").num(lo)))
    out.append(definition("gen_iter_hi", [("n_iter", "Z")], "Z", Emit(zt, "Z").num(hi)))
    # the appends
    appends = [n for n in ast.walk(fn) if isinstance(n, ast.Call) and isinstance(n.func, ast.Attribute) and n.func.attr in ("append", "extend", "insert")]
    want = {
        "values_history[individual_variable_name].append(state[individual_variable_name])": "values",
        "attachment_history.append(state.get_tensor_value('nll_attach_ind'))": "attach",
        "regularity_history.append(state.get_tensor_value('nll_regul_ind_sum_ind'))": "regul",
    }
    seen = {}
    guards = []
    for a in appends:
        s = ast.unparse(a)
        if s not in want:
            raise Untranslatable(f"unexpected history update `{s}`")
        if want[s] in seen:
            raise Untranslatable(f"history `{want[s]}` appended twice")
        seen[want[s]] = a
        # climb to the enclosing If that is a direct child of the iteration loop
        node, chain = a, []
        while node is not loop:
            node = par.get(node)
            if node is None:
                raise Untranslatable(f"`{s}` is outside the iteration loop")
            chain.append(node)
        chain = chain[:-1]  # drop the loop itself
        ifs = [c for c in chain if isinstance(c, ast.If)]
        whiles = [c for c in chain if isinstance(c, (ast.While, ast.Try, ast.With))]
        fors = [c for c in chain if isinstance(c, ast.For)]
        if len(ifs) != 1 or whiles or ifs[0] not in loop.body or ifs[0].orelse:
            raise Untranslatable(f"`{s}` is not guarded by exactly one `if` of the iteration loop")
        if want[s] == "values":
            if len(fors) != 1 or ast.unparse(fors[0].iter) != "individual_variable_names" or ast.unparse(fors[0].target) != "individual_variable_name":
                raise Untranslatable("values are not appended for every individual variable")
        elif fors:
            raise Untranslatable(f"`{s}` is inside an inner loop")
        guards.append(ifs[0])
    if set(seen) != set(want.values()):
        raise Untranslatable(f"histories appended: {sorted(seen)}")
    if any(g is not guards[0] for g in guards):
        raise Untranslatable("the three histories are not appended under the same test")
    guard = guards[0]
    # the samplers of the iteration run before the draw is recorded
    idx_guard = loop.body.index(guard)
    sample_pos = [i for i, st in enumerate(loop.body) if any(isinstance(n, ast.Call) and isinstance(n.func, ast.Attribute) and n.func.attr == "sample" for n in ast.walk(st))]
    if not sample_pos or max(sample_pos) > idx_guard:
        raise Untranslatable("the draw is not recorded after the samplers of the iteration")
    for st in loop.body[:idx_guard]:
        for n in ast.walk(st):
            if isinstance(n, (ast.Break, ast.Continue, ast.Return)):
                raise Untranslatable("break/continue/return before the draw is recorded")
    keep = ex.truth(guard.test, {}, {})
    out.append(definition("gen_keep", [("current_iteration", "Z"), ("n_burn_in_iter", "Z")], "bool", Emit(zt, "Z").boolean(keep)))
    # shape after the loop
    _require_stmt(fn, "values_history = {name: [] for name in individual_variable_names}", "empty value histories")
    _require_stmt(fn, "attachment_history = []", "empty attachment history")
    _require_stmt(fn, "regularity_history = []", "empty regularity history")
    _require_stmt(fn, "torch_values = {individual_variable_name: torch.stack(individual_variable_values) for individual_variable_name, individual_variable_values in values_history.items()}", "stacked values")
    _require_stmt(fn, "torch_attachments = torch.stack(attachment_history)", "stacked attachments")
    _require_stmt(fn, "torch_tot_regularities = torch.stack(regularity_history)", "stacked regularities")
    _require_stmt(fn, "individual_parameters_torch = self._compute_individual_parameters_from_samples_torch(torch_values, torch_attachments, torch_tot_regularities)", "estimator call")
    _require_stmt(fn, "return IndividualParameters.from_pytorch(dataset.indices, individual_parameters_torch)", "from_pytorch(dataset.indices, ...)")
    # nothing else assigns the histories
    for n in ast.walk(fn):
        if isinstance(n, (ast.Assign, ast.AugAssign, ast.Delete)):
            tg = n.targets if isinstance(n, (ast.Assign, ast.Delete)) else [n.target]
            for t in tg:
                s = ast.unparse(t)
                if s.split("[")[0] in ("values_history", "attachment_history", "regularity_history") and not (
                        isinstance(n, ast.Assign) and s in ("values_history", "attachment_history", "regularity_history")):
                    raise Untranslatable(f"history modified by `{ast.unparse(n)}`")


def _from_pytorch(out):
    ip = pysym.load_methods(SRC / "io" / "outputs" / "individual_parameters.py", "IndividualParameters")
    fn = _func(ip, "from_pytorch")
    _require_stmt(fn, "for i, idx in enumerate(indices):\n    p = {k: dict_pytorch[k][i].tolist() for k in keys}\n    ip.add_individual_parameters(idx, p)",
                  "row i of every parameter goes to indices[i]")
    _require_stmt(fn, "keys = list(dict_pytorch.keys())", "keys")
    add = _func(ip, "add_individual_parameters")
    _require_stmt(add, "self._indices.append(index)", "index appended")
    src = ast.unparse(add)
    if "if not isinstance(index, str):" not in src or "if index in self._indices:" not in src:
        raise Untranslatable("add_individual_parameters: string / duplicate tests not found")
    out.append("Definition gen_ids_must_be_strings : bool := true.\nDefinition gen_duplicate_ids_refused : bool := true.\n")


def _mean(out):
    m = pysym.load_methods(SRC / "algo" / "personalize" / "mean_posterior.py", "MeanPosteriorAlgorithm")
    fn = _func(m, "_compute_individual_parameters_from_samples_torch")
    rets = [n for n in ast.walk(fn) if isinstance(n, ast.Return)]
    if len(rets) != 1 or not isinstance(rets[0].value, ast.DictComp):
        raise Untranslatable("mean_posterior: not a single dict-comprehension return")
    dc = rets[0].value
    g = dc.generators
    if len(g) != 1 or g[0].ifs or ast.unparse(g[0].iter) != "values.items()" or ast.unparse(g[0].target) != "(ind_var_name, value_var)" or ast.unparse(dc.key) != "ind_var_name":
        raise Untranslatable("mean_posterior: comprehension is not over values.items() keyed by name")
    v = dc.value
    if not (isinstance(v, ast.Call) and isinstance(v.func, ast.Attribute) and v.func.attr == "mean" and ast.unparse(v.func.value) == "value_var"
            and not v.args and len(v.keywords) == 1 and v.keywords[0].arg == "dim" and isinstance(v.keywords[0].value, ast.Constant)
            and isinstance(v.keywords[0].value.value, int)):
        raise Untranslatable("mean_posterior: value is not `value_var.mean(dim=<int>)`: " + ast.unparse(v))
    out.append(definition("gen_mean_dim", [], "Z", f"({v.keywords[0].value.value})%Z"))


def _mode(out):
    path = SRC / "algo" / "personalize" / "mode_posterior.py"
    m = pysym.load_methods(path, "ModePosteriorAlgorithm")
    fn = _func(m, "_compute_individual_parameters_from_samples_torch")
    factor = _class_const(path, "ModePosteriorAlgorithm", "regularity_factor")
    asg = [n for n in ast.walk(fn) if isinstance(n, ast.Assign) and ast.unparse(n.targets[0]) == "indices_iter_best"]
    if len(asg) != 1:
        raise Untranslatable("mode_posterior: indices_iter_best not assigned exactly once")
    call = asg[0].value
    if not (isinstance(call, ast.Call) and pysym.dotted(call.func) == "torch.argmin" and len(call.args) == 1 and len(call.keywords) == 1
            and call.keywords[0].arg == "dim" and isinstance(call.keywords[0].value, ast.Constant)):
        raise Untranslatable("mode_posterior: not `torch.argmin(<loss>, dim=<int>)`")
    types = {"att": "Q", "reg": "Q", "regularity_factor": "Q"}
    e, missing = _sym(call.args[0], {"attachments": "att", "regularities": "reg"}, types, fixed={"regularity_factor": factor})
    out.append(definition("gen_mode_loss", [("att", "Q"), ("reg", "Q")], "Q", Emit(types, "Q").num(e)))
    out.append(definition("gen_argmin_dim", [], "Z", f"({int(call.keywords[0].value.value)})%Z"))
    _require_stmt(fn, "indices_individuals = torch.arange(len(indices_iter_best))", "individual index")
    _require_stmt(fn, "return {ind_var_name: value_var[indices_iter_best, indices_individuals] for ind_var_name, value_var in values.items()}",
                  "selection value_var[best[i], i]")


def _scipy(out):
    path = SRC / "algo" / "personalize" / "scipy_minimize.py"
    sc = pysym.load_methods(path, "_AffineScalings1D")
    types = {"loc": "R", "scale": "R", "x": "R"}
    comp_tables = {
        "unscaling": {"scaling.loc": "loc", "scaling.scale": "scale", "x[self.slices[n]]": "x"},
        "scaling": {"scaling.loc": "loc", "scaling.scale": "scale", "x_stacked[self.slices[n]].float()": "x"},
    }
    for name, table in comp_tables.items():
        fn = _func(sc, name)
        comps = [n for n in ast.walk(fn) if isinstance(n, ast.ListComp)]
        if len(comps) != 1:
            raise Untranslatable(f"_AffineScalings1D.{name}: {len(comps)} list comprehensions")
        lc = comps[0]
        g = lc.generators
        if len(g) != 1 or g[0].ifs or ast.unparse(g[0].iter) != "self.scalings.items()" or ast.unparse(g[0].target) != "(n, scaling)":
            raise Untranslatable(f"_AffineScalings1D.{name}: comprehension is not over self.scalings.items()")
        e, missing = _sym(lc.elt, table, types)
        if missing:
            raise Untranslatable(f"_AffineScalings1D.{name}: {sorted(missing)} not used in `{ast.unparse(lc.elt)}`")
        for dom in ("Q", "R"):
            tt = {k: dom for k in types}
            out.append(definition(f"gen_{'unscale' if name == 'unscaling' else 'scale'}_{dom}", [("loc", dom), ("scale", dom), ("x", dom)], dom, Emit(tt, dom).num(e)))
    _require_stmt(_func(sc, "unscaling"), "return self.unstack(x_unscaled)", "unscaling = unstack(cat(...))")
    fn = _func(sc, "unscaling")
    if "x_unscaled = torch.cat([" not in ast.unparse(fn):
        raise Untranslatable("unscaling: pieces are not concatenated with torch.cat")
    fn = _func(sc, "scaling")
    _require_stmt(fn, "x_stacked = self.stack(x)", "scaling starts from stack(x)")
    rets = [n for n in ast.walk(fn) if isinstance(n, ast.Return)]
    if len(rets) != 1 or not ast.unparse(rets[0].value).startswith("torch.cat([") or not ast.unparse(rets[0].value).endswith(").detach().numpy()"):
        raise Untranslatable("scaling: result is not torch.cat([...]).detach().numpy()")
    _require_stmt(_func(sc, "stack"), "return torch.cat([x[n].float() for n, _ in self.scalings.items()])", "stack")
    _require_stmt(_func(sc, "unstack"), "return {n: x[None, self.slices[n]].float() for n, _ in self.scalings.items()}", "unstack")
    post = _func(sc, "__post_init__")
    _require_stmt(post, "dims = {n: scl.shape[0] for n, scl in self.scalings.items()}", "dims")
    _require_stmt(post, "cumdims = (0,) + tuple(accumulate(dims.values(), operator.add))", "cumulative dims")
    _require_stmt(post, "slices = {n: slice(cumdims[i], cumdims[i + 1]) for i, n in enumerate(dims)}", "slice table")
    _require_stmt(post, "object.__setattr__(self, 'slices', slices)", "slices stored")
    _require_stmt(post, "object.__setattr__(self, 'length', cumdims[-1])", "length stored")

    algo = pysym.load_methods(path, "ScipyMinimizeAlgorithm")
    factor = _class_const(path, "ScipyMinimizeAlgorithm", "regularity_factor")
    obj = _func(algo, "obj_no_jac")
    _require_stmt(obj, "ips = scaling.unscaling(x)", "objective unscales x")
    _require_stmt(obj, "for ip, ip_val in ips.items():\n    state[ip] = ip_val", "objective loads the parameters")
    _require_stmt(obj, "return loss.item()", "objective value")
    asg = [n for n in ast.walk(obj) if isinstance(n, ast.Assign) and ast.unparse(n.targets[0]) == "loss"]
    if len(asg) != 1:
        raise Untranslatable("obj_no_jac: loss not assigned exactly once")
    ot = {"att": "R", "reg": "R", "regularity_factor": "R"}
    e, missing = _sym(asg[0].value, {"state['nll_attach']": "att", "state['nll_regul_ind_sum']": "reg"}, ot, fixed={"regularity_factor": factor})
    if missing:
        raise Untranslatable(f"obj_no_jac: {sorted(missing)} not in the loss")
    for dom in ("Q", "R"):
        tt = {k: dom for k in ot}
        out.append(definition(f"gen_obj_{dom}", [("att", dom), ("reg", dom)], dom, Emit(tt, dom).num(e)))
    pat = _func(algo, "_get_individual_parameters_patient")
    _require_stmt(pat, "obj = self.obj_with_jac if with_jac else self.obj_no_jac", "objective selection")
    _require_stmt(pat, "initial_point = {n: state.get_tensor_value(n)[0] for n in state.dag.individual_variable_names}", "start point")
    _require_stmt(pat, "res = minimize(obj, jac=with_jac, x0=scaling.scaling(initial_point), args=(state, scaling), **self.scipy_minimize_params)", "minimize call")
    _require_stmt(pat, "pyt_individual_params = scaling.unscaling(res.x)", "result = unscaling(res.x)")
    _require_stmt(pat, "return (pyt_individual_params, loss)", "returned parameters")
    n_asg = sum(1 for n in ast.walk(pat) if isinstance(n, (ast.Assign, ast.AugAssign, ast.AnnAssign))
                for t in (n.targets if isinstance(n, ast.Assign) else [n.target]) if ast.unparse(t).split("[")[0] == "pyt_individual_params")
    if n_asg != 1:
        raise Untranslatable(f"_get_individual_parameters_patient: pyt_individual_params assigned {n_asg} times (the model returns unscaling(res.x) unconditionally)")
    if sum(1 for n in ast.walk(pat) if isinstance(n, ast.Return)) != 1:
        raise Untranslatable("_get_individual_parameters_patient: more than one return")
    master = _func(algo, "_get_individual_parameters_patient_master")
    _require_stmt(master, "individual_params_tensorized, _ = self._get_individual_parameters_patient(state, scaling=scaling, with_jac=with_jac, patient_id=patient_id)", "per-patient call")
    _require_stmt(master, "return {k: v.detach().squeeze(0).tolist() for k, v in individual_params_tensorized.items()}", "row as lists")
    comp = _func(algo, "_compute_individual_parameters")
    _require_stmt(comp, "datasets = {idx: Dataset(data[[idx]], no_warning=True) for idx in dataset.indices}", "one dataset per input id")
    _require_stmt(comp, "for idx in dataset.indices:\n    states[idx] = state.clone(disable_auto_fork=True)\n    model.put_data_variables(states[idx], datasets[idx])\n    model.put_individual_parameters(states[idx], datasets[idx])",
                  "one state per input id, in input order")
    _require_stmt(comp, "ips_scalings = _AffineScalings1D.from_state(state, var_type=IndividualLatentVariable)", "scalings")
    _require_stmt(comp, "ind_p_all = Parallel(n_jobs=self.algo_parameters['n_jobs'])((delayed(self._get_individual_parameters_patient_master)"
                        "(state_pat, scaling=ips_scalings, progress=(it_pat, dataset.n_individuals), with_jac=with_jac, patient_id=id_pat) "
                        "for it_pat, (id_pat, state_pat) in enumerate(states.items())))", "one job per state, in the order of states")
    _require_stmt(comp, "for id_pat, ind_params_pat in zip(dataset.indices, ind_p_all):\n    individual_parameters.add_individual_parameters(str(id_pat), ind_params_pat)",
                  "rows zipped with dataset.indices, key str(id)")
    _require_stmt(comp, "return individual_parameters", "result")
    # with_jac: the jacobian objective is not implemented; the fallback must reset with_jac
    _require_stmt(comp, "with_jac = self.algo_parameters['use_jacobian']", "use_jacobian")


def translate(run: Run) -> bool:
    try:
        out = [HEADER]
        _mcmc(out)
        _from_pytorch(out)
        _mean(out)
        _mode(out)
        _scipy(out)
        run.gen("GenC17", "\n".join(out))
        run.trusted.append("translator harness/translate/pysym.py + harness/translate/c17_personalize.py (python ast -> Gallina: kept-draw test with "
                           "_is_burn_in inlined, iteration range, mean axis, mode loss/argmin axis, affine scaling maps, objective; "
                           "statement shapes of mcmc.py / scipy_minimize.py / from_pytorch compared as normalised source)")
        return True
    except (Untranslatable, KeyError, OSError, SyntaxError) as e:
        run.broken("translate:GenC17", f"{type(e).__name__}: {e}", kind="broken-translation")
        return False
