"""T1 translator for graphs: instantiate every shipped model kind with the running code, read the dependency graph it
builds and emit the graphs as Coq literals (`coq/gen/GenGraphs.v`, record type `Leaspy.Dag.GraphLit.shipped_graph`).

    shipped_graphs()            -> list of dicts (see `graph_record`)
    coq_text(graphs)            -> text of GenGraphs.v
    write_gen(run)              -> regenerate coq/gen/GenGraphs.v (fail closed), returns the graphs or None

Used by C15 (the model's `build` is run on every literal) and meant for C01/C03/C07, which compute their graph
hypotheses on the same literals.  Emitted per graph `g_<label>`:
    sg_names   : list string       name-sorted node list (node i of the Coq models = i-th name)
    sg_parents : list (list nat)   direct ancestors of each node, as indices, increasing
    sg_kind    : list vkind        KHyper | KParam | KData | KPopLatent | KIndLatent | KLinked
    sg_order   : list nat          sorted_variables_names observed on the implementation, as indices
and `shipped : list shipped_graph`.

Fail closed: a configuration that does not instantiate, a variable of a class not listed in KINDS, a reference to a
name that is not a node, or two ways of building the graph (model.initialize(dataset) vs
VariablesDAG.from_dict(model.get_variables_specs())) that disagree raise `GraphTranslationError`.
"""
from __future__ import annotations

import re
import warnings

from harness.common import coq_list, coq_string

KIND_OF_CLASS = {
    "Hyperparameter": "KHyper",
    "ModelParameter": "KParam",
    "DataVariable": "KData",
    "PopulationLatentVariable": "KPopLatent",
    "IndividualLatentVariable": "KIndLatent",
    "LinkedVariable": "KLinked",
}

# (kind, n_features, source_dimension, noise, extra hyper-parameters)
#   source_dimension None = the library default (int(sqrt(n_features)) for multivariate models), 0 = no sources
CONFIGS = []
for _k in ("logistic", "linear", "shared_speed_logistic"):
    CONFIGS += [
        (_k, 3, None, None, {}),
        (_k, 3, None, "gaussian-scalar", {}),
        (_k, 3, None, "gaussian-diagonal", {}),
        (_k, 4, 2, "gaussian-diagonal", {}),
        (_k, 3, 0, "gaussian-diagonal", {}),
        (_k, 3, 0, "gaussian-scalar", {}),
        (_k, 1, None, None, {}),
    ]
CONFIGS += [
    ("logistic", 3, None, "bernoulli", {}),
    ("logistic", 3, 0, "bernoulli", {}),
    ("logistic", 1, None, "bernoulli", {}),
    ("joint", 3, None, None, {}),
    ("joint", 3, 2, "gaussian-diagonal", {}),
    ("joint", 3, 0, None, {}),
    ("joint", 1, None, None, {}),
    ("mixture_logistic", 3, None, None, {}),
    ("mixture_logistic", 3, 1, None, {}),
    ("mixture_logistic", 4, 2, None, {"n_clusters": 3}),
]


class GraphTranslationError(Exception):
    pass


def label_of(kind, n_feat, src, noise, extra):
    s = f"{kind}_f{n_feat}_s{'dflt' if src is None else src}_{noise or 'dflt'}"
    for k, v in sorted(extra.items()):
        s += f"_{k}{v}"
    return re.sub(r"[^A-Za-z0-9_]", "_", s)


def graph_record(label, config, dag) -> dict:
    """The graph a real VariablesDAG holds, in the indexing of the Coq models (name-sorted)."""
    names = sorted(dag.variables.keys())
    ix = {n: i for i, n in enumerate(names)}
    if set(dag.direct_ancestors.keys()) != set(names):
        raise GraphTranslationError(f"{label}: keys of direct_ancestors differ from the variables")
    parents, classes = [], []
    for n in names:
        ps = dag.direct_ancestors[n]
        unknown = [p for p in ps if p not in ix]
        if unknown:
            raise GraphTranslationError(f"{label}: {n} refers to unknown {unknown}")
        parents.append(sorted(ix[p] for p in ps))
        cls = type(dag.variables[n]).__name__
        if cls not in KIND_OF_CLASS:
            raise GraphTranslationError(f"{label}: variable {n} has class {cls}, not one of {sorted(KIND_OF_CLASS)}")
        classes.append(cls)
    return dict(
        label=label, config=config, names=names, parents=parents, classes=classes,
        order=[ix[n] for n in dag.sorted_variables_names],
        dchildren=[sorted(ix[c] for c in dag.direct_children[n]) for n in names],
        children=[[ix[n], [ix[c] for c in v]] for n, v in dag.sorted_children.items()],
        ancestors=[[ix[n], [ix[c] for c in v]] for n, v in dag.sorted_ancestors.items()],
    )


def shipped_graphs(configs=None) -> list[dict]:
    """Instantiate every shipped model kind (harness.synth.make_model + model.initialize(dataset)) and return its graph."""
    from harness.common import use_impl
    use_impl()
    from harness import synth
    from leaspy.io.data import Dataset
    from leaspy.variables.dag import VariablesDAG

    out = []
    for kind, n_feat, src, noise, extra in (configs or CONFIGS):
        label = label_of(kind, n_feat, src, noise, extra)
        try:
            with warnings.catch_warnings():
                warnings.simplefilter("ignore")
                model = synth.make_model(kind, n_feat, src, noise, **extra)
                df = synth.make_df(n_ind=8, n_feat=n_feat, seed=1, joint=(kind == "joint"), kind=kind,
                                   binary=(noise == "bernoulli"))
                model.initialize(Dataset(synth.make_data(df, kind)))
                dag = model.dag
                dag2 = VariablesDAG.from_dict(model.get_variables_specs())
        except GraphTranslationError:
            raise
        except Exception as e:
            raise GraphTranslationError(f"{label}: cannot instantiate: {type(e).__name__}: {e}") from e
        config = dict(kind=kind, n_features=n_feat, source_dimension=src, noise=noise, **extra)
        rec = graph_record(label, config, dag)
        rec2 = graph_record(label, config, dag2)
        if rec != rec2:
            raise GraphTranslationError(f"{label}: model.dag differs from VariablesDAG.from_dict(model.get_variables_specs())")
        rec["has_sources"] = "sources" in dag.variables
        try:
            # extension 4 of C15: how each definition of get_variables_specs() is written (not part of GenGraphs.v)
            from harness import c15_defs
            rec["defs"] = c15_defs.describe_specs(model.get_variables_specs(), KIND_OF_CLASS)
        except Exception as e:
            raise GraphTranslationError(f"{label}: cannot describe the definitions: {type(e).__name__}: {e}") from e
        out.append(rec)
    return out


def coq_nat_list(l) -> str:
    return coq_list([str(int(x)) for x in l])


def coq_text(graphs: list[dict]) -> str:
    lines = [
        "(* REGENERATED on every run from the running code of $VERIF_REPO by harness/translate/graphs.py - do not edit *)",
        "From Coq Require Import List String.",
        "From Leaspy Require Import Dag.GraphLit.",
        "Import ListNotations.",
        "Open Scope string_scope.",
        "",
    ]
    for g in graphs:
        lines.append(f"(* {g['config']} : {len(g['names'])} nodes *)")
        lines.append(f"Definition g_{g['label']} : shipped_graph := mkSG")
        lines.append(f"  {coq_string(g['label'])}")
        lines.append("  " + coq_list([coq_string(n) for n in g["names"]]))
        lines.append("  " + coq_list([coq_nat_list(p) for p in g["parents"]]))
        lines.append("  " + coq_list([KIND_OF_CLASS[c] for c in g["classes"]]))
        lines.append("  " + coq_nat_list(g["order"]) + ".")
        lines.append("")
    lines.append("Definition shipped : list shipped_graph := " + coq_list([f"g_{g['label']}" for g in graphs]) + ".")
    return "\n".join(lines) + "\n"


def write_gen(run):
    """Regenerate coq/gen/GenGraphs.v; returns the graphs, or None (run marked broken) when translation fails."""
    try:
        graphs = shipped_graphs()
        labels = [g["label"] for g in graphs]
        if len(set(labels)) != len(labels):
            raise GraphTranslationError("duplicate labels")
        run.gen("GenGraphs", coq_text(graphs))
        t = "translator harness/translate/graphs.py (introspection of the graphs the running code builds -> Coq literals)"
        if t not in run.trusted:
            run.trusted.append(t)
        return graphs
    except GraphTranslationError as e:
        run.broken("translate:GenGraphs", str(e), kind="broken-translation")
        return None
