"""C07 (extension) — T1: regenerate coq/gen/GenC07Reads.v from the source: WHAT `IndividualGibbsSampler.sample` reads.

Read with python `ast`, fail closed (anything not recognised is a broken translation, never a guess):

* samplers/gibbs.py::IndividualGibbsSampler.sample — every use of the parameter `state` (also inside the nested function):
  `state.get_tensor_values((<names>))`, `state.get_tensor_value(<name>)`, `state[<name>]` followed by `.ndim` or `.value`
  are READS (the node name is a string constant or the f-string `nll_regul_{self.name}_ind`); `state.put(self.name, ...)` and
  `state.revert(...)` are the only other uses allowed; `state` handed to anything else, an attribute not in this list, a name
  that is not a literal → refused.  A read lexically under `if state["nll_regul_ind_sum_ind"].ndim > 1` is tagged with that test.
* samplers/base.py::AbstractSampler._group_metropolis_step — the decision expression (one uniform per entry of alpha,
  compared entry by entry: nothing reduces over the individuals).
* samplers/gibbs.py::GibbsSamplerMixin._update_std — the acceptance mean the std update uses (`mean(dim=0)`: over the history
  axis only, one value per individual) and the two masked in-place products; IndividualGibbsSampler.shape_adapted_std,
  ::shape_acceptation (`(self.n_patients,)`).
* algo/personalize/mcmc.py — `shuffle(individual_variable_names)`: the only random object shared by the individuals is the ORDER of
  the variables (the C17 chain translator checks the statement itself; here only that `shuffle` is `random.shuffle`).

`Locality/SamplerReadsTie.v` proves the regenerated values equal to the hand-written header of `Locality/SamplerRows.v`."""
from __future__ import annotations

import ast

from harness.common import Run, SRC, coq_list, coq_string

HEADER = """(* REGENERATED on every run from $VERIF_REPO/src/leaspy by harness/translate/c07_sample_reads.py — do not edit *)
From Coq Require Import String List.
Import ListNotations.
Open Scope string_scope.
"""

MIX_TEST = "state['nll_regul_ind_sum_ind'].ndim > 1"


class Untranslatable(Exception):
    pass


def _u(n):
    return ast.unparse(n)


def _cls(tree, name):
    for n in tree.body:
        if isinstance(n, ast.ClassDef) and n.name == name:
            return n
    raise Untranslatable(f"class {name} not found")


def _meth(cls, name):
    for n in cls.body:
        if isinstance(n, ast.FunctionDef) and n.name == name:
            return n
    raise Untranslatable(f"method {cls.name}.{name} not found")


def _node_name(n) -> str:
    """A node name written in the source: a string constant, or the f-string nll_regul_{self.name}_ind."""
    if isinstance(n, ast.Constant) and isinstance(n.value, str):
        return n.value
    if isinstance(n, ast.JoinedStr):
        out = ""
        for v in n.values:
            if isinstance(v, ast.Constant) and isinstance(v.value, str):
                out += v.value
            elif isinstance(v, ast.FormattedValue) and _u(v.value) == "self.name" and v.conversion == -1 and v.format_spec is None:
                out += "<self.name>"
            else:
                raise Untranslatable(f"node name: {_u(n)}")
        return out
    raise Untranslatable(f"node name is not a literal: {_u(n)}")


def _parents(tree):
    par = {}
    for p in ast.walk(tree):
        for c in ast.iter_child_nodes(p):
            par[c] = p
    return par


def sample_reads(fn: ast.FunctionDef):
    """(reads, writes) of `sample`, in source order; every occurrence of the name `state` must be one of the known forms."""
    args = [a.arg for a in fn.args.args + fn.args.kwonlyargs]
    if "state" not in args:
        raise Untranslatable("sample has no parameter `state`")
    par = _parents(fn)
    reads, writes = [], []
    uses = sorted((n for n in ast.walk(fn) if isinstance(n, ast.Name) and n.id == "state"), key=lambda n: (n.lineno, n.col_offset))
    for nm in uses:
        if not isinstance(nm.ctx, ast.Load):
            raise Untranslatable(f"`state` is assigned (line {nm.lineno})")
        p = par[nm]
        # lexical guard: under `if state[...].ndim > 1` ?
        guard, q = "", p
        while q is not fn:
            pp = par[q]
            if isinstance(pp, ast.If) and q in pp.body:
                t = _u(pp.test)
                if t != MIX_TEST:
                    if "state" in t:
                        raise Untranslatable(f"read under an unknown test on the state: {t}")
                else:
                    guard = "if-ndim>1"
            if isinstance(pp, ast.If) and q in pp.orelse:
                raise Untranslatable("else branch")
            q = pp
        if isinstance(p, ast.Attribute) and p.value is nm:
            call = par.get(p)
            if not (isinstance(call, ast.Call) and call.func is p):
                raise Untranslatable(f"state.{p.attr} is not called (line {nm.lineno})")
            if p.attr == "get_tensor_values":
                if len(call.args) != 1 or call.keywords or not isinstance(call.args[0], ast.Tuple):
                    raise Untranslatable(f"get_tensor_values: {_u(call)}")
                for e in call.args[0].elts:
                    reads.append((_node_name(e), "values" + (":" + guard if guard else "")))
            elif p.attr == "get_tensor_value":
                if len(call.args) != 1 or call.keywords:
                    raise Untranslatable(f"get_tensor_value: {_u(call)}")
                reads.append((_node_name(call.args[0]), "values" + (":" + guard if guard else "")))
            elif p.attr == "put":
                if len(call.args) < 1 or _u(call.args[0]) != "self.name":
                    raise Untranslatable(f"put on something else than self.name: {_u(call)}")
                writes.append("put:self.name")
            elif p.attr == "revert":
                if len(call.args) != 1 or call.keywords:
                    raise Untranslatable(f"revert: {_u(call)}")
                writes.append("revert:" + _u(call.args[0]))
            else:
                raise Untranslatable(f"state.{p.attr}(...) is not a known access (line {nm.lineno})")
        elif isinstance(p, ast.Subscript) and p.value is nm:
            if not isinstance(p.ctx, ast.Load):
                raise Untranslatable(f"state[...] is assigned (line {nm.lineno})")
            name = _node_name(p.slice)
            a = par.get(p)
            if not (isinstance(a, ast.Attribute) and a.value is p and a.attr in ("ndim", "value")):
                raise Untranslatable(f"state[{name!r}] used otherwise than through .ndim / .value (line {nm.lineno})")
            how = a.attr
            # the test itself is not "under" the test
            if how == "ndim":
                reads.append((name, "ndim"))
            else:
                reads.append((name, "value" + (":" + guard if guard else "")))
        else:
            raise Untranslatable(f"`state` handed to something else: {_u(p)[:80]} (line {nm.lineno})")
    # order-preserving de-duplication
    seen, out = set(), []
    for r in reads:
        if r not in seen:
            seen.add(r)
            out.append(r)
    wseen, wout = set(), []
    for w in writes:
        if w not in wseen:
            wseen.add(w)
            wout.append(w)
    return out, wout


def _single_return(fn, what):
    rets = [n for n in ast.walk(fn) if isinstance(n, ast.Return)]
    if len(rets) != 1:
        raise Untranslatable(f"{what}: {len(rets)} return statements")
    return rets[0].value


def group_decision(fn: ast.FunctionDef) -> str:
    """`accepted = torch.rand(alpha.shape) < alpha; return accepted` -> the expression, with the returned name substituted."""
    body = [b for b in fn.body if not (isinstance(b, ast.Expr) and isinstance(b.value, ast.Constant))]
    env = {}
    for b in body[:-1]:
        if not (isinstance(b, ast.Assign) and len(b.targets) == 1 and isinstance(b.targets[0], ast.Name)):
            raise Untranslatable(f"_group_metropolis_step: {_u(b)[:100]}")
        env[b.targets[0].id] = _u(b.value)
    if not body or not isinstance(body[-1], ast.Return):
        raise Untranslatable("_group_metropolis_step: no final return")
    r = body[-1].value
    if isinstance(r, ast.Name) and r.id in env:
        return env[r.id]
    if env:
        raise Untranslatable("_group_metropolis_step: intermediate assignments and a compound return")
    return _u(r)


def std_update(fn: ast.FunctionDef):
    """The assignments of `_update_std` under the counter test, as normalised source."""
    body = [b for b in fn.body if not (isinstance(b, ast.Expr) and isinstance(b.value, ast.Constant))]
    if len(body) != 2 or _u(body[0]) != "self._counter += 1" or not isinstance(body[1], ast.If) or body[1].orelse:
        raise Untranslatable("_update_std: shape of the body")
    if _u(body[1].test) != "self._counter % self.acceptation_history_length == 0":
        raise Untranslatable(f"_update_std: trigger {_u(body[1].test)}")
    return [_u(b) for b in body[1].body]


def translate(run: Run) -> bool:
    try:
        gibbs = ast.parse((SRC / "samplers/gibbs.py").read_text())
        base = ast.parse((SRC / "samplers/base.py").read_text())
        mcmc = ast.parse((SRC / "algo/personalize/mcmc.py").read_text())
        igs = _cls(gibbs, "IndividualGibbsSampler")
        if [_u(b) for b in igs.bases] != ["GibbsSamplerMixin", "AbstractIndividualSampler"]:
            raise Untranslatable(f"IndividualGibbsSampler bases: {[_u(b) for b in igs.bases]}")
        for m in ("_group_metropolis_step", "_update_std", "_update_acceptation_rate"):
            if any(isinstance(n, ast.FunctionDef) and n.name == m for n in igs.body):
                raise Untranslatable(f"IndividualGibbsSampler overrides {m}")
        reads, writes = sample_reads(_meth(igs, "sample"))
        dec = group_decision(_meth(_cls(base, "AbstractSampler"), "_group_metropolis_step"))
        upd = std_update(_meth(_cls(gibbs, "GibbsSamplerMixin"), "_update_std"))
        sas = _u(_single_return(_meth(igs, "shape_adapted_std"), "shape_adapted_std"))
        mixin = _cls(gibbs, "GibbsSamplerMixin")
        sacc = _u(_single_return(_meth(mixin, "shape_acceptation"), "shape_acceptation"))
        acc_upd = [_u(b) for b in _meth(_cls(base, "AbstractSampler"), "_update_acceptation_rate").body
                   if not (isinstance(b, ast.Expr) and isinstance(b.value, ast.Constant))]
        sh = [n for n in ast.walk(mcmc) if isinstance(n, ast.ImportFrom) and any(a.name == "shuffle" for a in n.names)]
        if len(sh) != 1 or sh[0].module != "random" or any(a.asname for a in sh[0].names if a.name == "shuffle"):
            raise Untranslatable("mcmc.py: shuffle is not random.shuffle")
        out = [HEADER,
               "Definition gen_sample_reads : list (string * string) := "
               + coq_list(f"({coq_string(a)}, {coq_string(b)})" for a, b in reads) + ".",
               f"Definition gen_sample_writes : list string := {coq_list(coq_string(w) for w in writes)}.",
               f"Definition gen_group_decision : string := {coq_string(dec)}.",
               f"Definition gen_std_update : list string := {coq_list(coq_string(x) for x in upd)}.",
               f"Definition gen_acceptation_update : list string := {coq_list(coq_string(x) for x in acc_upd)}.",
               f"Definition gen_shape_adapted_std : string := {coq_string(sas)}.",
               f"Definition gen_shape_acceptation : string := {coq_string(sacc)}."]
        run.gen("GenC07Reads", "\n".join(out) + "\n")
        run.extra["sample_reads_regenerated"] = [list(r) for r in reads]
        run.trusted.append("translator harness/translate/c07_sample_reads.py (python ast -> every use of `state` in IndividualGibbsSampler.sample, "
                           "the decision expression and the std update as normalised source; fail closed)")
        return True
    except (Untranslatable, KeyError, OSError, SyntaxError, IndexError, AttributeError, ValueError) as e:
        run.broken("translate:GenC07Reads", f"{type(e).__name__}: {e}", kind="broken-translation")
        return False


def read_names(run: Run | None = None):
    """The node-name patterns `sample` reads (regenerated; used by c07.py to resolve them in every shipped graph)."""
    gibbs = ast.parse((SRC / "samplers/gibbs.py").read_text())
    reads, _ = sample_reads(_meth(_cls(gibbs, "IndividualGibbsSampler"), "sample"))
    out = []
    for n, _h in reads:
        if n not in out:
            out.append(n)
    return out
