"""C17 (extension) — T1: regenerate coq/gen/GenC17Chain.v, the SKELETON of a sampling-based personalisation, from the source.

Read with python `ast`, fail closed (anything not recognised is a broken translation, never a guess):

* algo/personalize/mcmc.py::_get_individual_parameters — the statements of the body of
  `for self.current_iteration in range(1, n_iter + 1)`, in order: the optional shuffle of the names (and its flag), the loop
  calling `self.samplers[name].sample(state, temperature_inv=<expr>)` over `individual_variable_names` (which must be the sorted
  names of the IndividualLatentVariable's: no other variable is ever sampled), the histories appended under
  `if not self._is_burn_in()` (which history receives what), `self._update_temperature()`; progress-bar statements are skipped.
* ::_initialize_algo — the order of the initialisation calls.
* samplers/gibbs.py::IndividualGibbsSampler — the order of the effects of `sample` (read, put of the proposal on `self.name`
  only, read, decision, partial revert, acceptance window, std update), `_proposed_change`, STD_SCALE_FACTOR, `validate_scale`.
* algo/algo_with_samplers.py::_initialize_individual_samplers — the default scale; the shipped defaults of mean_/mode_posterior
  name no population sampler.

PersonalizeChainTie.v proves the regenerated values equal to the model's; the model's run INTERPRETS the statement list."""
from __future__ import annotations

import ast
import json
from fractions import Fraction

from harness.common import Run, SRC, coq_list, coq_string, coq_Q

HEADER = """(* REGENERATED on every run from $VERIF_REPO/src/leaspy by harness/translate/c17_chain.py — do not edit *)
From Coq Require Import String QArith List.
From Leaspy Require Import Api.PersonalizeChain.
Import ListNotations.
Open Scope string_scope.
"""


class Untranslatable(Exception):
    pass


def _cls(tree, name):
    for n in tree.body:
        if isinstance(n, ast.ClassDef) and n.name == name:
            return n
    raise Untranslatable(f"class {name} not found")


def _meth(cls, name):
    for n in cls.body:
        if isinstance(n, ast.FunctionDef) and n.name == name:
            return n
    raise Untranslatable(f"method {cls.name}.{name} not found")


def _u(n):
    return ast.unparse(n)


def _is_doc(s):
    return isinstance(s, ast.Expr) and isinstance(s.value, ast.Constant) and isinstance(s.value.value, str)


def _only_progress(stmts):
    return all(isinstance(s, ast.Expr) and isinstance(s.value, ast.Call) and _u(s.value.func) == "self._display_progress_bar" for s in stmts)


def _loop_body(fn):
    loops = [n for n in ast.walk(fn) if isinstance(n, ast.For) and _u(n.target) == "self.current_iteration"]
    if len(loops) != 1:
        raise Untranslatable(f"{len(loops)} loops over self.current_iteration")
    loop = loops[0]
    if _u(loop.iter) != "range(1, n_iter + 1)" or loop.orelse:
        raise Untranslatable(f"iteration range: {_u(loop.iter)}")
    # nothing but the bookkeeping before the loop may touch the state / the samplers
    names_def = [s for s in ast.walk(fn) if isinstance(s, ast.Assign) and _u(s.targets[0]) == "individual_variable_names"]
    if len(names_def) != 1 or _u(names_def[0].value) != "sorted(list(model.dag.sorted_variables_by_type[IndividualLatentVariable]))":
        raise Untranslatable("individual_variable_names is not the sorted list of the IndividualLatentVariable names")
    stmts, reads, temp, flag = [], [], None, None
    for s in loop.body:
        src = _u(s)
        if isinstance(s, ast.If) and _u(s.test).startswith("self.algo_parameters.get('progress_bar'") and _only_progress(s.body) and not s.orelse:
            continue
        if isinstance(s, ast.If) and not s.orelse and len(s.body) == 1 and _u(s.body[0]) == "shuffle(individual_variable_names)":
            flag = _u(s.test)
            stmts.append("SShuffle")
            continue
        if (isinstance(s, ast.For) and _u(s.target) == "individual_variable_name" and _u(s.iter) == "individual_variable_names"
                and not s.orelse and len(s.body) == 1 and isinstance(s.body[0], ast.Expr) and isinstance(s.body[0].value, ast.Call)):
            call = s.body[0].value
            if _u(call.func) != "self.samplers[individual_variable_name].sample" or [_u(a) for a in call.args] != ["state"] \
                    or [k.arg for k in call.keywords] != ["temperature_inv"]:
                raise Untranslatable(f"sampler call: {_u(call)}")
            temp = _u(call.keywords[0].value)
            stmts.append("SSweep")
            continue
        if isinstance(s, ast.If) and not s.orelse and _u(s.test) == "not self._is_burn_in()":
            for b in s.body:
                if (isinstance(b, ast.For) and _u(b.target) == "individual_variable_name" and _u(b.iter) == "individual_variable_names"
                        and len(b.body) == 1 and _u(b.body[0]) == "values_history[individual_variable_name].append(state[individual_variable_name])"):
                    reads.append(("values_history", "state[name]"))
                elif isinstance(b, ast.Expr) and isinstance(b.value, ast.Call) and isinstance(b.value.func, ast.Attribute) and b.value.func.attr == "append" \
                        and len(b.value.args) == 1 and isinstance(b.value.args[0], ast.Call) and _u(b.value.args[0].func) == "state.get_tensor_value" \
                        and len(b.value.args[0].args) == 1 and isinstance(b.value.args[0].args[0], ast.Constant):
                    reads.append((_u(b.value.func.value), b.value.args[0].args[0].value))
                else:
                    raise Untranslatable(f"statement under the burn-in test: {_u(b)}")
            stmts.append("SRecord")
            continue
        if src == "self._update_temperature()":
            stmts.append("SAnneal")
            continue
        raise Untranslatable(f"statement of the iteration loop not recognised: {src[:120]}")
    if flag is not None and flag != "self.random_order_variables":
        raise Untranslatable(f"shuffle under {flag}")
    # what the histories become: stacked, handed to the estimator in this order
    src_fn = _u(fn)
    for needle in ("torch_attachments = torch.stack(attachment_history)", "torch_tot_regularities = torch.stack(regularity_history)",
                   "self._compute_individual_parameters_from_samples_torch(torch_values, torch_attachments, torch_tot_regularities)"):
        if needle not in src_fn:
            raise Untranslatable(f"missing: {needle}")
    return stmts, reads, temp


def _init_calls(fn):
    known = {"model.put_data_variables": "put_data_variables", "self._initialize_samplers": "_initialize_samplers",
             "self._initialize_annealing": "_initialize_annealing"}
    out = []
    calls = sorted((n for n in ast.walk(fn) if isinstance(n, ast.Call)), key=lambda n: (n.lineno, n.col_offset))
    for c in calls:
        f = _u(c.func)
        if f in known:
            out.append(known[f])
        elif f == "state.put_individual_latent_variables":
            out.append("put_individual_latent_variables:" + _u(c.args[0]).split(".")[-1])
        elif f == "state.auto_fork":
            continue
        else:
            raise Untranslatable(f"_initialize_algo calls {f}")
    if "state = model.state" not in _u(fn):
        raise Untranslatable("_initialize_algo does not run on model.state")
    return out


def _sample_effects(fn):
    out = []
    for s in fn.body:
        src = _u(s)
        if _is_doc(s):
            continue
        if isinstance(s, ast.FunctionDef) and s.name == "compute_attachment_regularity":
            body = [b for b in s.body if not _is_doc(b)]
            if len(body) != 1 or _u(body[0]) != "return state.get_tensor_values(('nll_attach_ind', f'nll_regul_{self.name}_ind'))":
                raise Untranslatable(f"compute_attachment_regularity: {_u(s)[:160]}")
            continue
        if isinstance(s, ast.Assign) and _u(s.value) == "compute_attachment_regularity()":
            out.append("read")
            continue
        if isinstance(s, ast.If) and ".ndim" in _u(s.test) and not s.orelse and all(isinstance(b, ast.Assign) for b in s.body):
            continue      # cluster weighting of the mixture model: C03 (gen_alpha_ind_mix*)
        if src == "state.put(self.name, self._proposed_change(), accumulate=True)":
            out.append("put:self.name:_proposed_change:accumulate")
            continue
        if isinstance(s, ast.Assign) and _u(s.targets[0]) == "alpha" and _u(s.value).startswith("torch.exp("):
            continue      # the threshold: C03 (gen_alpha_ind)
        if src == "accepted = self._group_metropolis_step(alpha)":
            out.append("_group_metropolis_step")
            continue
        if src == "state.revert(~accepted)":
            out.append("revert:~accepted")
            continue
        if src == "self._update_acceptation_rate(accepted.float())":
            out.append("_update_acceptation_rate")
            continue
        if src == "self._update_std()":
            out.append("_update_std")
            continue
        raise Untranslatable(f"IndividualGibbsSampler.sample: statement not recognised: {src[:120]}")
    return out


def translate(run: Run) -> bool:
    try:
        mcmc = ast.parse((SRC / "algo/personalize/mcmc.py").read_text())
        gibbs = ast.parse((SRC / "samplers/gibbs.py").read_text())
        aws = ast.parse((SRC / "algo/algo_with_samplers.py").read_text())
        algo = _cls(mcmc, "McmcPersonalizeAlgorithm")
        stmts, reads, temp = _loop_body(_meth(algo, "_get_individual_parameters"))
        if temp is None or "SSweep" not in stmts:
            raise Untranslatable("no sampler loop in the iteration")
        inits = _init_calls(_meth(algo, "_initialize_algo"))
        igs = _cls(gibbs, "IndividualGibbsSampler")
        effects = _sample_effects(_meth(igs, "sample"))
        sf = [s for s in igs.body if isinstance(s, ast.Assign) and _u(s.targets[0]) == "STD_SCALE_FACTOR"]
        if len(sf) != 1 or not isinstance(sf[0].value, ast.Constant):
            raise Untranslatable("IndividualGibbsSampler.STD_SCALE_FACTOR")
        factor = Fraction(sf[0].value.value)
        pc = [b for b in _meth(igs, "_proposed_change").body if isinstance(b, ast.Return)]
        if len(pc) != 1 or _u(pc[0].value) != "self.std[std_broadcasting] * torch.randn((self.n_patients, *self.shape))":
            raise Untranslatable("_proposed_change")
        vs = [b for b in _meth(igs, "validate_scale").body if isinstance(b, ast.Return)]
        if len(vs) != 1 or _u(vs[0].value) != "scale.mean()":
            raise Untranslatable("IndividualGibbsSampler.validate_scale")
        mixin = _cls(gibbs, "GibbsSamplerMixin")
        if "self.std = self.STD_SCALE_FACTOR * self.scale * torch.ones(self.shape_adapted_std)" not in _u(_meth(mixin, "__init__")):
            raise Untranslatable("GibbsSamplerMixin.__init__: std")
        ind = _u(_meth(_cls(aws, "AlgorithmWithSamplersMixin"), "_initialize_individual_samplers"))
        for needle in ("var_kws.setdefault('scale', var.prior.stddev.call(state))", "state.dag.sorted_variables_by_type[IndividualLatentVariable].items()",
                       "n_patients=n_individuals"):
            if needle not in ind:
                raise Untranslatable(f"_initialize_individual_samplers: missing {needle}")
        pop_free = []
        for name in ("mean_posterior", "mode_posterior"):
            d = json.loads((SRC / f"algo/data/default_{name}.json").read_text())["parameters"]
            if d.get("sampler_pop", None) is not None or d.get("sampler_ind") != "Gibbs":
                raise Untranslatable(f"default_{name}.json names a population sampler / another individual sampler")
            pop_free.append(name)
        out = [HEADER,
               f"Definition gen_iteration_body : list stmt := {coq_list(stmts)}.",
               "Definition gen_record_reads : list (string * string) := " + coq_list(f"({coq_string(a)}, {coq_string(b)})" for a, b in reads) + ".",
               f"Definition gen_sweep_temperature : string := {coq_string(temp)}.",
               f"Definition gen_init_calls : list string := {coq_list(coq_string(x) for x in inits)}.",
               f"Definition gen_sample_effects : list string := {coq_list(coq_string(x) for x in effects)}.",
               f"Definition gen_ind_scale_factor : Q := {coq_Q(factor)}.",
               f"Definition gen_no_population_sampler : list string := {coq_list(coq_string(x) for x in pop_free)}."]
        run.gen("GenC17Chain", "\n".join(out) + "\n")
        run.trusted.append("translator harness/translate/c17_chain.py (python ast -> statement list of the personalisation loop, order of the initialisation "
                           "calls and of the effects of IndividualGibbsSampler.sample, compared as normalised source; fail closed)")
        return True
    except (Untranslatable, KeyError, OSError, SyntaxError, IndexError, AttributeError, ValueError) as e:
        run.broken("translate:GenC17Chain", f"{type(e).__name__}: {e}", kind="broken-translation")
        return False
