"""T1 (formulas): translate leaspy's closed-form tensor code into Coq real-valued definitions by TRACING.

The real function is *executed* on symbolic scalar tensors — a `torch.Tensor` subclass whose
`__torch_function__` records every torch call as an expression node — so helper calls, class-method
indirection, tuple unpacking and `WeightedTensor` wrapping are followed by Python itself.
The result is the point-wise reading of the tensor formula: layout-only calls (indexing, view, expand,
unsqueeze, broadcast) are erased; that erasure is validated by the T3 lemmas, which compare single
entries of real tensor outputs with the generated scalar definition.

Fail closed: an unknown torch function, a concrete non-scalar tensor, or Python control flow that
depends on a symbolic value (`bool(sym)`) raises `Untraceable`.
"""
from __future__ import annotations

from fractions import Fraction

import torch


class Untraceable(Exception):
    pass


def _rat(x) -> Fraction:
    if isinstance(x, bool):
        return Fraction(int(x))
    if isinstance(x, int):
        return Fraction(x)
    return Fraction(*float(x).as_integer_ratio())


LAYOUT = {"__getitem__", "view", "expand", "clone", "unsqueeze", "squeeze", "to", "reshape", "contiguous", "detach",
          "expand_as", "float", "double", "type", "broadcast_to", "flatten", "t", "transpose", "permute", "view_as"}
BIN = {"add": "add", "__add__": "add", "__radd__": "add", "sub": "sub", "__sub__": "sub", "mul": "mul", "__mul__": "mul",
       "__rmul__": "mul", "div": "div", "true_divide": "div", "__truediv__": "div"}
CMP = {"gt": "gt", "__gt__": "gt", "lt": "lt", "__lt__": "lt", "ge": "ge", "__ge__": "ge", "le": "le", "__le__": "le",
       "ne": "ne", "__ne__": "ne", "eq": "eq", "__eq__": "eq"}
UN = {"exp": "exp", "log": "log", "sigmoid": "sigmoid", "neg": "neg", "__neg__": "neg", "abs": "abs", "__abs__": "abs",
      "sqrt": "sqrt", "square": "square", "reciprocal": "recip", "log1p": "log1p", "tanh": "tanh"}


class Sym(torch.Tensor):
    """scalar symbolic tensor carrying the expression the real code builds"""

    @staticmethod
    def __new__(cls, expr):
        t = torch.Tensor._make_subclass(cls, torch.zeros(()))
        t.expr = expr
        return t

    def __repr__(self):
        return f"Sym({self.expr})"

    def __bool__(self):
        raise Untraceable("python control flow on a symbolic value")

    def __format__(self, spec):
        return repr(self)

    @classmethod
    def __torch_function__(cls, func, types, args=(), kwargs=None):
        kwargs = kwargs or {}
        name = getattr(func, "__name__", str(func))

        def e(a):
            if isinstance(a, Sym):
                return a.expr
            if isinstance(a, torch.Tensor):
                if a.numel() == 1:
                    return ("const", _rat(a.item()))
                raise Untraceable(f"non-scalar concrete tensor in {name}")
            if isinstance(a, (int, float, bool)):
                return ("const", _rat(a))
            raise Untraceable(f"argument of type {type(a).__name__} in {name}")

        if name in BIN and len(args) == 2:
            return Sym((BIN[name], e(args[0]), e(args[1])))
        if name in ("__rsub__", "rsub"):
            return Sym(("sub", e(args[1]), e(args[0])))
        if name in ("__rtruediv__", "__rdiv__"):
            return Sym(("div", e(args[1]), e(args[0])))
        if name in ("pow", "__pow__"):
            return Sym(("pow", e(args[0]), e(args[1])))
        if name == "__rpow__":
            return Sym(("pow", e(args[1]), e(args[0])))
        if name in UN and len(args) == 1:
            return Sym((UN[name], e(args[0])))
        if name in CMP and len(args) == 2:
            return Sym((CMP[name], e(args[0]), e(args[1])))
        if name == "where" and len(args) == 3:
            return Sym(("where", e(args[0]), e(args[1]), e(args[2])))
        if name == "clamp":
            out = e(args[0])
            lo = kwargs.get("min", args[1] if len(args) > 1 else None)
            hi = kwargs.get("max", args[2] if len(args) > 2 else None)
            if lo is not None:
                out = ("max2", out, e(lo))
            if hi is not None:
                out = ("min2", out, e(hi))
            return Sym(out)
        if name in ("maximum", "max") and len(args) == 2 and not kwargs:
            return Sym(("max2", e(args[0]), e(args[1])))
        if name in ("minimum", "min") and len(args) == 2 and not kwargs:
            return Sym(("min2", e(args[0]), e(args[1])))
        if name == "masked_fill":
            raise Untraceable("masked_fill on a symbolic value")
        if name in LAYOUT:
            return args[0]
        if name == "broadcast_tensors":
            return tuple(args)
        if name in ("__get__", "dim", "size", "numel", "ndimension", "is_floating_point", "__len__", "requires_grad_",
                    "is_complex", "element_size", "stride", "storage_offset", "__set__"):
            with torch._C.DisableTorchFunctionSubclass():
                return func(*args, **kwargs)
        if name in ("all", "any", "isfinite", "isnan"):   # only used in shape / weight assertions
            return torch.tensor(True)
        if name in ("sum", "mean", "nansum") and len(args) == 1:
            return args[0]       # the traced scalar stands for a 1-element tensor: its reductions are identities
        if name in ("ones_like", "zeros_like") and len(args) == 1:
            return Sym(("const", Fraction(1 if name == "ones_like" else 0)))
        if name in ("cat", "concatenate", "concat") and CAT_PICK is not None:
            # coordinate-wise reading of a concatenation: inside `with cat_pick(i)` the traced coordinate is one
            # that comes from the i-th piece (validated entry-wise by T3, like every layout erasure)
            pieces = args[0] if args else kwargs.get("tensors")
            if not isinstance(pieces, (tuple, list)) or not 0 <= CAT_PICK < len(pieces):
                raise Untraceable(f"cat: cannot pick piece {CAT_PICK}")
            return Sym(e(pieces[CAT_PICK]))
        if name in EXTRA_FUNCS:      # handlers registered by a property harness: handler(args, kwargs, e) -> Sym / value
            return EXTRA_FUNCS[name](args, kwargs, e)
        raise Untraceable(f"untranslated torch function `{name}`")


CAT_PICK = None
EXTRA_FUNCS: dict = {}   # torch function name -> handler(args, kwargs, e) where e(arg) is the expression of an argument
EXTRA_EMIT: dict = {}    # expression node kind -> emitter(node, emit) -> Coq text


class cat_pick:
    """`with cat_pick(i): ...` — while tracing, read `torch.cat(pieces)` as a coordinate of `pieces[i]`
    (outside such a block a concatenation is untraceable: fail closed)."""

    def __init__(self, i: int):
        self.i = i

    def __enter__(self):
        global CAT_PICK
        self.prev, CAT_PICK = CAT_PICK, self.i
        return self

    def __exit__(self, *exc):
        global CAT_PICK
        CAT_PICK = self.prev
        return False


def S(name: str) -> Sym:
    return Sym(("var", name))


def opaque(fname: str, *args) -> Sym:
    """A call that is NOT traced (e.g. into torch.distributions): rendered as the application of the Coq function
    `fname` (a hand-written model the generated file must import) to the traced arguments."""
    out = []
    for a in args:
        if isinstance(a, Sym):
            out.append(a.expr)
        elif isinstance(a, torch.Tensor) and a.numel() == 1:
            out.append(("const", _rat(a.item())))
        elif isinstance(a, (int, float, bool)):
            out.append(("const", _rat(a)))
        else:
            raise Untraceable(f"argument of type {type(a).__name__} in opaque call {fname}")
    return Sym(("app", fname) + tuple(out))


def expr_of(x):
    """expression of a traced result (Sym, WeightedTensor of Sym, python/torch scalar)"""
    if hasattr(x, "value") and hasattr(x, "weight") and not isinstance(x, torch.Tensor):
        x = x.value
    if isinstance(x, Sym):
        return x.expr
    if isinstance(x, torch.Tensor) and x.numel() == 1:
        return ("const", _rat(x.item()))
    if isinstance(x, (int, float)):
        return ("const", _rat(x))
    raise Untraceable(f"result of type {type(x).__name__} is not a traced scalar")


# ----------------------------------------------------------------------------- emission (Coq, R)


def _q(fr: Fraction) -> str:
    if fr.denominator == 1:
        return f"({fr.numerator})" if fr.numerator < 0 else f"{fr.numerator}"
    return f"({fr.numerator} / {fr.denominator})"


def emit(e) -> str:
    k = e[0]
    if k == "var":
        return e[1]
    if k == "const":
        return _q(e[1])
    if k in ("add", "sub", "mul", "div"):
        op = {"add": "+", "sub": "-", "mul": "*", "div": "/"}[k]
        return f"({emit(e[1])} {op} {emit(e[2])})"
    if k == "neg":
        return f"(- {emit(e[1])})"
    if k == "pow":
        b = e[2]
        if b[0] == "const" and b[1].denominator == 1 and 0 <= b[1].numerator <= 8:
            return f"({emit(e[1])} ^ {b[1].numerator})"
        return f"(tpow {emit(e[1])} {emit(b)})"
    if k == "square":
        return f"({emit(e[1])} ^ 2)"
    if k == "recip":
        return f"(/ {emit(e[1])})"
    if k in ("exp", "sqrt", "sigmoid"):
        return f"({k} {emit(e[1])})"
    if k == "log":
        return f"(ln {emit(e[1])})"
    if k == "abs":
        return f"(Rabs {emit(e[1])})"
    if k == "max2":
        return f"(Rmax {emit(e[1])} {emit(e[2])})"
    if k == "min2":
        return f"(Rmin {emit(e[1])} {emit(e[2])})"
    if k == "app":      # opaque (hand-modelled) function applied to traced arguments, see `opaque`
        return "(" + " ".join([e[1]] + [emit(a) for a in e[2:]]) + ")"
    if k == "where":
        c = e[1]
        a, b = emit(e[2]), emit(e[3])
        x, y = emit(c[1]), emit(c[2])
        if c[0] == "gt":
            return f"(if Rlt_dec {y} {x} then {a} else {b})"
        if c[0] == "lt":
            return f"(if Rlt_dec {x} {y} then {a} else {b})"
        if c[0] == "ge":
            return f"(if Rle_dec {y} {x} then {a} else {b})"
        if c[0] == "le":
            return f"(if Rle_dec {x} {y} then {a} else {b})"
        if c[0] == "ne":
            return f"(if Req_EM_T {x} {y} then {b} else {a})"
        if c[0] == "eq":
            return f"(if Req_EM_T {x} {y} then {a} else {b})"
        raise Untraceable(f"condition {c[0]}")
    if k in EXTRA_EMIT:
        return EXTRA_EMIT[k](e, emit)
    raise Untraceable(f"cannot emit {k}")


def variables(e, acc=None) -> list[str]:
    acc = [] if acc is None else acc
    if e[0] == "var":
        if e[1] not in acc:
            acc.append(e[1])
    else:
        for x in e[1:]:
            if isinstance(x, tuple):
                variables(x, acc)
    return acc


def _size(e) -> int:
    return 1 + sum(_size(x) for x in e[1:] if isinstance(x, tuple))


def _subst(e, old, new):
    if e == old:
        return new
    return tuple(_subst(x, old, new) if isinstance(x, tuple) else x for x in e)


def cse(e, min_size: int = 6):
    """Name sub-expressions that occur more than once (largest first): returns (bindings, expr)."""
    binds = []
    while True:
        counts: dict = {}

        def walk(x):
            if isinstance(x, tuple) and x[0] not in ("var", "const"):
                counts[x] = counts.get(x, 0) + 1
                for y in x[1:]:
                    walk(y)
        walk(e)
        for _, b in binds:
            walk(b)
        cands = [x for x, c in counts.items() if c > 1 and _size(x) >= min_size and x[0] not in ("gt", "lt", "ge", "le", "ne", "eq")]
        if not cands:
            break
        big = max(cands, key=_size)
        v = ("var", f"cse{len(binds)}")
        e = _subst(e, big, v)
        binds = [(n, _subst(b, big, v)) for n, b in binds]
        binds.append((v[1], big))
    # order bindings so that each only uses earlier ones
    ordered, names = [], set()
    pending = list(binds)
    while pending:
        for i, (n, b) in enumerate(pending):
            if all(not x.startswith("cse") or x in names for x in variables(b)):
                ordered.append((n, b))
                names.add(n)
                pending.pop(i)
                break
        else:
            raise Untraceable("cyclic common sub-expressions")
    return ordered, e


def name_consts(e, named: dict):
    """replace listed constants (exact values) by variables named after them"""
    if e[0] == "const":
        if e[1] in named:
            return ("var", named[e[1]])
        if -e[1] in named:
            return ("neg", ("var", named[-e[1]]))
        return e
    return tuple(name_consts(x, named) if isinstance(x, tuple) else x for x in e)


def definition(name: str, params: list[str], e, named_consts: dict | None = None) -> str:
    named_consts = named_consts or {}
    e = name_consts(e, named_consts)
    free = variables(e)
    extra = [v for v in free if v not in params and v not in named_consts.values()]
    if any(v.startswith("cse") for v in free):
        raise Untraceable("variable names starting with `cse` are reserved")
    if extra:
        raise Untraceable(f"{name}: free variables {extra} not among the declared parameters")
    binds, body = cse(e)
    ps = " ".join(params)
    lets = "".join(f"  let {n} := {emit(b)} in\n" for n, b in binds)
    return f"Definition {name} ({ps} : R) : R :=\n{lets}  {emit(body)}.\n"


def const_definition(name: str, value: Fraction) -> str:
    return f"Definition {name} : R := {_q(value)}.\n"


HEADER = """(* REGENERATED on every run by tracing the running code of $VERIF_REPO/src/leaspy — do not edit *)
From Coq Require Import Reals.
From Leaspy Require Import Base.RAux.
Local Open Scope R_scope.
"""


def evaluate(e, env: dict):
    """Evaluate an expression tree with python floats (used by harness self-tests only, never as an oracle)."""
    import math
    k = e[0]
    if k == "var":
        return env[e[1]]
    if k == "const":
        return float(e[1])
    v = [evaluate(x, env) for x in e[1:] if isinstance(x, tuple)]
    if k == "add":
        return v[0] + v[1]
    if k == "sub":
        return v[0] - v[1]
    if k == "mul":
        return v[0] * v[1]
    if k == "div":
        return v[0] / v[1]
    if k == "neg":
        return -v[0]
    if k == "pow":
        return v[0] ** v[1]
    if k == "square":
        return v[0] ** 2
    if k == "exp":
        return math.exp(v[0])
    if k == "log":
        return math.log(v[0])
    if k == "sqrt":
        return math.sqrt(v[0])
    if k == "sigmoid":
        return 1 / (1 + math.exp(-v[0]))
    if k == "abs":
        return abs(v[0])
    if k == "max2":
        return max(v)
    if k == "min2":
        return min(v)
    if k in ("gt", "lt", "ge", "le", "ne", "eq"):
        import operator
        return getattr(operator, k)(v[0], v[1])
    if k == "where":
        return v[1] if v[0] else v[2]
    raise Untraceable(k)


def symbolic_state(state, hyper_as_symbols: bool = False):
    """Clone a real `State` and load every independent variable (model parameters, latent variables, data)
    with a symbolic scalar named after it, so that reading a derived variable runs the code's own
    dependency resolution and node functions on symbols.  Hyper-parameters keep their concrete values
    unless `hyper_as_symbols`."""
    import leaspy.algo, leaspy.models  # noqa: F401  (import order)
    from leaspy.utils.weighted_tensor import WeightedTensor
    from leaspy.variables.specs import (DataVariable, Hyperparameter, IndividualLatentVariable, ModelParameter,
                                         PopulationLatentVariable)
    st = state.clone(disable_auto_fork=True)
    with st.auto_fork(None):
        for n in st.dag.sorted_variables_names:
            v = st.dag[n]
            if isinstance(v, (ModelParameter, PopulationLatentVariable, IndividualLatentVariable)):
                st[n] = S(n)
            elif isinstance(v, DataVariable):
                st[n] = WeightedTensor(S(n))
            elif isinstance(v, Hyperparameter) and hyper_as_symbols:
                st._values[n] = S(n)
    return st
