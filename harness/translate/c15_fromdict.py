"""C15 (extension 4) — T1: regenerate coq/gen/GenC15FromDict.v from the source, with python `ast`, fail closed.

What is read (anything not recognised raises `Untranslatable` -> `BROKEN broken-translation translate:GenC15FromDict`):

* utils/functional/_utils.py::get_named_parameters — the exact statement sequence: the NamedInputFunction shortcut and what
  it returns, `params = signature(f).parameters`, the comprehension collecting the refused parameters (its test is PARSED
  into the list of accepted `inspect.Parameter` kinds; a test mentioning anything else, e.g. `p.default`, is refused),
  the exception raised, and the value returned for an accepted callable.
* utils/functional/_named_input_function.py::NamedInputFunction — the dataclass fields (no property / method named
  `parameters`), `then` (the signature of the local `g_o_f` as parameter kinds, its body, and the three fields of the returned
  NamedInputFunction), `bound_to` -> `factory` (signature kinds and the three fields).
* variables/specs.py — which classes define `get_ancestors_names` (exactly VariableInterface [abstract], IndepVariable,
  LinkedVariable), the base of every variable class, `IndepVariable.get_ancestors_names`, `LinkedVariable.__post_init__`
  (call, the exception translated, how `parameters` is stored) and `LinkedVariable.get_ancestors_names`.
* variables/dag.py — `VariablesDAG.from_dict`, `_check_consistency_of_nodes`, and that `__post_init__` starts with it.

`Dag/FromDictTie.v` proves every regenerated value equal to the model's table (`Dag/FromDictSrc.v`); the structured ones
(accepted kinds, kinds of `g_o_f`) are the very lists the executable model computes with.
"""
from __future__ import annotations

import ast

from harness.common import Run, SRC, coq_list, coq_string

HEADER = """(* REGENERATED on every run from $VERIF_REPO/src/leaspy by harness/translate/c15_fromdict.py — do not edit *)
From Coq Require Import String List.
From Leaspy Require Import Dag.FromDict.
Import ListNotations.
Open Scope string_scope.
"""

KIND = {"POSITIONAL_ONLY": "PosOnly", "POSITIONAL_OR_KEYWORD": "PosOrKw", "VAR_POSITIONAL": "VarPos",
        "KEYWORD_ONLY": "KwOnly", "VAR_KEYWORD": "VarKw"}


class Untranslatable(Exception):
    pass


def _u(n):
    return ast.unparse(n)


def _is_doc(s):
    return isinstance(s, ast.Expr) and isinstance(s.value, ast.Constant) and isinstance(s.value.value, str)


def _body(fn):
    return [s for s in fn.body if not _is_doc(s)]


def _fn(tree, name):
    for n in tree.body:
        if isinstance(n, ast.FunctionDef) and n.name == name:
            return n
    raise Untranslatable(f"function {name} not found")


def _cls(tree, name):
    for n in tree.body:
        if isinstance(n, ast.ClassDef) and n.name == name:
            return n
    raise Untranslatable(f"class {name} not found")


def _meth(cls, name):
    found = [n for n in cls.body if isinstance(n, (ast.FunctionDef, ast.AsyncFunctionDef)) and n.name == name]
    if len(found) != 1:
        raise Untranslatable(f"{len(found)} definitions of {cls.name}.{name}")
    return found[0]


def _arg_kinds(fn):
    """The signature of a `def`, as [(name, kind, has_default)] in python's order."""
    a = fn.args
    out = []
    npos = len(a.posonlyargs) + len(a.args)
    first_default = npos - len(a.defaults)
    for i, x in enumerate(a.posonlyargs + a.args):
        out.append((x.arg, "PosOnly" if i < len(a.posonlyargs) else "PosOrKw", i >= first_default))
    if a.vararg:
        out.append((a.vararg.arg, "VarPos", False))
    for x, d in zip(a.kwonlyargs, a.kw_defaults):
        out.append((x.arg, "KwOnly", d is not None))
    if a.kwarg:
        out.append((a.kwarg.arg, "VarKw", False))
    return out


def _kind_attr(node, var):
    if isinstance(node, ast.Attribute) and isinstance(node.value, ast.Name) and node.value.id == var and node.attr in KIND:
        return KIND[node.attr]
    raise Untranslatable(f"not a parameter kind of `{var}`: {_u(node)}")


def _accepted_kinds(test, var):
    """Kinds for which the `refused` test is False.  Only `<var>.kind is not / != <var>.K` and `<var>.kind not in (<var>.K, ...)`."""
    if not (isinstance(test, ast.Compare) and len(test.ops) == 1 and _u(test.left) == f"{var}.kind"):
        raise Untranslatable(f"test of the refused parameters not understood: {_u(test)}")
    op, rhs = test.ops[0], test.comparators[0]
    if isinstance(op, (ast.IsNot, ast.NotEq)):
        return [_kind_attr(rhs, var)]
    if isinstance(op, ast.NotIn) and isinstance(rhs, (ast.Tuple, ast.List, ast.Set)):
        return [_kind_attr(e, var) for e in rhs.elts]
    raise Untranslatable(f"test of the refused parameters not understood: {_u(test)}")


def _gnp(tree):
    fn = _fn(tree, "get_named_parameters")
    if [a[1] for a in _arg_kinds(fn)] != ["PosOrKw"] or fn.args.args[0].arg != "f" or fn.decorator_list:
        raise Untranslatable("get_named_parameters: signature")
    b = _body(fn)
    if len(b) != 6:
        raise Untranslatable(f"get_named_parameters: {len(b)} statements instead of 6")
    if _u(b[0]) != "from inspect import signature":
        raise Untranslatable(f"get_named_parameters[0]: {_u(b[0])}")
    s = b[1]
    if not (isinstance(s, ast.If) and _u(s.test) == "isinstance(f, NamedInputFunction)" and not s.orelse and len(s.body) == 1
            and isinstance(s.body[0], ast.Return)):
        raise Untranslatable(f"get_named_parameters[1]: {_u(s)}")
    named_result = _u(s.body[0].value)
    if _u(b[2]) != "params = signature(f).parameters":
        raise Untranslatable(f"get_named_parameters[2]: {_u(b[2])}")
    s = b[3]
    if not (isinstance(s, ast.Assign) and len(s.targets) == 1 and isinstance(s.targets[0], ast.Name) and isinstance(s.value, ast.ListComp)
            and len(s.value.generators) == 1):
        raise Untranslatable(f"get_named_parameters[3]: {_u(s)}")
    refused_var = s.targets[0].id
    g = s.value.generators[0]
    if not (_u(g.iter) == "params.items()" and isinstance(g.target, ast.Tuple) and len(g.target.elts) == 2 and len(g.ifs) == 1
            and not g.is_async and _u(s.value.elt) == _u(g.target.elts[0])):
        raise Untranslatable(f"get_named_parameters[3]: {_u(s)}")
    accepted = _accepted_kinds(g.ifs[0], _u(g.target.elts[1]))
    s = b[4]
    if not (isinstance(s, ast.If) and _u(s.test) == f"len({refused_var})" and not s.orelse and len(s.body) == 1
            and isinstance(s.body[0], ast.Raise) and s.body[0].cause is None and _u(s.body[0].exc) == f"ValueError({refused_var})"):
        raise Untranslatable(f"get_named_parameters[4]: {_u(s)}")
    if not (isinstance(b[5], ast.Return) and _u(b[5].value) == "tuple(params)"):
        raise Untranslatable(f"get_named_parameters[5]: {_u(b[5])}")
    return named_result, accepted, "ValueError(refused names)", "tuple(params)"


def _nif_call_fields(call):
    if not (isinstance(call, ast.Call) and _u(call.func) == "NamedInputFunction" and not call.args):
        raise Untranslatable(f"not a NamedInputFunction(...) with keyword fields: {_u(call)}")
    return [(k.arg, _u(k.value)) for k in call.keywords]


def _nif(tree):
    cls = _cls(tree, "NamedInputFunction")
    if [_u(d) for d in cls.decorator_list] != ["dataclass(frozen=True)"]:
        raise Untranslatable("NamedInputFunction is not a frozen dataclass")
    fields = [(s.target.id, s.value is not None) for s in cls.body if isinstance(s, ast.AnnAssign) and isinstance(s.target, ast.Name)]
    members = [s.name for s in cls.body if isinstance(s, (ast.FunctionDef, ast.AsyncFunctionDef))]
    if any(m in ("parameters", "__getattr__", "__getattribute__", "__post_init__", "__init__", "__new__") for m in members):
        raise Untranslatable(f"NamedInputFunction defines one of parameters/__getattr__/__post_init__/__init__: {members}")
    # --- then
    then = _meth(cls, "then")
    if then.decorator_list or [(a[0], a[1]) for a in _arg_kinds(then)] != [("self", "PosOrKw"), ("g", "PosOrKw"), ("g_kws", "VarKw")]:
        raise Untranslatable("then: signature")
    b = _body(then)
    if not (len(b) == 4 and isinstance(b[0], ast.FunctionDef) and b[0].name == "g_o_f" and not b[0].decorator_list):
        raise Untranslatable("then: body is not [def g_o_f, two renamings, return]")
    gof = b[0]
    gof_kinds = [a[1] for a in _arg_kinds(gof)]
    gof_names = [a[0] for a in _arg_kinds(gof)]
    gb = _body(gof)
    if gof_kinds != ["VarPos", "VarKw"] or len(gb) != 1 or _u(gb[0]) != f"return g(self.f(*{gof_names[0]}, **{gof_names[1]}), **g_kws)":
        raise Untranslatable(f"then: g_o_f is not g(self.f(*args, **kws), **g_kws): {_u(gof)[:160]}")
    for s in b[1:3]:
        if not (isinstance(s, ast.Assign) and _u(s.targets[0]) in ("g_o_f.__name__", "g_o_f.__qualname__")):
            raise Untranslatable(f"then: {_u(s)}")
    if not isinstance(b[3], ast.Return):
        raise Untranslatable("then: no final return")
    then_fields = _nif_call_fields(b[3].value)
    # --- bound_to
    bt = _meth(cls, "bound_to")
    if [_u(d) for d in bt.decorator_list] != ["staticmethod"]:
        raise Untranslatable("bound_to is not a staticmethod")
    bb = _body(bt)
    if not (bb and isinstance(bb[0], ast.FunctionDef) and bb[0].name == "factory" and isinstance(bb[-1], ast.Return) and _u(bb[-1].value) == "factory"):
        raise Untranslatable("bound_to: not [def factory ...; return factory]")
    for s in bb[1:-1]:
        if not (isinstance(s, ast.Assign) and _u(s.targets[0]).startswith("factory.__")):
            raise Untranslatable(f"bound_to: {_u(s)[:100]}")
    fac = bb[0]
    fac_sig = [(a[0], a[1]) for a in _arg_kinds(fac)]
    if fac_sig != [("parameters", "VarPos"), ("kws", "VarKw")]:
        raise Untranslatable(f"factory signature: {fac_sig}")
    fb = _body(fac)
    if len(fb) != 2 or not isinstance(fb[1], ast.Return):
        raise Untranslatable("factory: body is not [optional check, return]")
    chk = fb[0]
    if not (isinstance(chk, ast.If) and _u(chk.test) == "check_arguments is not None" and not chk.orelse and len(chk.body) == 1
            and isinstance(chk.body[0], ast.Try) and [_u(x) for x in chk.body[0].body] == ["check_arguments(parameters, kws)"]
            and not chk.body[0].orelse and not chk.body[0].finalbody
            and all(len(h.body) == 1 and isinstance(h.body[0], ast.Raise) for h in chk.body[0].handlers)):
        raise Untranslatable(f"factory: the check is not `if check_arguments is not None: try: check_arguments(parameters, kws) except: raise`")
    bound_fields = _nif_call_fields(fb[1].value)
    return fields, gof_kinds, then_fields, bound_fields


def _specs(tree):
    classes = {n.name: n for n in tree.body if isinstance(n, ast.ClassDef)}
    bases = {}
    for name, c in classes.items():
        bases[name] = [_u(b) for b in c.bases]

    def is_var(name, seen=()):
        if name == "VariableInterface":
            return True
        return any(b in classes and b not in seen and is_var(b, seen + (name,)) for b in bases.get(name, []))

    var_classes = sorted(n for n in classes if is_var(n))
    definers = sorted(n for n in var_classes if any(isinstance(s, ast.FunctionDef) and s.name == "get_ancestors_names" for s in classes[n].body))
    if definers != ["IndepVariable", "LinkedVariable", "VariableInterface"]:
        raise Untranslatable(f"get_ancestors_names is defined by {definers}")
    for n in var_classes:
        c = classes[n]
        if any(isinstance(s, ast.FunctionDef) and s.name in ("__getattr__", "__getattribute__") for s in c.body):
            raise Untranslatable(f"{n} defines __getattr__")
        for s in c.body:
            tg = [s.target] if isinstance(s, ast.AnnAssign) else (s.targets if isinstance(s, ast.Assign) else [])
            if any(_u(t) == "get_ancestors_names" for t in tg):
                raise Untranslatable(f"{n} assigns get_ancestors_names")
    abstract = _meth(classes["VariableInterface"], "get_ancestors_names")
    if [_u(d) for d in abstract.decorator_list] != ["abstractmethod"] or _body(abstract):
        raise Untranslatable("VariableInterface.get_ancestors_names is not abstract")
    # every other variable class reaches IndepVariable through single inheritance inside specs.py
    parent = []
    for n in var_classes:
        if n in ("VariableInterface",):
            continue
        if len(bases[n]) != 1:
            raise Untranslatable(f"{n} has bases {bases[n]}")
        root = n
        while root not in ("IndepVariable", "LinkedVariable"):
            if len(bases.get(root, [])) != 1 or bases[root][0] not in classes:
                raise Untranslatable(f"{n}: base chain leaves specs.py at {root}")
            root = bases[root][0]
            if root == "VariableInterface":
                raise Untranslatable(f"{n} derives from VariableInterface directly")
        parent.append((n, root))
    indep = _body(_meth(classes["IndepVariable"], "get_ancestors_names"))
    if len(indep) != 1 or not isinstance(indep[0], ast.Return):
        raise Untranslatable("IndepVariable.get_ancestors_names")
    indep_result = _u(indep[0].value)
    lv = classes["LinkedVariable"]
    if [_u(d) for d in lv.decorator_list] != ["dataclass(frozen=True)"]:
        raise Untranslatable("LinkedVariable is not a frozen dataclass")
    lv_fields = [(_u(s.target), _u(s.value) if s.value is not None else "") for s in lv.body
                 if isinstance(s, ast.AnnAssign) and "ClassVar" not in _u(s.annotation)]
    if lv_fields != [("f", ""), ("parameters", "field(init=False)")]:
        raise Untranslatable(f"LinkedVariable fields: {lv_fields}")
    if any(isinstance(s, ast.FunctionDef) and s.name in ("__init__", "__new__", "__setattr__") for s in lv.body):
        raise Untranslatable("LinkedVariable defines __init__/__new__/__setattr__")
    pi = _body(_meth(lv, "__post_init__"))
    if len(pi) != 2 or not isinstance(pi[0], ast.Try):
        raise Untranslatable("LinkedVariable.__post_init__: not [try, setattr]")
    t = pi[0]
    if t.orelse or t.finalbody or len(t.body) != 1 or len(t.handlers) != 1:
        raise Untranslatable("LinkedVariable.__post_init__: try shape")
    h = t.handlers[0]
    if not (len(h.body) == 1 and isinstance(h.body[0], ast.Raise) and isinstance(h.body[0].exc, ast.Call) and h.type is not None):
        raise Untranslatable("LinkedVariable.__post_init__: handler")
    post = [_u(t.body[0]), f"except {_u(h.type)}: raise {_u(h.body[0].exc.func)}", _u(pi[1])]
    la = _body(_meth(lv, "get_ancestors_names"))
    if len(la) != 1 or not isinstance(la[0], ast.Return):
        raise Untranslatable("LinkedVariable.get_ancestors_names")
    return parent, indep_result, post, _u(la[0].value)


def _dag(tree):
    cls = _cls(tree, "VariablesDAG")
    fd = _meth(cls, "from_dict")
    if [_u(d) for d in fd.decorator_list] != ["classmethod"] or [a[0] for a in _arg_kinds(fd)] != ["cls", "input_dictionary"]:
        raise Untranslatable("from_dict: decorator / signature")
    from_dict = [_u(s) for s in _body(fd)]
    cc = _meth(cls, "_check_consistency_of_nodes")
    check = []
    for s in _body(cc):
        if isinstance(s, ast.If) and not s.orelse and len(s.body) == 1 and isinstance(s.body[0], ast.Raise) and isinstance(s.body[0].exc, ast.Call):
            check.append(f"if {_u(s.test)}: raise {_u(s.body[0].exc.func)}")
        elif isinstance(s, (ast.Assign, ast.Return, ast.Expr)):
            check.append(_u(s))
        else:
            raise Untranslatable(f"_check_consistency_of_nodes: {_u(s)[:100]}")
    pi = _body(_meth(cls, "__post_init__"))
    if not pi:
        raise Untranslatable("VariablesDAG.__post_init__ is empty")
    if any(isinstance(s, ast.FunctionDef) and s.name in ("__init__", "__new__") for s in cls.body):
        raise Untranslatable("VariablesDAG defines __init__/__new__")
    return from_dict, check, _u(pi[0])


def _pairs(l):
    return coq_list(f"({coq_string(a)}, {coq_string(b)})" for a, b in l)


def translate(run: Run) -> bool:
    try:
        utils = ast.parse((SRC / "utils/functional/_utils.py").read_text())
        nif = ast.parse((SRC / "utils/functional/_named_input_function.py").read_text())
        specs = ast.parse((SRC / "variables/specs.py").read_text())
        dag = ast.parse((SRC / "variables/dag.py").read_text())
        named_result, accepted, refusal, plain_result = _gnp(utils)
        fields, gof_kinds, then_fields, bound_fields = _nif(nif)
        parent, indep_result, post, linked_result = _specs(specs)
        from_dict, check, first = _dag(dag)
        out = [HEADER,
               f"Definition gen_gnp_named_result : string := {coq_string(named_result)}.",
               f"Definition gen_gnp_accepted_kinds : list pkind := {coq_list(accepted)}.",
               f"Definition gen_gnp_refusal : string := {coq_string(refusal)}.",
               f"Definition gen_gnp_plain_result : string := {coq_string(plain_result)}.",
               "Definition gen_nif_fields : list (string * bool) := " + coq_list(f"({coq_string(a)}, {'true' if b else 'false'})" for a, b in fields) + ".",
               f"Definition gen_g_o_f_kinds : list pkind := {coq_list(gof_kinds)}.",
               f"Definition gen_then_fields : list (string * string) := {_pairs(then_fields)}.",
               f"Definition gen_bound_fields : list (string * string) := {_pairs(bound_fields)}.",
               f"Definition gen_variable_classes : list (string * string) := {_pairs(parent)}.",
               f"Definition gen_indep_ancestors : string := {coq_string(indep_result)}.",
               f"Definition gen_linked_post_init : list string := {coq_list(coq_string(x) for x in post)}.",
               f"Definition gen_linked_ancestors : string := {coq_string(linked_result)}.",
               f"Definition gen_from_dict : list string := {coq_list(coq_string(x) for x in from_dict)}.",
               f"Definition gen_check_consistency : list string := {coq_list(coq_string(x) for x in check)}.",
               f"Definition gen_post_init_first : string := {coq_string(first)}."]
        run.gen("GenC15FromDict", "\n".join(out) + "\n")
        t = ("translator harness/translate/c15_fromdict.py (python ast of get_named_parameters, NamedInputFunction.then/bound_to, "
             "IndepVariable/LinkedVariable.get_ancestors_names, LinkedVariable.__post_init__, VariablesDAG.from_dict/_check_consistency_of_nodes "
             "-> accepted parameter kinds + normalised source tables; fail closed)")
        if t not in run.trusted:
            run.trusted.append(t)
        return True
    except (Untranslatable, KeyError, OSError, SyntaxError, IndexError, AttributeError, ValueError) as e:
        run.broken("translate:GenC15FromDict", f"{type(e).__name__}: {e}", kind="broken-translation")
        return False
