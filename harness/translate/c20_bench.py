"""C20 (extension) — T1: regenerate coq/gen/GenC20.v from the source of the two benchmark models.

A small SHAPE-TYPED symbolic executor of straight-line numpy code (python `ast`, fail closed: a statement, call,
operator, keyword or shape that is not in the tables below is `Untranslatable` -> broken translation, never a guess).
Every python / numpy / statsmodels primitive is mapped to ONE definition of coq/theories/Api/BenchNumpy.v (its
exact-arithmetic meaning: NaN = None, rationals, exceptions and non-finite results = explicit `Err`); partial
primitives are sequenced with `rbind` in python's evaluation order, so the order of the errors is the code's.

Translated:
 (a) ConstantPredictionAlgorithm._get_feature_values, once per member of PredictionType  -> gen_feature_values
 (b) ConstantModel.compute_individual_trajectory                                        -> gen_constant_trajectory
 (c) LMEPersonalizeAlgorithm._get_individual_random_effects_and_residuals (both values of with_random_slope_age,
     `_remove_nans` and `_generic_get_random_effects` inlined), `_generic_get_random_effects` alone with one and
     two columns                                                                         -> gen_lme_personalize, gen_generic_re_{1,2}, gen_intercept_re
 (d) LMEFitAlgorithm._run: what is stored under which key, the inversion and the refusal  -> gen_fit_store_{1,2}, gen_fit_table
 (e) LMEModel.compute_individual_trajectory                                             -> gen_lme_trajectory
Api/BenchSrcTie.v proves the regenerated definitions equal to the hand-written model (Api/Bench.v, Api/BenchFit.v).
"""
from __future__ import annotations

import ast
from dataclasses import dataclass, field

from harness.common import Run, SRC, coq_string

HEADER = """(* REGENERATED on every run from $VERIF_REPO/src/leaspy by harness/translate/c20_bench.py — do not edit *)
From Coq Require Import String QArith List Bool Arith.
From Leaspy Require Import Base.QAux Api.Bench Api.BenchNumpy Api.BenchFit.
Import ListNotations.
Open Scope Q_scope.
"""

KIND_OF = {"last": "Last", "last-known": "LastKnown", "max": "Max", "mean": "Mean"}


class Untranslatable(Exception):
    pass


def _u(n) -> str:
    return ast.unparse(n)


def _cls(tree, name):
    for n in tree.body:
        if isinstance(n, ast.ClassDef) and n.name == name:
            return n
    raise Untranslatable(f"class {name} not found")


def _meth(cls, name):
    for n in cls.body:
        if isinstance(n, ast.FunctionDef) and n.name == name:
            return n
    raise Untranslatable(f"method {cls.name}.{name} not found")


def _is_doc(s):
    return isinstance(s, ast.Expr) and isinstance(s.value, ast.Constant) and isinstance(s.value.value, str)


def _params(fn, skip=("self", "cls")):
    a = fn.args
    if a.vararg or a.kwarg or a.kwonlyargs or a.posonlyargs or a.defaults:
        raise Untranslatable(f"{fn.name}: signature {_u(a)}")
    return [x.arg for x in a.args if x.arg not in skip]


@dataclass
class Val:
    ty: str                      # shape / kind tag (see the tables in `Exec`)
    tx: str = ""                 # Coq text
    x: dict = field(default_factory=dict)


def paren(t: str) -> str:
    t = t.strip()
    if t.startswith("(") and t.endswith(")") or all(c.isalnum() or c in "_'" for c in t):
        return t
    return f"({t})"


class Exec:
    """symbolic execution of one function body under a static configuration"""

    def __init__(self, *, statics=None, attrs=None, subscripts=None, methods=None, k=2, d="d", div_err=None, guards=()):
        self.statics = statics or {}          # source text of an expression -> python constant (decides `if` tests)
        self.attrs = attrs or {}              # source text -> Val (opaque inputs)
        self.subscripts = subscripts or {}    # source text of `x["key"]` -> Val
        self.methods = methods or {}          # dotted call name -> (FunctionDef)  (inlined)
        self.k = k
        self.d = d
        self.div_err = div_err if div_err is not None else {}          # source text of a divisor -> error constructor
        self.guards = guards                  # source of `if <test>: raise` statements that are preconditions
        self.lines: list[tuple[str, str, str]] = []   # ("let" | "bind", name, text)
        self.n = 0
        self.taken: set[str] = set()
        self.preconditions: list[str] = []

    # ---- emission
    def fresh(self, hint="x"):
        self.n += 1
        self.taken.add(f"{hint}{self.n}")
        return f"{hint}{self.n}"

    def name_for(self, ident: str) -> str:
        """a Coq name for a python local: never shadows an earlier binding (python rebinding /= Gallina shadowing of texts already built)"""
        name, i = ident, 1
        while name in self.taken:
            i += 1
            name = f"{ident}_{i}"
        self.taken.add(name)
        return name

    def bind(self, v: Val, hint="x") -> Val:
        """v.ty == 'res:T' -> a bound variable of type T"""
        assert v.ty.startswith("res:")
        name = self.fresh(hint)
        self.lines.append(("bind", name, v.tx))
        return Val(v.ty[4:], name, dict(v.x))

    def render(self, final: Val, indent="  ") -> str:
        out = []
        for kind, name, tx in self.lines:
            out.append(f"{indent}let {name} := {tx} in" if kind == "let" else f"{indent}rbind ({tx}) (fun {name} =>")
        out.append(indent + (final.tx if final.ty.startswith("res:") else f"Ok {paren(final.tx)}"))
        return "\n".join(out) + ")" * sum(1 for k_, _, _ in self.lines if k_ == "bind")

    # ---- statements
    def run(self, fn, env) -> Val:
        self.taken |= {v.tx for v in env.values() if v.tx.isidentifier()}
        return self.block([s for s in fn.body if not _is_doc(s)], dict(env))

    def block(self, stmts, env):
        for i, s in enumerate(stmts):
            if isinstance(s, ast.Return):
                if s.value is None:
                    raise Untranslatable("bare return")
                return self.ev(s.value, env)
            if isinstance(s, ast.If):
                t = _u(s.test)
                if t in self.guards and len(s.body) == 1 and isinstance(s.body[0], ast.Raise) and not s.orelse:
                    self.preconditions.append(f"not ({t})")
                    continue
                c = self.static(s.test, env)
                return self.block((s.body if c else s.orelse) + stmts[i + 1:], env)
            if isinstance(s, ast.Assign) and len(s.targets) == 1:
                self.assign(s.targets[0], self.ev(s.value, env), env)
                continue
            if isinstance(s, ast.Expr) and isinstance(s.value, ast.Constant):
                continue
            raise Untranslatable(f"statement: {_u(s)[:100]}")
        raise Untranslatable("function falls off its end")

    def assign(self, target, v: Val, env):
        if isinstance(target, ast.Name):
            if v.ty.startswith("res:"):
                v = self.bind(v, target.id)
                env[target.id] = v
            elif v.ty in ("Tuple", "Dict", "Range", "Static", "Mask", "MaskTab", "Shape", "Ignored") or v.tx == target.id:
                env[target.id] = v
            else:
                name = self.name_for(target.id)
                self.lines.append(("let", name, v.tx))
                env[target.id] = Val(v.ty, name, dict(v.x))
            return
        if isinstance(target, ast.Tuple) and v.ty == "Tuple" and len(target.elts) == len(v.x["items"]):
            for t, item in zip(target.elts, v.x["items"]):
                self.assign(t, item, env)
            return
        raise Untranslatable(f"assignment target {_u(target)}")

    def static(self, node, env):
        if isinstance(node, ast.UnaryOp) and isinstance(node.op, ast.Not):
            return not self.static(node.operand, env)
        if isinstance(node, ast.Compare) and len(node.ops) == 1 and isinstance(node.ops[0], ast.Eq):
            a, b = _u(node.left), _u(node.comparators[0])
            if a in self.statics and b in self.statics:
                return self.statics[a] == self.statics[b]
        t = _u(node)
        if t in self.statics and isinstance(self.statics[t], bool):
            return self.statics[t]
        raise Untranslatable(f"test not decided by the configuration: {t}")

    # ---- expressions
    def pure(self, v: Val, hint="x") -> Val:
        return self.bind(v, hint) if v.ty.startswith("res:") else v

    def ev(self, node, env) -> Val:
        src = _u(node)
        if src in self.attrs:
            return self.attrs[src]
        if src in self.subscripts:
            return self.subscripts[src]
        if isinstance(node, ast.Name):
            if node.id in env:
                return env[node.id]
            raise Untranslatable(f"unknown name {node.id}")
        if isinstance(node, ast.Constant):
            if isinstance(node.value, bool):
                return Val("Static", x=dict(value=node.value))
            if isinstance(node.value, int):
                return Val("Int", str(node.value), dict(value=node.value))
            if isinstance(node.value, str):
                return Val("Str", coq_string(node.value), dict(value=node.value))
            if isinstance(node.value, float):
                return Val("Float", src, dict(value=node.value))
            raise Untranslatable(f"constant {src}")
        if isinstance(node, ast.Tuple):
            return Val("Tuple", x=dict(items=[self.ev(e, env) for e in node.elts]))
        if isinstance(node, ast.List):
            items = [self.pure(self.ev(e, env)) for e in node.elts]
            return Val("List", "[" + "; ".join(i.tx for i in items) + "]", dict(items=items))
        if isinstance(node, ast.Dict):
            ks, vs = [], []
            for kk, vv in zip(node.keys, node.values):
                if not (isinstance(kk, ast.Constant) and isinstance(kk.value, str)):
                    raise Untranslatable(f"dict key {_u(kk)}")
                ks.append(kk.value)
                vs.append(self.pure(self.ev(vv, env)))
            return Val("Dict", x=dict(keys=ks, values=vs))
        if isinstance(node, ast.ListComp):
            return self.listcomp(node, env)
        if isinstance(node, ast.UnaryOp) and isinstance(node.op, ast.Invert):
            return self.invert(self.pure(self.ev(node.operand, env)))
        if isinstance(node, ast.BinOp):
            a = self.pure(self.ev(node.left, env))
            b = self.pure(self.ev(node.right, env))
            return self.binop(type(node.op).__name__, a, b, _u(node.right))
        if isinstance(node, ast.Attribute):
            return self.attribute(self.pure(self.ev(node.value, env)), node.attr)
        if isinstance(node, ast.Subscript):
            return self.subscript(self.pure(self.ev(node.value, env)), node.slice, env)
        if isinstance(node, ast.Call):
            return self.call(node, env)
        raise Untranslatable(f"expression: {src[:100]}")

    def listcomp(self, node, env):
        raise Untranslatable(f"list comprehension: {_u(node)}")

    def invert(self, a: Val) -> Val:
        if a.ty in ("MaskTab", "Mask"):
            f = a.x["fn"]
            return Val(a.ty, x=dict(a.x, fn=lambda c, f=f: f"map negb ({f(c)})", notnan_of=a.x.get("isnan_of")))
        raise Untranslatable(f"~ on {a.ty}")

    def attribute(self, a: Val, attr: str) -> Val:
        if attr == "T" and a.ty == "MatNK":
            return Val("MatKN", a.tx)
        if attr == "shape" and a.ty == "Tab":
            return Val("Shape", x=dict(of=a))
        raise Untranslatable(f".{attr} on {a.ty}")

    def subscript(self, a: Val, sl, env) -> Val:
        if a.ty == "Shape" and isinstance(sl, ast.Constant) and sl.value == 1:
            return Val("Nat", self.d)
        if isinstance(sl, ast.Tuple):
            items = [self.pure(self.ev(e, env)) for e in sl.elts]
            if a.ty == "Tab" and len(items) == 2 and items[0].ty == "ColIx" and items[1].ty == "Range" and items[1].x["n"].tx == self.d:
                return Val("res:Row", f"np_pick {self.d} {paren(a.tx)} {paren(items[0].tx)}")
            raise Untranslatable(f"index {_u(sl)} on {a.ty}")
        i = self.pure(self.ev(sl, env))
        if a.ty == "ListNat" and i.ty == "Int":
            return Val("res:Nat", f"py_index {paren(a.tx)} {i.tx}")
        if a.ty == "Tab" and i.ty == "Nat":
            return Val("res:Row", f"np_row {paren(a.tx)} {paren(i.tx)}")
        if a.ty == "Tab" and i.ty == "ListNat":
            return Val("res:Tab", f"np_take {paren(a.tx)} {paren(i.tx)}")
        if a.ty == "VecV" and i.ty == "Mask" and i.x.get("notnan_of") == a.tx:
            return Val("VecN", f"np_present {paren(a.tx)}")
        if a.ty == "VecN" and i.ty == "Mask":
            return Val("VecN", f"np_compress {paren(i.x['fn'](i.x['base']))} {paren(a.tx)}")
        if a.ty == "VecK" and self.k == 2 and i.ty == "Int" and i.x["value"] in (0, 1):
            return Val("Q", f"{'fst' if i.x['value'] == 0 else 'snd'} {paren(a.tx)}")
        raise Untranslatable(f"{a.ty}[{i.ty}]")

    def kwargs(self, node, allowed: dict):
        """keywords must be exactly a subset of `allowed` (name -> required source text or None = any)"""
        out = {}
        for kw in node.keywords:
            if kw.arg not in allowed:
                raise Untranslatable(f"keyword {kw.arg} in {_u(node)[:80]}")
            if allowed[kw.arg] is not None and _u(kw.value) != allowed[kw.arg]:
                raise Untranslatable(f"keyword {kw.arg}={_u(kw.value)} in {_u(node)[:80]}")
            out[kw.arg] = kw.value
        return out

    COLUMN_REDUCTIONS = {"np.nanmax": "np_nanmax1", "np.max": "np_max1", "np.amax": "np_max1",
                         "np.nanmean": "np_nanmean1", "np.mean": "np_mean1"}

    def call(self, node, env) -> Val:
        f = _u(node.func)
        k = self.k
        if f in self.methods:
            fn = self.methods[f]
            names = _params(fn)
            if node.keywords or len(node.args) != len(names):
                raise Untranslatable(f"call {_u(node)[:80]}")
            inner = {n_: self.pure(self.ev(a, env), n_) for n_, a in zip(names, node.args)}
            return self.run(fn, inner)
        if f in self.COLUMN_REDUCTIONS and len(node.args) == 1:
            a = self.pure(self.ev(node.args[0], env))
            if a.ty == "Tab":
                self.kwargs(node, {"axis": "0"})
                if len(node.keywords) != 1:
                    raise Untranslatable(f"{f} without axis=0")
                return Val("res:Row", f"np_axis0 {self.d} {self.COLUMN_REDUCTIONS[f]} {paren(a.tx)}")
            if a.ty == "VecN" and f == "np.mean" and not node.keywords:
                return Val("Q0d", f"np_mean {paren(a.tx)}")
            raise Untranslatable(f"{f} on {a.ty}")
        if f == "np.std" and len(node.args) == 1 and not node.keywords:
            a = self.pure(self.ev(node.args[0], env))
            if a.ty == "VecN":
                return Val("Sqrt0d", f"np_var {paren(a.tx)}")       # the value is the square root of this rational
        if f == "sorted" and len(node.args) == 1:
            kw = self.kwargs(node, {"key": None, "reverse": None})
            it = node.args[0]
            if not (isinstance(it, ast.Call) and _u(it.func) == "range" and len(it.args) == 1 and isinstance(it.args[0], ast.Call)
                    and _u(it.args[0].func) == "len" and len(it.args[0].args) == 1):
                raise Untranslatable(f"sorted over {_u(it)}")
            seq = self.ev(it.args[0].args[0], env)
            if seq.ty != "VecN" or "key" not in kw or _u(kw["key"]) != _u(it.args[0].args[0]) + ".__getitem__":
                raise Untranslatable(f"sort key: {_u(node)}")
            rev = False
            if "reverse" in kw:
                if not (isinstance(kw["reverse"], ast.Constant) and isinstance(kw["reverse"].value, bool)):
                    raise Untranslatable(f"reverse={_u(kw['reverse'])}")
                rev = kw["reverse"].value
            return Val("ListNat", f"py_sorted_range {'true' if rev else 'false'} {paren(seq.tx)}")
        if f == "range" and len(node.args) == 1 and not node.keywords:
            a = self.pure(self.ev(node.args[0], env))
            if a.ty == "Nat":
                return Val("Range", x=dict(n=a))
        if f == "len" and len(node.args) == 1 and not node.keywords:
            a = self.pure(self.ev(node.args[0], env))
            if a.ty in ("VecN", "VecV", "ListQ"):
                return Val("Nat", f"length {paren(a.tx)}")
        if f == "np.isnan" and len(node.args) == 1 and not node.keywords:
            a = self.pure(self.ev(node.args[0], env))
            if a.ty == "Tab":
                return Val("MaskTab", x=dict(base=a.tx, fn=lambda c: f"map np_isnan {c}"))
            if a.ty == "VecV":
                return Val("Mask", x=dict(base=a.tx, fn=lambda c: f"map np_isnan {c}", isnan_of=a.tx))
        if isinstance(node.func, ast.Attribute) and node.func.attr in ("argmax", "flatten", "squeeze", "item", "reshape"):
            recv = self.pure(self.ev(node.func.value, env))
            m = node.func.attr
            if m == "argmax" and recv.ty == "MaskTab" and not node.args:
                self.kwargs(node, {"axis": "0"})
                if len(node.keywords) != 1:
                    raise Untranslatable("argmax without axis=0")
                return Val("res:ColIx", f"np_axis0 {self.d} (fun c => np_argmax1 ({recv.x['fn']('c')})) {paren(recv.x['base'])}")
            if m == "flatten" and recv.ty == "ColV" and not node.args and not node.keywords:
                return Val("VecV", recv.tx)
            if m == "squeeze" and recv.ty == "VecK" and not node.args and not node.keywords:
                return recv
            if m == "item" and not node.args and not node.keywords:
                if recv.ty == "MatKK" and recv.x.get("k") == 1:
                    return Val("Q", recv.tx)
                if recv.ty in ("Q0d", "Sqrt0d", "Q"):
                    return Val({"Q0d": "Q"}.get(recv.ty, recv.ty), recv.tx)
            if m == "reshape" and recv.ty == "VecN" and len(node.args) == 1 and _u(node.args[0]) == "-1" and not node.keywords:
                return recv
            if m == "reshape" and recv.ty == "VecN" and len(node.args) == 1 and _u(node.args[0]) == "(1, -1, 1)" and not node.keywords:
                return recv
        return self.call_linalg(node, f, env)

    def call_linalg(self, node, f, env) -> Val:
        k = self.k
        if f == "np.dot" and len(node.args) == 2 and not node.keywords:
            a = self.pure(self.ev(node.args[0], env))
            b = self.pure(self.ev(node.args[1], env))
            return self.matmul(a, b)
        if f in ("np.linalg.inv", "np.linalg.pinv") and len(node.args) == 1 and not node.keywords:
            a = self.pure(self.ev(node.args[0], env))
            if a.ty == "MatKK":
                kk = a.x.get("k", k)
                return Val("res:MatKK", f"np_{f.split('.')[-1]}_{kk} {paren(a.tx)}", dict(k=kk))
        if f == "np.sum" and len(node.args) == 1 and not node.keywords:
            a = self.pure(self.ev(node.args[0], env))
            if a.ty == "VecN":
                return Val("Q", f"sumQ {paren(a.tx)}")
        if f == "sm.add_constant" and len(node.args) == 1:
            self.kwargs(node, {"prepend": "True", "has_constant": "'add'"})
            if len(node.keywords) != 2:
                raise Untranslatable(f"add_constant keywords: {_u(node)}")
            a = self.pure(self.ev(node.args[0], env))
            if a.ty == "VecN":
                return Val("res:MatNK", f"sm_add_constant {paren(a.tx)}", dict(k=2))
        if f == "np.array" and len(node.args) == 1 and not node.keywords:
            a = self.ev(node.args[0], env)
            if a.ty == "ListQ":
                return Val("VecN", a.tx)
            if a.ty == "List" and len(a.x["items"]) == 2:
                it = a.x["items"]
                if all(i.ty in ("Q", "Int") for i in it):
                    return Val("VecK", f"({it[0].tx}, {it[1].tx})", dict(k=2))
        if f == "torch.tensor" and len(node.args) == 1:
            self.kwargs(node, {"dtype": "torch.float32"})
            return self.ev(node.args[0], env)
        raise Untranslatable(f"call: {_u(node)[:100]}")

    def matmul(self, a: Val, b: Val) -> Val:
        k = self.k
        if a.ty == "MatKN" and b.ty == "MatNK":
            return Val("MatKK", f"np_dot_T_{k} {paren(a.tx)} {paren(b.tx)}", dict(k=k))
        if a.ty == "MatKN" and b.ty == "VecN":
            return Val("res:VecK", f"np_dot_Tv_{k} {paren(a.tx)} {paren(b.tx)}", dict(k=k))
        if a.ty == "MatKK" and b.ty == "VecK":
            return Val("VecK", f"np_dot_kk_k_{k} {paren(a.tx)} {paren(b.tx)}", dict(k=k))
        if a.ty == "MatNK" and b.ty == "VecK" and k == 2:
            return Val("VecN", f"np_matvec_n2 {paren(a.tx)} {paren(b.tx)}")
        raise Untranslatable(f"product {a.ty} . {b.ty}")

    def binop(self, op, a: Val, b: Val, bsrc: str) -> Val:
        k = self.k
        if op == "MatMult":
            return self.matmul(a, b)
        if op == "Mult" and a.ty == "List" and len(a.x["items"]) == 1 and b.ty == "Nat":
            return Val("ListOf", f"py_list_repeat {paren(a.x['items'][0].tx)} {paren(b.tx)}")
        if op == "Sub" and a.ty == "VecN" and b.ty == "Q":
            return Val("VecN", f"np_sub_s {paren(a.tx)} {paren(b.tx)}")
        if op == "Sub" and a.ty == "VecN" and b.ty == "VecN":
            return Val("VecN", f"np_vsub {paren(a.tx)} {paren(b.tx)}")
        if op == "Div" and a.ty == "VecN" and b.ty in ("Q", "Sqrt0d"):
            if bsrc not in self.div_err:
                raise Untranslatable(f"division by {bsrc}: no error label declared")
            return Val("res:VecN", f"np_div_s {self.div_err[bsrc]} {paren(a.tx)} {paren(b.tx)}")
        if op == "Div" and a.ty == "Q" and b.ty == "Q":
            if bsrc not in self.div_err:
                raise Untranslatable(f"division by {bsrc}: no error label declared")
            return Val("res:Q", f"q_div {self.div_err[bsrc]} {paren(a.tx)} {paren(b.tx)}")
        if op == "Add" and a.ty == "Nat" and b.ty == "Q":
            return Val("Q", f"Qnat {paren(a.tx)} + {b.tx}")
        if op == "Add" and a.ty == "MatKK" and b.ty == "MatKK" and a.x.get("k", k) == b.x.get("k", k):
            kk = a.x.get("k", k)
            return Val("MatKK", f"np_add_kk_{kk} {paren(a.tx)} {paren(b.tx)}", dict(k=kk))
        if op == "Add" and a.ty == "VecK" and b.ty == "VecK" and k == 2:
            return Val("VecK", f"np_add_k_2 {paren(a.tx)} {paren(b.tx)}", dict(k=2))
        if op == "Pow" and a.ty == "Q" and b.ty == "Float" and b.x["value"] == 0.5:
            return Val("Sqrt0d", a.tx)
        raise Untranslatable(f"operator {op} on {a.ty}, {b.ty}")


# ------------------------------------------------------------------------------------------------- (a) (b)

def _prediction_types(tree):
    cls = _cls(tree, "PredictionType")
    out = {}
    for s in cls.body:
        if isinstance(s, ast.Assign) and len(s.targets) == 1 and isinstance(s.targets[0], ast.Name) and isinstance(s.value, ast.Constant):
            out[s.targets[0].id] = s.value.value
    if sorted(out.values()) != sorted(KIND_OF):
        raise Untranslatable(f"PredictionType members: {out}")
    return out


def gen_feature_values(tree) -> str:
    members = _prediction_types(tree)
    fn = _meth(_cls(tree, "ConstantPredictionAlgorithm"), "_get_feature_values")
    if _params(fn) != ["times", "values"]:
        raise Untranslatable(f"_get_feature_values{_params(fn)}")
    arms = []
    for member, text in sorted(members.items(), key=lambda kv: list(KIND_OF).index(kv[1])):
        statics = {f"PredictionType.{m}": v for m, v in members.items()}
        statics["self.prediction_type"] = text
        ex = Exec(statics=statics)
        out = ex.run(fn, dict(times=Val("VecN", "times"), values=Val("Tab", "values")))
        if out.ty not in ("Row", "res:Row"):
            raise Untranslatable(f"_get_feature_values returns {out.ty} for {text}")
        arms.append(f"  | {KIND_OF[text]} =>\n{ex.render(out, '    ')}")
    return ("(** ConstantPredictionAlgorithm._get_feature_values(times, values), one arm per PredictionType *)\n"
            "Definition gen_feature_values (k : kind) (d : nat) (t : table) : res (list value) :=\n"
            "  let times := map fst t in\n  let values := map snd t in\n  match k with\n" + "\n".join(arms) + "\n  end.\n")


class ConstExec(Exec):
    def listcomp(self, node, env):
        if _u(node) == "[individual_parameters[f] for f in self.features]":
            return Val("Row", "ip_by_feature")
        return super().listcomp(node, env)


def gen_constant_trajectory(tree) -> str:
    fn = _meth(_cls(tree, "ConstantModel"), "compute_individual_trajectory")
    if _params(fn) != ["timepoints", "individual_parameters"]:
        raise Untranslatable(f"compute_individual_trajectory{_params(fn)}")
    ex = ConstExec(guards=("self.features is None",))
    out = ex.run(fn, dict(timepoints=Val("ListQ", "timepoints")))
    if out.ty != "List" or len(out.x["items"]) != 1 or out.x["items"][0].ty != "ListOf" or ex.preconditions != ["not (self.features is None)"]:
        raise Untranslatable(f"ConstantModel.compute_individual_trajectory returns {out.ty} {out.tx}")
    return ("(** ConstantModel.compute_individual_trajectory; [ip_by_feature] = [individual_parameters[f] for f in self.features] *)\n"
            "Definition gen_constant_trajectory (ip_by_feature : list value) (timepoints : list Q) : list (list (list value)) :=\n"
            + "\n".join(f"  let {n} := {t} in" for _, n, t in ex.lines) + f"\n  {out.tx}.\n")


# ------------------------------------------------------------------------------------------------- (c) (e) LME

def _div_label(src: str) -> str:
    """error constructor given to a zero divisor (numpy returns non-finite numbers there, the model an explicit error)"""
    return "ZeroScale" if "ages_std" in src else "Singular"


class _Labels(dict):
    def __contains__(self, k):
        return True

    def __getitem__(self, k):
        return _div_label(k)


def _lme_params(prefix: str, slope: bool) -> dict:
    cov = Val("MatKK", "cov_inv p", dict(k=2)) if slope else Val("MatKK", "m11 (cov_inv p)", dict(k=1))
    return {f"{prefix}.parameters['ages_mean']": Val("Q", "ages_mean p"),
            f"{prefix}.parameters['ages_std']": Val("Q", "ages_std p"),
            f"{prefix}.parameters['fe_params']": Val("VecK", "(fe0 p, fe1 p)", dict(k=2)),
            f"{prefix}.parameters['cov_re_unscaled_inv']": cov}


def _dict_text(v: Val) -> str:
    if v.ty != "Dict" or not all(x.ty == "Q" for x in v.x["values"]):
        raise Untranslatable("individual parameters are not a dict of numbers")
    return "[" + "; ".join(f"({coq_string(k)}, {x.tx})" for k, x in zip(v.x["keys"], v.x["values"])) + "]"


def gen_lme_personalize(tree) -> str:
    cls = _cls(tree, "LMEPersonalizeAlgorithm")
    fn = _meth(cls, "_get_individual_random_effects_and_residuals")
    if _params(fn) != ["model", "times", "values"]:
        raise Untranslatable(f"_get_individual_random_effects_and_residuals{_params(fn)}")
    methods = {"cls._remove_nans": _meth(cls, "_remove_nans"), "cls._generic_get_random_effects": _meth(cls, "_generic_get_random_effects")}
    arms = {}
    for slope in (False, True):
        ex = Exec(statics={"model.with_random_slope_age": slope}, subscripts=_lme_params("model", slope), methods=methods, k=2, div_err=_Labels())
        out = ex.run(fn, dict(times=Val("VecN", "times"), values=Val("ColV", "values")))
        if out.ty != "Tuple" or len(out.x["items"]) != 2 or out.x["items"][1].ty != "VecN":
            raise Untranslatable("_get_individual_random_effects_and_residuals does not return (dict, residuals)")
        d = out.x["items"][0]
        want = ["random_intercept", "random_slope_age"] if slope else ["random_intercept"]
        if d.ty != "Dict" or d.x["keys"] != want:
            raise Untranslatable(f"individual parameters returned with random slope={slope}: {d.x.get('keys')}")
        arms[slope] = ex.render(Val("Dict", _dict_text(d)), "    ")
    out = ("(** LMEPersonalizeAlgorithm._get_individual_random_effects_and_residuals (first component of the result: the dict of\n"
           "    individual parameters), [_remove_nans] and [_generic_get_random_effects] inlined; [obs] = (times, values[:, 0]) *)\n"
           "Definition gen_lme_personalize (with_random_slope_age : bool) (p : lme_params) (obs : hist) : res (list (string * Q)) :=\n"
           "  let times := map fst obs in\n  let values := map snd obs in\n"
           f"  if with_random_slope_age then\n{arms[True]}\n  else\n{arms[False]}.\n")
    # the generic formula alone, with two columns and with one
    g = methods["cls._generic_get_random_effects"]
    if _params(g) != ["resid", "Z", "cov_re_unscaled_inv"]:
        raise Untranslatable(f"_generic_get_random_effects{_params(g)}")
    for k, tz, tm, tv in ((2, "list (Q * Q)", "mat2", "Q * Q"), (1, "list Q", "Q", "Q")):
        ex = Exec(k=k, div_err=_Labels())
        r = ex.run(g, dict(resid=Val("VecN", "resid"), Z=Val("MatNK", "Z", dict(k=k)), cov_re_unscaled_inv=Val("MatKK", "cov_re_unscaled_inv", dict(k=k))))
        if r.ty not in ("VecK", "res:VecK"):
            raise Untranslatable(f"_generic_get_random_effects returns {r.ty}")
        out += (f"\n(** LMEPersonalizeAlgorithm._generic_get_random_effects with k_re = {k} *)\n"
                f"Definition gen_generic_re_{k} (resid : list Q) (Z : {tz}) (cov_re_unscaled_inv : {tm}) : res ({tv}) :=\n{ex.render(r)}.\n")
    # the closed form of the random-intercept model alone
    asg = [n for n in ast.walk(fn) if isinstance(n, ast.Assign) and _u(n.targets[0]) == "random_intercept"]
    if len(asg) != 1:
        raise Untranslatable("random_intercept is not assigned exactly once")
    ex = Exec(k=1, div_err=_Labels())
    r = ex.ev(asg[0].value, dict(residuals=Val("VecN", "residuals"), n=Val("Nat", "n"), cov_re_unscaled_inv=Val("MatKK", "cov_re_unscaled_inv", dict(k=1))))
    if r.ty != "res:Q":
        raise Untranslatable(f"random_intercept: {r.ty}")
    out += ("\n(** the closed form written for the random-intercept model *)\n"
            f"Definition gen_intercept_re (residuals : list Q) (n : nat) (cov_re_unscaled_inv : Q) : res Q :=\n{ex.render(r)}.\n")
    return out


def gen_lme_trajectory(tree) -> str:
    fn = _meth(_cls(tree, "LMEModel"), "compute_individual_trajectory")
    if _params(fn) != ["timepoints", "individual_parameters"]:
        raise Untranslatable(f"LMEModel.compute_individual_trajectory{_params(fn)}")
    arms = {}
    for slope in (False, True):
        subs = _lme_params("self", slope)
        for key in ("random_intercept", "random_slope_age"):
            subs[f"individual_parameters['{key}']"] = Val("res:Q", f"py_dict_get individual_parameters {coq_string(key)}")
        ex = Exec(statics={"self.with_random_slope_age": slope}, subscripts=subs, k=2, div_err=_Labels())
        r = ex.run(fn, dict(timepoints=Val("ListQ", "timepoints")))
        if r.ty != "VecN":
            raise Untranslatable(f"LMEModel.compute_individual_trajectory returns {r.ty}")
        arms[slope] = ex.render(r, "    ")
    return ("(** LMEModel.compute_individual_trajectory (the (1, n, 1) tensor as the list of its n values) *)\n"
            "Definition gen_lme_trajectory (with_random_slope_age : bool) (p : lme_params) (individual_parameters : list (string * Q)) "
            "(timepoints : list Q) : res (list Q) :=\n"
            f"  if with_random_slope_age then\n{arms[True]}\n  else\n{arms[False]}.\n")


# ------------------------------------------------------------------------------------------------- (d) LME fit

FIT_FEED = [   # statements that only prepare statsmodels' input (normalised source); anything else there is a broken translation
    "y = self._get_reformated(dataset, 'values')",
    "subjects_with_repeat = self._get_reformated_subjects(dataset)",
    "X = sm.add_constant(ages_norm, prepend=True, has_constant='add')",
    "lme = MixedLM(y, X, subjects_with_repeat, exog_re, missing='raise')",
    "fitted_lme = lme.fit(**self.sm_fit_parameters)",
]
FIT_KEYS = ["ages_mean", "ages_std", "fe_params", "cov_re", "cov_re_unscaled_inv", "noise_std", "bse_fe", "bse_re"]


def gen_fit(tree) -> str:
    fn = _meth(_cls(tree, "LMEFitAlgorithm"), "_run")
    body = [s for s in fn.body if not _is_doc(s)]
    out = ""
    table = None
    for k, tm in ((2, "mat2"), (1, "Q")):
        attrs = {"fitted_lme.cov_re_unscaled": Val("MatKK", f"sm_cov_re_unscaled_{k} f", dict(k=k)),
                 "fitted_lme.cov_re": Val("MatKK", "sm_cov_re f", dict(k=k)),
                 "fitted_lme.fe_params": Val("VecK", "sm_fe f", dict(k=2)),
                 "fitted_lme.scale": Val("Q", "sm_scale f"),
                 "fitted_lme.bse_fe": Val("Ignored"), "fitted_lme.bse_re": Val("Ignored"),
                 "self._get_reformated(dataset, 'timepoints')": Val("VecN", "ages")}
        ex = Exec(attrs=attrs, k=k, div_err=_Labels())
        env, seen, inv_tx, stored, fed = {}, [], None, None, []
        for s in body:
            src = _u(s)
            if isinstance(s, ast.If) and _u(s.test) == "model.dimension != len(dataset.headers)" and len(s.body) == 1 and isinstance(s.body[0], ast.Raise):
                seen.append("univariate")
            elif isinstance(s, ast.Assign) and _u(s.targets[0]) in ("ages", "(ages_mean, ages_std)", "ages_norm"):
                ex.assign(s.targets[0], ex.ev(s.value, env), env)
                seen.append(_u(s.targets[0]))
            elif src in FIT_FEED:
                fed.append(src)
            elif isinstance(s, ast.If) and _u(s.test) == "model.with_random_slope_age":
                if not (s.body and _u(s.body[0]) == "exog_re = X" and len(s.orelse) == 1 and _u(s.orelse[0]) == "exog_re = None"
                        and all(isinstance(b, ast.If) and _u(b.test) == "self.force_independent_random_effects" for b in s.body[1:])):
                    raise Untranslatable("random-effects design: " + src[:120])
                seen.append("exog_re")
            elif isinstance(s, ast.Try):
                if not (len(s.body) == 1 and isinstance(s.body[0], ast.Assign) and _u(s.body[0].targets[0]) == "cov_re_unscaled_inv"
                        and len(s.handlers) == 1 and s.handlers[0].type is not None and _u(s.handlers[0].type) == "np.linalg.LinAlgError"
                        and len(s.handlers[0].body) == 1 and isinstance(s.handlers[0].body[0], ast.Raise)
                        and isinstance(s.handlers[0].body[0].exc, ast.Call) and _u(s.handlers[0].body[0].exc.func) == "LeaspyDataInputError"
                        and not s.orelse and not s.finalbody):
                    raise Untranslatable("the inversion is not `try: cov_re_unscaled_inv = ... except np.linalg.LinAlgError: raise LeaspyDataInputError`")
                v = ex.ev(s.body[0].value, env)
                if v.ty != "res:MatKK":
                    raise Untranslatable(f"cov_re_unscaled_inv: {v.ty}")
                inv_tx = v.tx
                inv_src = _u(s.body[0].value)
                env["cov_re_unscaled_inv"] = Val("MatKK", "cov_re_unscaled_inv", dict(k=k))
                seen.append("inverse")
            elif isinstance(s, ast.Assign) and _u(s.targets[0]) == "parameters" and isinstance(s.value, ast.Dict):
                d = ex.ev(s.value, env)
                if d.x["keys"] != FIT_KEYS:
                    raise Untranslatable(f"stored keys: {d.x['keys']}")
                stored = dict(zip(d.x["keys"], d.x["values"]))
                table = [(kk, inv_src if _u(vv) == "cov_re_unscaled_inv" else
                          {"ages_mean": _u(env_src["ages_mean"]), "ages_std": _u(env_src["ages_std"])}.get(_u(vv), _u(vv)))
                         for kk, vv in zip(d.x["keys"], s.value.values)] if (env_src := _ages_sources(body)) else None
                seen.append("parameters")
            elif src == "model.load_parameters(parameters)":
                seen.append("load")
            elif src == "return (None, parameters['noise_std'])":
                seen.append("return")
            else:
                raise Untranslatable(f"LMEFitAlgorithm._run: statement not recognised: {src[:120]}")
        if seen != ["univariate", "ages", "(ages_mean, ages_std)", "ages_norm", "exog_re", "inverse", "parameters", "load", "return"] or fed != FIT_FEED:
            raise Untranslatable(f"LMEFitAlgorithm._run: steps {seen} / {fed}")
        want = dict(ages_mean="Q", ages_std="Sqrt0d", fe_params="VecK", cov_re="MatKK", cov_re_unscaled_inv="MatKK", noise_std="Sqrt0d",
                    bse_fe="Ignored", bse_re="Ignored")
        for kk, ty in want.items():
            if stored[kk].ty != ty:
                raise Untranslatable(f"stored parameter {kk}: {stored[kk].ty}, expected {ty}")
        lets = "\n".join(f"  let {n} := {t} in" for kind, n, t in ex.lines if kind == "let")
        if any(kind != "let" for kind, _, _ in ex.lines[:2]):
            raise Untranslatable("normalisation constants are partial")
        rec = (f"LmeStored {paren(stored['ages_mean'].tx)} {paren(stored['ages_std'].tx)} {paren(stored['fe_params'].tx)} "
               f"{paren(stored['cov_re'].tx)} {paren(stored['cov_re_unscaled_inv'].tx)} {paren(stored['noise_std'].tx)}")
        lets = "\n".join(f"  let {n} := {t} in" for kind, n, t in ex.lines if kind == "let" and n in ("ages", "ages_mean", "ages_std"))
        out += (f"\n(** LMEFitAlgorithm._run, what is stored ({k} random effect{'s' if k == 2 else ''}); [ages_std], [noise_std] by their squares *)\n"
                f"Definition gen_fit_store_{k} (ages : list Q) (f : sm_result {tm}) : fit_outcome {tm} :=\n{lets}\n"
                f"  match {inv_tx} with\n  | Err _ => Refused\n  | Ok cov_re_unscaled_inv => Accepted ({rec})\n  end.\n")
    out += ("\nDefinition gen_fit_table : list (string * string) :=\n  [" +
            ";\n   ".join(f"({coq_string(a)}, {coq_string(b)})" for a, b in table) + "].\n")
    return out


def _ages_sources(body):
    for s in body:
        if isinstance(s, ast.Assign) and _u(s.targets[0]) == "(ages_mean, ages_std)" and isinstance(s.value, ast.Tuple) and len(s.value.elts) == 2:
            return dict(ages_mean=s.value.elts[0], ages_std=s.value.elts[1])
    raise Untranslatable("ages_mean, ages_std")


# ------------------------------------------------------------------------------------------------- entry point

def build() -> str:
    cp = ast.parse((SRC / "algo/personalize/constant_prediction_algo.py").read_text())
    cm = ast.parse((SRC / "models/constant.py").read_text())
    lp = ast.parse((SRC / "algo/personalize/lme_personalize.py").read_text())
    lm = ast.parse((SRC / "models/lme.py").read_text())
    lf = ast.parse((SRC / "algo/fit/lme_fit.py").read_text())
    parts = [HEADER, gen_feature_values(cp), gen_constant_trajectory(cm), gen_lme_personalize(lp), gen_lme_trajectory(lm), gen_fit(lf)]
    return "\n".join(parts)


def translate(run: Run) -> bool:
    try:
        text = build()
    except (Untranslatable, KeyError, OSError, SyntaxError, IndexError, AttributeError, ValueError, AssertionError) as e:
        run.broken("translate:GenC20", f"{type(e).__name__}: {e}", kind="broken-translation")
        return False
    run.gen("GenC20", text)
    run.trusted.append("translator harness/translate/c20_bench.py (python ast -> shape-typed symbolic execution of the five benchmark functions into "
                       "compositions of the numpy-primitive meanings of Api/BenchNumpy.v; fail closed) and those primitive meanings")
    return True
