"""C11 — T1: regenerate coq/gen/GenC11.v, the CONTROL FLOW of a fit, from the current source (python `ast`, fail closed).

Starting at `BaseAlgorithm.run` (algo/base.py) the translator walks the statements a `TensorMcmcSaemAlgorithm` fit executes,
inlining the calls that only carry control flow

    run -> _initialize_seed, _run -> _initialize_algo, [loop] _iteration -> _maximization_step,
                                     output_manager.iteration (algo/fit/fit_output_manager.py)

(methods are looked up along the class bases read from the source) and produces a value `fit_prog : prog` of
coq/theories/Api/RunProg.v: sequence / iteration loop / per-variable loop / branch on a NAMED test, over NAMED events.

Every statement must be one of
  * a named event  — its normalised source text (`ast.unparse`) is in the tables below, or it is a call of a seeding function;
  * an inlined call — same, with the parameter names checked;
  * a control structure whose test is in the table of named tests;
  * "silent": only local names / the algorithm's own registers are assigned, every call is in the whitelist of functions without
    State / generator access, and (algorithm side) nothing of the logging configuration (`output_manager`, `logs`) is read.
Anything else raises `Untranslatable` -> `BROKEN translate:GenC11 (broken-translation)`; the search stages still run.

Leaf methods of the listed files are checked to be silent on registers: `_update_temperature` (temperature, temperature_inv),
`_is_burn_in`, `_display_progress_bar`, `_duration_to_str`.  What the other named events do (samplers, model methods, the
output manager's print / save / plot methods) is NOT read here: in Coq they are arbitrary event scripts, and the recorded
traces (T2) check that the observer ones are read-only.
"""
from __future__ import annotations

import ast

from harness.common import Run, SRC
from harness.translate.pysym import Untranslatable

HEADER = """(* REGENERATED on every run from $VERIF_REPO/src/leaspy by harness/translate/c11_run.py — do not edit *)
From Coq Require Import List.
Import ListNotations.
From Leaspy Require Import Api.RunProg.
"""

# class bases, as they must be written in the source (method lookup order = python's MRO for this linear hierarchy)
HIERARCHY = [
    ("algo/fit/mcmc_saem.py", "TensorMcmcSaemAlgorithm",
     ["AlgorithmWithDeviceMixin", "AlgorithmWithAnnealingMixin", "AlgorithmWithSamplersMixin", "FitAlgorithm[McmcSaemCompatibleModel, State]"]),
    ("algo/algo_with_device.py", "AlgorithmWithDeviceMixin", []),
    ("algo/algo_with_annealing.py", "AlgorithmWithAnnealingMixin", []),
    ("algo/algo_with_samplers.py", "AlgorithmWithSamplersMixin", []),
    ("algo/fit/base.py", "FitAlgorithm", ["IterativeAlgorithm[ModelType, ReturnType]"]),
    ("algo/base.py", "IterativeAlgorithm", ["BaseAlgorithm[ModelType, ReturnType]"]),
    ("algo/base.py", "BaseAlgorithm", ["ABC", "Generic[ModelType, ReturnType]"]),
]

# attributes that carry the logging configuration: the algorithm side may only TEST `self.output_manager is not None`
LOGGING_ATTRS = {"output_manager", "logs"}

ALG_EVENTS = {
    "random.seed(seed)": "ASeedPy",
    "np.random.seed(seed)": "ASeedNp",
    "torch.manual_seed(seed)": "ASeedTorch",
    "with state.auto_fork(None):\n    model.put_data_variables(state, dataset)": "AInitData",
    "model.put_individual_parameters(state, dataset)": "AInitIndiv",
    "self._initialize_samplers(state, dataset)": "AInitSamplers",
    "self._initialize_annealing()": "AInitAnnealing",
    "variables = sorted(list(state.dag.sorted_variables_by_type[PopulationLatentVariable]) + "
    "list(state.dag.sorted_variables_by_type[IndividualLatentVariable]))": "AOrder",
    "shuffle(variables)": "AShuffle",
    "self.samplers[variable].sample(state, temperature_inv=self.temperature_inv)": "ASample",
    "sufficient_statistics = model.compute_sufficient_statistics(state)": "ASuffStats",
    "model.update_parameters(state, self.sufficient_statistics, burn_in=self._is_burn_in())": "AMStep",
    "self._update_temperature()": "ATemperature",
    "model.fit_metrics = self._get_fit_metrics()": "AFitMetrics",
    "model_state = state.clone()": "AFinClone",
    "with model_state.auto_fork(None):\n    model_state.put_population_latent_variables(LatentVariableInitType.PRIOR_MODE)": "AFinPopMode",
    "model.state = model_state": "AFinReplace",
}
# a seeding call is an event wherever it stands and whatever its argument (so that Coq, not the translator, rejects a misplaced one)
SEED_CALLS = {"random.seed": "ASeedPy", "np.random.seed": "ASeedNp", "numpy.random.seed": "ASeedNp", "torch.manual_seed": "ASeedTorch"}

OBS_EVENTS = {
    "self.print_algo_statistics(algo)": "OPrintAlgo",
    "self.print_model_statistics(model)": "OPrintModel",
    "self.print_time()": "OPrintTime",
    "self.save_model_parameters_convergence(iteration, model)": "OSave",
    "self.save_plot_patient_reconstructions(iteration, model, data)": "OPlotPatients",
    "self.save_plot_convergence_model_parameters(model)": "OPlotConvergence",
}

# statement text -> (method, class it is looked up from, parameter names it must have, side of the callee)
INLINE = {
    "self._initialize_seed(self.seed)": ("_initialize_seed", "alg", ["seed"], "alg"),
    "output = self._run(model, **run_kwargs)": ("_run", "alg", ["self", "model", "dataset"], "alg"),
    "state = self._initialize_algo(model, dataset)": ("_initialize_algo", "alg", ["self", "model", "dataset"], "alg"),
    "self._iteration(model, state)": ("_iteration", "alg", ["self", "model", "state"], "alg"),
    "self._maximization_step(model, state)": ("_maximization_step", "alg", ["self", "model", "state"], "alg"),
    "self.output_manager.iteration(self, model, dataset)": ("iteration", "obs", ["self", "algo", "model", "data"], "obs"),
}

ALG_TESTS = {
    "seed is not None": "GA FSeedSet",
    "self.algo_parameters['progress_bar']": "GA FProgressBar",
    "self.random_order_variables": "GA FRandomOrder",
    "self.output_manager is not None": "GL LHasManager",
    "self.output_manager is None": "GNot (GL LHasManager)",
}
_PER = {"print": "PerPrint", "save": "PerSave", "plot": "PerPlot", "plot_patients": "PerPlotPatients"}
OBS_TESTS = {
    "hasattr(algo, 'current_iteration')": "GL LHasCurrentIteration",
    "self.path_output is None": "GL LPathNone",
    "self.path_output is not None": "GNot (GL LPathNone)",
    "iteration == 0": "GIterZero",
}
for _k, _v in _PER.items():
    OBS_TESTS[f"self.periodicity_{_k} is not None"] = f"GPerSet {_v}"
    OBS_TESTS[f"self.periodicity_{_k} is None"] = f"GNot (GPerSet {_v})"
    OBS_TESTS[f"iteration % self.periodicity_{_k} == 0"] = f"GIterDiv {_v}"

# callees (normalised text) that touch neither a State object nor a generator
PURE_CALLS = {
    "print", "any", "float", "max", "min", "int", "len", "time.time", "inspect.signature", "run_kwargs.update", "run_params.values",
    "self.algo_parameters.get", "self.family.value.title", "self._duration_to_str", "self._display_progress_bar", "self._is_burn_in",
    "self.sufficient_statistics.items", "sys.stdout.write", "sys.stdout.flush", "np.sin", "self.algo_parameters['annealing'].get",
}
# methods of the walked classes used as pure callees: their bodies are checked too (registers they may assign)
PURE_METHODS = {"_duration_to_str": set(), "_display_progress_bar": set(), "_is_burn_in": set()}
LEAF_REGISTERS = {"_update_temperature": {"temperature", "temperature_inv"}}
# registers the inlined algorithm methods may assign in silent statements
ALG_REGISTERS = {"sufficient_statistics"}

# statements that must be present (exact text) where the named tests get their values
REQUIRED = [
    ("algo/base.py", "BaseAlgorithm", "__init__", "self.seed = settings.seed"),
    ("algo/base.py", "BaseAlgorithm", "__init__", "self.output_manager = None"),
    ("algo/fit/base.py", "FitAlgorithm", "set_output_manager",
     "if output_settings is not None:\n    from .fit_output_manager import FitOutputManager\n    self.output_manager = FitOutputManager(output_settings)"),
    ("algo/algo_with_samplers.py", "AlgorithmWithSamplersMixin", "__init__",
     "self.random_order_variables: bool = self.algo_parameters.get('random_order_variables', True)"),
    ("algo/fit/fit_output_manager.py", "FitOutputManager", "__init__", "self.periodicity_print = outputs.print_periodicity"),
    ("algo/fit/fit_output_manager.py", "FitOutputManager", "__init__", "self.periodicity_save = outputs.save_periodicity"),
    ("algo/fit/fit_output_manager.py", "FitOutputManager", "__init__", "self.periodicity_plot = outputs.plot_periodicity"),
    ("algo/fit/fit_output_manager.py", "FitOutputManager", "__init__", "self.periodicity_plot_patients = outputs.plot_patient_periodicity"),
    ("algo/fit/fit_output_manager.py", "FitOutputManager", "__init__", "self.path_output = None"),
]
# attributes of the algorithm that only these statements may assign in the walked classes
GUARDED_ATTRS = {"output_manager": {"self.output_manager = None", "self.output_manager = FitOutputManager(output_settings)"},
                 "seed": {"self.seed = settings.seed"},
                 "random_order_variables": {"self.random_order_variables: bool = self.algo_parameters.get('random_order_variables', True)"},
                 "current_iteration": {"self.current_iteration: int = 0"}}

ITER_TARGET = "self.current_iteration"
ITER_RANGE = "range(1, self.algo_parameters['n_iter'] + 1)"


def norm(text_or_node) -> str:
    if isinstance(text_or_node, str):
        return ast.unparse(ast.parse(text_or_node))
    return ast.unparse(text_or_node)


def _classes(path):
    tree = ast.parse((SRC / path).read_text())
    # nothing at module level may rebind what the classes define (e.g. `TensorMcmcSaemAlgorithm._iteration = f` after the class)
    for st in tree.body:
        if isinstance(st, (ast.Import, ast.ImportFrom, ast.ClassDef, ast.FunctionDef)):
            continue
        if isinstance(st, ast.Expr) and isinstance(st.value, ast.Constant):
            continue
        if isinstance(st, ast.Assign) and all(isinstance(t, ast.Name) for t in st.targets):
            continue
        if isinstance(st, ast.AnnAssign) and isinstance(st.target, ast.Name):
            continue
        raise Untranslatable(f"{path}: module-level statement `{ast.unparse(st)[:80]}`")
    return {n.name: n for n in tree.body if isinstance(n, ast.ClassDef)}


class Translator:
    def __init__(self):
        self.alg_events = {norm(k): v for k, v in ALG_EVENTS.items()}
        self.obs_events = {norm(k): v for k, v in OBS_EVENTS.items()}
        self.inline = {norm(k): v for k, v in INLINE.items()}
        self.alg_tests = {ast.unparse(ast.parse(k, mode="eval").body): v for k, v in ALG_TESTS.items()}
        self.obs_tests = {ast.unparse(ast.parse(k, mode="eval").body): v for k, v in OBS_TESTS.items()}
        self.mro = []           # [(classname, {method: FunctionDef})]
        self.stack = []
        self.seen_events = []
        self.log = []           # provenance lines for the generated file
        self._load()

    # ------------------------------------------------------------------ loading
    def _load(self):
        for path, cname, bases in HIERARCHY:
            cls = _classes(path).get(cname)
            if cls is None:
                raise Untranslatable(f"class {cname} not found in {path}")
            got = [ast.unparse(b) for b in cls.bases]
            if got != bases:
                raise Untranslatable(f"bases of {cname} are {got}, expected {bases} (method lookup order would change)")
            if cls.keywords or cls.decorator_list:
                raise Untranslatable(f"class {cname} has a metaclass / decorator")
            self.mro.append((cname, path, cls, {f.name: f for f in cls.body if isinstance(f, ast.FunctionDef)}))
            hooks = {"__getattr__", "__getattribute__", "__setattr__", "__delattr__", "__init_subclass__", "__class_getitem__"} & set(self.mro[-1][3])
            if hooks:
                raise Untranslatable(f"class {cname} defines {sorted(hooks)} (attribute access would not mean what the translator reads)")
        om = _classes("algo/fit/fit_output_manager.py").get("FitOutputManager")
        if om is None:
            raise Untranslatable("class FitOutputManager not found")
        if om.bases or om.keywords or om.decorator_list:
            raise Untranslatable("FitOutputManager has bases / decorators")
        if {"__getattr__", "__getattribute__", "__setattr__"} & {f.name for f in om.body if isinstance(f, ast.FunctionDef)}:
            raise Untranslatable("FitOutputManager defines attribute hooks")
        self.om = {f.name: f for f in om.body if isinstance(f, ast.FunctionDef)}
        # nothing outside a method may define behaviour we rely on (e.g. `_iteration = other` in a class body)
        for cname, path, cls, meths in self.mro:
            for st in cls.body:
                if isinstance(st, (ast.FunctionDef, ast.AnnAssign)) or (isinstance(st, ast.Expr) and isinstance(st.value, ast.Constant)):
                    continue
                if isinstance(st, ast.Assign) and all(isinstance(t, ast.Name) and t.id in ("name", "family", "deterministic") for t in st.targets):
                    continue
                raise Untranslatable(f"class body of {cname}: unexpected statement `{norm(st)[:80]}`")
        for path, cname, meth, text in REQUIRED:
            cls = _classes(path).get(cname)
            fn = next((f for f in cls.body if isinstance(f, ast.FunctionDef) and f.name == meth), None) if cls else None
            if fn is None:
                raise Untranslatable(f"{cname}.{meth} not found")
            want = norm(text)
            if not any(isinstance(n, ast.stmt) and ast.unparse(n) == want for n in ast.walk(fn)):
                raise Untranslatable(f"{cname}.{meth}: statement not found: {text}")
        # the attributes the named tests read are assigned nowhere else in the walked classes
        for cname, path, cls, meths in self.mro:
            for fn in meths.values():
                for n in ast.walk(fn):
                    tgts = []
                    if isinstance(n, ast.Assign):
                        tgts = n.targets
                    elif isinstance(n, (ast.AugAssign, ast.AnnAssign)):
                        tgts = [n.target]
                    elif isinstance(n, (ast.For, ast.AsyncFor)):
                        tgts = [n.target]
                    elif isinstance(n, ast.With):
                        tgts = [i.optional_vars for i in n.items if i.optional_vars is not None]
                    elif isinstance(n, ast.Delete):
                        tgts = n.targets
                    for t in tgts:
                        for a in ast.walk(t):
                            if isinstance(a, ast.Attribute) and isinstance(a.value, ast.Name) and a.value.id == "self" and a.attr in GUARDED_ATTRS:
                                if isinstance(n, ast.For) and a.attr == "current_iteration":
                                    continue    # checked where the loop is translated
                                if ast.unparse(n) not in {norm(x) for x in GUARDED_ATTRS[a.attr]}:
                                    raise Untranslatable(f"{cname}.{fn.name} assigns self.{a.attr}: `{ast.unparse(n)[:80]}`")
                    if isinstance(n, ast.Call) and ast.unparse(n.func) in ("setattr", "delattr", "self.__dict__.update", "vars"):
                        raise Untranslatable(f"{cname}.{fn.name} uses {ast.unparse(n.func)}")
        for name, regs in {**PURE_METHODS, **LEAF_REGISTERS}.items():
            fn = self.lookup(name)
            for st in fn.body:
                if not self.silent(st, "alg", regs, in_leaf=True):
                    raise Untranslatable(f"{name}: `{norm(st)[:100]}` is not silent (registers {sorted(regs)})")

    def lookup(self, name):
        for cname, path, cls, meths in self.mro:
            if name in meths:
                fn = meths[name]
                deco = [ast.unparse(d) for d in fn.decorator_list]
                if any(d not in ("staticmethod", "abstractmethod") for d in deco):
                    raise Untranslatable(f"{cname}.{name} is decorated with {deco}")
                if "abstractmethod" in deco:
                    raise Untranslatable(f"{name} resolves to the abstract method of {cname}")
                self.log.append(f"{name} -> {cname} ({path}:{fn.lineno})")
                return fn
        raise Untranslatable(f"method {name} not found along the bases of TensorMcmcSaemAlgorithm")

    # ------------------------------------------------------------------ silent statements
    def tainted(self, node) -> bool:
        return any(isinstance(n, ast.Attribute) and n.attr in LOGGING_ATTRS for n in ast.walk(node))

    def silent(self, st, side, registers, in_leaf=False) -> bool:
        """No State / generator / observer event can come from this statement."""
        if side == "alg" and self.tainted(st):
            return False
        for n in ast.walk(st):
            if isinstance(n, (ast.While, ast.Try, ast.With, ast.AsyncWith, ast.Delete, ast.Global, ast.Nonlocal, ast.Import, ast.ImportFrom,
                              ast.Yield, ast.YieldFrom, ast.Await, ast.Lambda, ast.FunctionDef, ast.ClassDef, ast.Break, ast.Continue,
                              ast.NamedExpr, ast.Starred, ast.For)):
                return False
            if isinstance(n, (ast.Return, ast.Raise)) and not in_leaf:
                return False
            if isinstance(n, ast.Call):
                if ast.unparse(n.func) not in PURE_CALLS:
                    return False
                if any(k.arg is None for k in n.keywords):
                    return False
            tgts = []
            if isinstance(n, ast.Assign):
                tgts = n.targets
            elif isinstance(n, (ast.AugAssign, ast.AnnAssign)):
                tgts = [n.target]
            for t in tgts:
                base = t
                while isinstance(base, ast.Subscript):
                    base = base.value
                if isinstance(base, ast.Name):
                    continue
                if isinstance(base, ast.Attribute) and isinstance(base.value, ast.Name) and base.value.id == "self" and base.attr in registers \
                        and base is t:
                    continue
                return False
        return True

    # ------------------------------------------------------------------ tests
    def guard(self, test, side) -> str:
        table = self.alg_tests if side == "alg" else self.obs_tests
        s = ast.unparse(test)
        if s in table:
            return table[s]
        if isinstance(test, ast.UnaryOp) and isinstance(test.op, ast.Not):
            return f"GNot ({self.guard(test.operand, side)})"
        if isinstance(test, ast.BoolOp):
            op = "GAnd" if isinstance(test.op, ast.And) else "GOr"
            parts = [self.guard(v, side) for v in test.values]
            out = parts[-1]
            for p in reversed(parts[:-1]):
                out = f"{op} ({p}) ({out})"
            return out
        raise Untranslatable(f"unknown test on the {'algorithm' if side == 'alg' else 'observer'} side: `{s}`")

    # ------------------------------------------------------------------ statements
    def block(self, body, side, where) -> list[str]:
        out = []
        for j, st in enumerate(body):
            # early return: `if c: return` -> PIf c skip (rest)
            if isinstance(st, ast.If) and not st.orelse and len(st.body) == 1 and isinstance(st.body[0], ast.Return) and st.body[0].value is None:
                g = self.guard(st.test, side)
                rest = self.block(body[j + 1:], side, where)
                out.append(f"PIf ({g}) PSkip ({seq(rest)})")
                return out
            if isinstance(st, ast.Return):
                if j != len(body) - 1 or not (st.value is None or isinstance(st.value, ast.Name)):
                    raise Untranslatable(f"{where}: `{norm(st)}` is not a final `return <name>`")
                continue
            out += self.stmt(st, side, where)
        return out

    def stmt(self, st, side, where) -> list[str]:
        text = ast.unparse(st)
        if isinstance(st, ast.Expr) and isinstance(st.value, ast.Constant) and isinstance(st.value.value, str):
            return []
        # named events
        if side == "alg" and text in self.alg_events:
            ev = self.alg_events[text]
            if ev == "ATemperature":
                self.lookup("_update_temperature")
            self.seen_events.append(ev)
            return [f"PEv {ev}"]
        if side == "obs" and text in self.obs_events:
            self.seen_events.append(self.obs_events[text])
            return [f"PObs {self.obs_events[text]}"]
        if isinstance(st, ast.Expr) and isinstance(st.value, ast.Call) and ast.unparse(st.value.func) in SEED_CALLS:
            ev = SEED_CALLS[ast.unparse(st.value.func)]
            self.seen_events.append(ev)
            return [f"PEv {ev}"]
        # an algorithm event written on the observer side (or the converse) is still that event: Coq decides
        if side == "obs" and text in self.alg_events:
            self.seen_events.append(self.alg_events[text])
            return [f"PEv {self.alg_events[text]}"]
        # inlined calls
        if text in self.inline:
            meth, cls, params, callee_side = self.inline[text]
            if (callee_side == "obs") != (meth == "iteration"):
                raise Untranslatable("inline table inconsistent")
            if meth in self.stack:
                raise Untranslatable(f"recursive call of {meth}")
            fn = self.om.get(meth) if cls == "obs" else self.lookup(meth)
            if fn is None:
                raise Untranslatable(f"FitOutputManager.{meth} not found")
            if cls == "obs":
                if fn.decorator_list:
                    raise Untranslatable(f"FitOutputManager.{meth} is decorated")
                self.log.append(f"{meth} -> FitOutputManager (algo/fit/fit_output_manager.py:{fn.lineno})")
            a = fn.args
            got = [x.arg for x in a.args]
            if meth == "_run":
                ok = got == params and a.vararg is None and a.kwarg is not None and not a.kwonlyargs and not a.posonlyargs
            else:
                ok = got == params and a.vararg is None and a.kwarg is None and not a.kwonlyargs and not a.posonlyargs
            if not ok:
                raise Untranslatable(f"{meth}: parameters {got}, expected {params}")
            if meth == "_initialize_seed" and [ast.unparse(d) for d in fn.decorator_list] != ["staticmethod"]:
                raise Untranslatable("_initialize_seed is not a staticmethod")
            self.stack.append(meth)
            try:
                if meth == "iteration":
                    # `iteration = algo.current_iteration` must bind the local the tests use, before any of them
                    body = list(fn.body)
                    inner = self.block(body, "obs", f"FitOutputManager.{meth}")
                    self._check_iteration_alias(fn)
                    return inner
                return self.block(fn.body, callee_side, meth)
            finally:
                self.stack.pop()
        if isinstance(st, ast.If):
            # argument validation: `if <silent test>: raise ...`
            if not st.orelse and len(st.body) == 1 and isinstance(st.body[0], ast.Raise) and self.silent(ast.Expr(st.test), side, set()):
                return []
            if self.silent(st, side, ALG_REGISTERS if side == "alg" else set()):
                return []
            g = self.guard(st.test, side)
            return [f"PIf ({g}) ({seq(self.block(st.body, side, where))}) ({seq(self.block(st.orelse, side, where))})"]
        if isinstance(st, ast.For):
            if st.orelse:
                raise Untranslatable(f"{where}: loop with an else clause")
            tgt, it = ast.unparse(st.target), ast.unparse(st.iter)
            if tgt == ITER_TARGET:
                if it != ITER_RANGE or side != "alg":
                    raise Untranslatable(f"{where}: iteration loop over `{it}`")
                self._no_loop_escape(st, where)
                return [f"PIter ({seq(self.block(st.body, side, where))})"]
            if tgt == "variable" and it == "variables" and side == "alg":
                if "AOrder" not in self.seen_events:
                    raise Untranslatable(f"{where}: `variables` is not the sorted list of latent variables")
                self._no_loop_escape(st, where)
                return [f"PVars ({seq(self.block(st.body, side, where))})"]
            raise Untranslatable(f"{where}: unknown loop `for {tgt} in {it}`")
        if isinstance(st, ast.With):
            if len(st.items) == 1 and ast.unparse(st.items[0]) == "self._device_manager(model, dataset)" and side == "alg":
                return ["PEv ADeviceEnter"] + self.block(st.body, side, where) + ["PEv ADeviceExit"]
            raise Untranslatable(f"{where}: unknown `with {ast.unparse(st.items[0])}`")
        if side == "obs" and text == "iteration = algo.current_iteration":
            return []
        if isinstance(st, (ast.Assign, ast.AugAssign, ast.AnnAssign, ast.Expr, ast.Pass)) and \
                self.silent(st, side, ALG_REGISTERS if side == "alg" else set()):
            return []
        raise Untranslatable(f"{where}: statement not recognised on the {'algorithm' if side == 'alg' else 'observer'} side: `{text[:160]}`")

    def _no_loop_escape(self, loop, where):
        for n in ast.walk(loop):
            if isinstance(n, (ast.Break, ast.Continue)):
                raise Untranslatable(f"{where}: break / continue in a loop")
            if isinstance(n, ast.Return):
                raise Untranslatable(f"{where}: return inside a loop")

    def _check_iteration_alias(self, fn):
        """In FitOutputManager.iteration the local `iteration` is bound exactly once, to `algo.current_iteration`, at top level and
        before every test that mentions it."""
        binds = [n for n in ast.walk(fn) if isinstance(n, (ast.Assign, ast.AugAssign, ast.AnnAssign, ast.For, ast.NamedExpr))
                 and any(isinstance(a, ast.Name) and a.id == "iteration" and isinstance(a.ctx, ast.Store) for a in ast.walk(n))]
        if len(binds) != 1 or ast.unparse(binds[0]) != "iteration = algo.current_iteration" or binds[0] not in fn.body:
            raise Untranslatable("FitOutputManager.iteration: `iteration` is not bound once to algo.current_iteration at top level")
        at = fn.body.index(binds[0])
        for st in fn.body[:at]:
            if any(isinstance(a, ast.Name) and a.id == "iteration" for a in ast.walk(st)):
                raise Untranslatable("FitOutputManager.iteration: `iteration` used before it is bound")
        for a in ast.walk(fn):
            if isinstance(a, (ast.Assign, ast.AugAssign, ast.AnnAssign)):
                for t in (a.targets if isinstance(a, ast.Assign) else [a.target]):
                    if "current_iteration" in ast.unparse(t) or ast.unparse(t).startswith("self.periodicity") or ast.unparse(t).startswith("self.path_output"):
                        raise Untranslatable(f"FitOutputManager.iteration assigns `{ast.unparse(t)}`")

    def run(self) -> str:
        fn = self.lookup("run")
        a = fn.args
        if [x.arg for x in a.args] != ["self", "model", "dataset"] or a.kwarg is None or a.vararg is not None:
            raise Untranslatable("BaseAlgorithm.run: unexpected parameters")
        self.stack.append("run")
        prog = self.block(fn.body, "alg", "run")
        need = ["ASeedPy", "ASeedNp", "ASeedTorch", "AInitData", "ASample", "ASuffStats", "AMStep", "ATemperature", "AFinReplace"]
        missing = [e for e in need if e not in self.seen_events]
        if missing:
            raise Untranslatable(f"events never met while walking the run: {missing}")
        return seq(prog)


def seq(items: list[str]) -> str:
    if not items:
        return "PSkip"
    if len(items) == 1:
        return items[0]
    return "pseq [" + "; ".join(items) + "]"


def pretty(term: str, width: int = 110) -> str:
    """Break the one-line term at list separators (readability of the generated file only)."""
    out, depth, line = [], 0, ""
    for ch in term:
        line += ch
        if ch == "[":
            depth += 1
        elif ch == "]":
            depth -= 1
        elif ch == ";" and len(line) > 60:
            out.append(line)
            line = "  " * (depth + 1)
    out.append(line)
    return "\n".join(out)


def translate(run: Run) -> bool:
    try:
        tr = Translator()
        term = tr.run()
        prov = "\n".join(f"   {l}" for l in dict.fromkeys(tr.log))
        text = (HEADER + f"\n(* methods walked (first definition along the class bases):\n{prov} *)\n\n"
                + "Definition fit_prog : prog :=\n  " + pretty(term) + ".\n")
        run.gen("GenC11", text)
        run.extra["c11_program_events"] = len(tr.seen_events)
        from harness.translate import c11_observers
        if not c11_observers.translate(run):     # what the six observer methods do (coq/gen/GenC11Obs.v), fail closed
            return False
        run.trusted.append("translator harness/translate/c11_run.py (python ast -> structured program of Api/RunProg.v: statements matched on "
                           "their normalised source text, tests on a closed table, inlining along the class bases read from the source; "
                           "the 'silent statement' whitelist of calls without State / generator access)")
        return True
    except (Untranslatable, KeyError, OSError, SyntaxError, AttributeError) as e:
        run.broken("translate:GenC11", f"{type(e).__name__}: {e}", kind="broken-translation")
        return False
