"""Fail-closed symbolic execution of small loop-free Python methods into Gallina (T1, "logic").

The translator reads the *current* source of $VERIF_REPO with `ast`, executes a method body
symbolically (if / return / raise / assignments to locals and to `self.*` / calls to sibling
methods, which are inlined) and returns a decision tree whose leaves carry the return value, the
exception raised, the final values of the attributes written and the recorded external calls.
`emit` prints any of those as a Gallina term over Z, Q or R.

Anything the translator does not know (a loop, an unknown call, an unknown operator, a construct
whose meaning would have to be guessed) raises `Untranslatable`: the caller reports a broken tie,
it never guesses.
"""
from __future__ import annotations

import ast
from dataclasses import dataclass, field
from fractions import Fraction
from pathlib import Path


class Untranslatable(Exception):
    pass


# ----------------------------------------------------------------------------- expression trees
# ('var', name) ('const', Fraction|bool|None|str) ('bin', op, a, b) ('cmp', op, a, b) ('and', a, b) ('or', a, b)
# ('not', a) ('neg', a) ('ite', c, a, b) ('fn', name, args...) ('isnone', a) ('elem', name)

ORDER = {"bool": 0, "Z": 1, "Q": 2, "R": 3}


def const(v):
    return ("const", v)


@dataclass
class Leaf:
    kind: str                 # 'ret' | 'raise' | 'fall'
    value: object = None      # expr (ret) or exception name (raise)
    state: dict = field(default_factory=dict)
    effects: list = field(default_factory=list)


@dataclass
class Branch:
    cond: object
    then: object
    other: object


@dataclass
class Spec:
    """What the caller declares about the world of one translation."""
    types: dict                       # variable name -> 'Z' | 'Q' | 'R' | 'bool'  (free inputs)
    fixed: dict = field(default_factory=dict)      # variable name -> python constant (configuration restriction)
    methods: dict = field(default_factory=dict)    # method name -> ast.FunctionDef (inlinable siblings)
    noop_calls: tuple = ("warnings.warn",)
    effect_calls: tuple = ()          # dotted names recorded as effects
    opaque_calls: tuple = ()          # dotted names whose result is an uninterpreted value
    assume_true: tuple = ()           # source text of tests assumed true (typing tests), e.g. isinstance(...)
    truthy_numeric: bool = False
    track_div: bool = False           # record every evaluated `/`, `//`, `%` as an effect ("div", {"divisor": e, "op": op}, [])
    masked_updates: bool = False      # record `self.x[mask] op= v` as an effect ("masked-aug:x", {"mask","op","value"}, [])


def load_methods(path: Path, classname: str | None = None) -> dict:
    tree = ast.parse(path.read_text())
    out = {}
    for node in ast.walk(tree):
        if isinstance(node, ast.ClassDef) and (classname is None or node.name == classname):
            for f in node.body:
                if isinstance(f, ast.FunctionDef):
                    out[f.name] = f
    if not out:
        raise Untranslatable(f"no class {classname} in {path}")
    return out


def dotted(node) -> str | None:
    if isinstance(node, ast.Name):
        return node.id
    if isinstance(node, ast.Attribute):
        b = dotted(node.value)
        return None if b is None else b + "." + node.attr
    return None


class Exec:
    def __init__(self, spec: Spec):
        self.spec = spec
        self.used: set[str] = set()
        self._eff: list = []          # effects of the path being executed (for track_div)

    # -- paths like self.algo_parameters["annealing"]["n_iter"]  ->  annealing_n_iter
    def path(self, node) -> str | None:
        if isinstance(node, ast.Attribute) and isinstance(node.value, ast.Name) and node.value.id == "self":
            return "" if node.attr == "algo_parameters" else node.attr
        if isinstance(node, ast.Subscript):
            base = self.path(node.value)
            if base is None:
                return None
            key = node.slice
            if isinstance(key, ast.Constant) and isinstance(key.value, str):
                return (base + "_" if base else "") + key.value
            return None
        if (isinstance(node, ast.Call) and isinstance(node.func, ast.Attribute) and node.func.attr == "get"
                and 1 <= len(node.args) <= 2 and not node.keywords
                and isinstance(node.args[0], ast.Constant) and isinstance(node.args[0].value, str)):
            # d.get("key", default) on a parameter path: same name as d["key"] (the key is a declared input or `fixed`)
            base = self.path(node.func.value)
            if base is None:
                return None
            return (base + "_" if base else "") + node.args[0].value
        return None

    def var(self, name):
        if name in self.spec.fixed:
            return const(self.spec.fixed[name])
        if name not in self.spec.types:
            raise Untranslatable(f"undeclared input `{name}`")
        self.used.add(name)
        return ("var", name)

    def expr(self, node, env, state):
        E = lambda n: self.expr(n, env, state)
        if isinstance(node, ast.Constant):
            v = node.value
            if isinstance(v, bool) or v is None or isinstance(v, str):
                return const(v)
            if isinstance(v, int):
                return const(Fraction(v))
            if isinstance(v, float):
                return ("fconst", Fraction(*v.as_integer_ratio()))
            raise Untranslatable(f"constant {v!r}")
        if isinstance(node, ast.Name):
            if node.id in env:
                return env[node.id]
            raise Untranslatable(f"unknown local `{node.id}`")
        p = self.path(node)
        if p is not None and p != "":
            if p in state:
                return state[p]
            return self.var(p)
        if isinstance(node, ast.BinOp):
            ops = {ast.Add: "+", ast.Sub: "-", ast.Mult: "*", ast.Div: "/", ast.FloorDiv: "//", ast.Mod: "%", ast.Pow: "**"}
            if type(node.op) not in ops:
                raise Untranslatable(f"operator {type(node.op).__name__}")
            l, r = E(node.left), E(node.right)
            if self.spec.track_div and ops[type(node.op)] in ("/", "//", "%"):
                self._eff.append(("div", {"divisor": r, "op": const(ops[type(node.op)])}, []))
            return ("bin", ops[type(node.op)], l, r)
        if isinstance(node, ast.UnaryOp):
            if isinstance(node.op, ast.USub):
                return ("neg", E(node.operand))
            if isinstance(node.op, ast.Not):
                t = self.truth(node.operand, env, state)
                if t[0] == "const" and isinstance(t[1], bool):
                    return const(not t[1])
                return ("not", t)
            raise Untranslatable("unary op")
        if isinstance(node, ast.Compare):
            ops = {ast.LtE: "<=", ast.Lt: "<", ast.GtE: ">=", ast.Gt: ">", ast.Eq: "==", ast.NotEq: "!="}
            left = node.left
            out = None
            for op, right in zip(node.ops, node.comparators):
                if isinstance(op, (ast.Is, ast.IsNot)) and isinstance(right, ast.Constant) and right.value is None:
                    l = E(left)
                    if l == const(None):
                        c = const(True)
                    elif l[0] in ("var", "bin", "fconst", "neg", "fn") or (l[0] == "const" and l[1] is not None):
                        c = const(False)     # declared (non-optional) inputs and computed numbers are never None
                    else:
                        raise Untranslatable("`is None` on " + ast.unparse(left))
                    if isinstance(op, ast.IsNot):
                        c = const(not c[1])
                elif type(op) in ops:
                    c = ("cmp", ops[type(op)], E(left), E(right))
                else:
                    raise Untranslatable(f"comparison {type(op).__name__}")
                out = c if out is None else ("and", out, c)
                left = right
            return out
        if isinstance(node, ast.BoolOp):
            vals = []
            for j, v in enumerate(node.values):
                n_eff = len(self._eff)
                vals.append(self.truth(v, env, state))
                if j and len(self._eff) != n_eff:
                    raise Untranslatable("division evaluated under a short-circuit operator: " + ast.unparse(node))
            k = "and" if isinstance(node.op, ast.And) else "or"
            out = vals[0]
            for v in vals[1:]:
                if out[0] == "const" and isinstance(out[1], bool):
                    out = v if (out[1] == (k == "and")) else out
                elif v[0] == "const" and isinstance(v[1], bool):
                    out = out if (v[1] == (k == "and")) else v
                else:
                    out = (k, out, v)
            return out
        if isinstance(node, ast.IfExp):
            c = self.truth(node.test, env, state)
            n_eff = len(self._eff)
            a, b = E(node.body), E(node.orelse)
            if len(self._eff) != n_eff:
                raise Untranslatable("division evaluated inside a conditional expression: " + ast.unparse(node))
            return ("ite", c, a, b)
        if isinstance(node, ast.Call):
            return self.call(node, env, state)
        if isinstance(node, ast.DictComp):
            # {k: EXPR for k, v in X.items()}  ->  pointwise expression over the elements of X
            if len(node.generators) != 1 or node.generators[0].ifs:
                raise Untranslatable("dict comprehension shape")
            g = node.generators[0]
            it = g.iter
            if not (isinstance(it, ast.Call) and isinstance(it.func, ast.Attribute) and it.func.attr == "items"
                    and isinstance(g.target, ast.Tuple) and len(g.target.elts) == 2
                    and isinstance(node.key, ast.Name) and node.key.id == g.target.elts[0].id):
                raise Untranslatable("dict comprehension shape")
            kname, vname = g.target.elts[0].id, g.target.elts[1].id
            src = ("self." + self.path(it.func.value)) if self.path(it.func.value) else dotted(it.func.value)
            env2 = dict(env)
            env2[vname] = ("elem", src)
            env2["__key__"] = kname
            return ("pointwise", self.expr(node.value, env2, state))
        if (isinstance(node, ast.Subscript) and isinstance(node.value, ast.Name) and isinstance(node.slice, ast.Constant)
                and isinstance(node.slice.value, int) and isinstance(env.get(node.value.id), tuple)
                and env[node.value.id][:1] == ("tuple",)):
            elems = env[node.value.id][1]
            if not 0 <= node.slice.value < len(elems):
                raise Untranslatable("tuple index out of range: " + ast.unparse(node))
            return elems[node.slice.value]
        if isinstance(node, ast.Subscript):
            # d[k] inside a pointwise comprehension
            if isinstance(node.slice, ast.Name) and env.get("__key__") == node.slice.id:
                src = ("self." + self.path(node.value)) if self.path(node.value) else dotted(node.value)
                if src:
                    return ("elem", src)
            raise Untranslatable("subscript " + ast.unparse(node))
        raise Untranslatable("expression " + ast.unparse(node))

    def truth(self, node, env, state):
        """Python truthiness of a test expression (only booleans / comparisons / None tests accepted)."""
        src = ast.unparse(node)
        if src in self.spec.assume_true:
            return const(True)
        e = self.expr(node, env, state)
        return e

    def call(self, node, env, state):
        E = lambda n: self.expr(n, env, state)
        name = dotted(node.func)
        # dict.get("key", default) on parameter paths
        if isinstance(node.func, ast.Attribute) and node.func.attr == "get" and self.path(node.func.value) is not None:
            base = self.path(node.func.value)
            if not (node.args and isinstance(node.args[0], ast.Constant)):
                raise Untranslatable("get() shape")
            p = (base + "_" if base else "") + node.args[0].value
            if p in state:
                return state[p]
            return self.var(p)
        if name in ("int",) and len(node.args) == 1:
            return ("fn", "trunc", E(node.args[0]))
        if name in ("float",) and len(node.args) == 1:
            return E(node.args[0])
        if name in ("max", "min") and len(node.args) == 2 and not node.keywords:
            return ("fn", name, E(node.args[0]), E(node.args[1]))
        if name in ("abs",) and len(node.args) == 1:
            return ("fn", "abs", E(node.args[0]))
        if name in self.spec.opaque_calls:
            return ("opaque", name)
        if name and name.startswith("self.") and name[5:] in self.spec.methods and not node.args and not node.keywords:
            saved = self._eff
            tree = self.run(self.spec.methods[name[5:]].body, {}, state)
            self._eff = saved
            if self.spec.track_div and _has_div(tree):
                raise Untranslatable("division inside an inlined method: " + name)
            return self.tree_value(tree)
        raise Untranslatable("call " + ast.unparse(node))

    def tree_value(self, tree):
        if isinstance(tree, Leaf):
            if tree.kind != "ret":
                raise Untranslatable("inlined method does not return on every path")
            return tree.value
        return ("ite", tree.cond, self.tree_value(tree.then), self.tree_value(tree.other))

    # -- statements
    def run(self, stmts, env, state, effects=None):
        effects = list(effects or [])
        env = dict(env)
        state = dict(state)
        for i, st in enumerate(stmts):
            self._eff = effects
            if isinstance(st, ast.Expr) and isinstance(st.value, ast.Constant):
                continue  # docstring
            if isinstance(st, ast.Pass):
                continue
            if isinstance(st, ast.Return):
                return Leaf("ret", const(None) if st.value is None else self.expr(st.value, env, state), state, effects)
            if isinstance(st, ast.Raise):
                exc = st.exc.func if isinstance(st.exc, ast.Call) else st.exc
                return Leaf("raise", dotted(exc), state, effects)
            if isinstance(st, ast.If):
                c = self.truth(st.test, env, state)
                rest = stmts[i + 1:]
                if c == const(True):
                    return self.run(st.body + rest, env, state, effects)
                if c == const(False):
                    return self.run(st.orelse + rest, env, state, effects)
                return Branch(c, self.run(st.body + rest, env, state, effects), self.run(st.orelse + rest, env, state, effects))
            if isinstance(st, (ast.Assign, ast.AnnAssign)):
                targets = st.targets if isinstance(st, ast.Assign) else [st.target]
                if len(targets) != 1 or st.value is None:
                    raise Untranslatable("assignment shape")
                v = self.expr(st.value, env, state)
                self.assign(targets[0], v, env, state)
                continue
            if isinstance(st, ast.AugAssign):
                ops = {ast.Add: "+", ast.Sub: "-", ast.Mult: "*", ast.Div: "/", ast.Pow: "**", ast.FloorDiv: "//", ast.Mod: "%"}
                if type(st.op) not in ops:
                    raise Untranslatable("augmented operator")
                if (self.spec.masked_updates and isinstance(st.target, ast.Subscript) and self.path(st.target.value)
                        and isinstance(st.target.slice, ast.Name) and st.target.slice.id in env):
                    # self.x[mask] op= value  (element-wise update of the selected entries)
                    effects.append(("masked-aug:" + self.path(st.target.value),
                                    {"mask": env[st.target.slice.id], "op": const(ops[type(st.op)]),
                                     "value": self.expr(st.value, env, state)}, []))
                    continue
                cur = self.expr(st.target, env, state)
                self.assign(st.target, ("bin", ops[type(st.op)], cur, self.expr(st.value, env, state)), env, state)
                continue
            if isinstance(st, ast.Expr) and isinstance(st.value, ast.Call):
                name = dotted(st.value.func) or ast.unparse(st.value.func)
                if name in self.spec.noop_calls:
                    continue
                if name in self.spec.effect_calls:
                    kws = {k.arg: self.expr(k.value, env, state) for k in st.value.keywords}
                    effects.append((name, kws, [ast.unparse(a) for a in st.value.args]))
                    continue
                raise Untranslatable("statement call " + ast.unparse(st))
            raise Untranslatable("statement " + type(st).__name__ + ": " + ast.unparse(st)[:80])
        return Leaf("fall", None, state, effects)

    def assign(self, target, v, env, state):
        if isinstance(target, ast.Tuple):
            if not (isinstance(v, tuple) and v[:1] == ("tuple",) and len(v[1]) == len(target.elts)):
                raise Untranslatable("tuple assignment of " + ast.unparse(target))
            for t, x in zip(target.elts, v[1]):
                self.assign(t, x, env, state)
            return
        if isinstance(target, ast.Name):
            env[target.id] = v
            return
        p = self.path(target)
        if p:
            state[p] = v
            return
        raise Untranslatable("assignment target " + ast.unparse(target))


def _has_div(tree) -> bool:
    if isinstance(tree, Leaf):
        return any(e[0] == "div" for e in tree.effects)
    return _has_div(tree.then) or _has_div(tree.other)


# ----------------------------------------------------------------------------- emission


def tree_map(tree, f):
    """Turn a decision tree into one expression: f(leaf) at leaves, ite at branches."""
    if isinstance(tree, Leaf):
        return f(tree)
    a, b = tree_map(tree.then, f), tree_map(tree.other, f)
    return a if a == b else ("ite", tree.cond, a, b)


def raises(tree):
    return tree_map(tree, lambda l: const(l.kind == "raise"))


def final(tree, attr, default):
    return tree_map(tree, lambda l: l.state.get(attr, default))


def returned(tree):
    def f(l):
        if l.kind != "ret":
            raise Untranslatable("path without return")
        return l.value
    return tree_map(tree, f)


class Emit:
    """Print an expression as Gallina in the numeric domain `dom` ('Z', 'Q' or 'R')."""

    def __init__(self, types: dict, dom: str, elem_names: dict | None = None):
        self.types = types
        self.dom = dom
        self.elem = elem_names or {}

    def num(self, e) -> str:
        d = self.dom
        k = e[0]
        if k == "var":
            t = self.types[e[1]]
            if t == "bool":
                raise Untranslatable("boolean used as a number")
            if ORDER[t] > ORDER[d]:
                raise Untranslatable(f"variable {e[1]} : {t} in a {d} expression")
            if t == d:
                return e[1]
            return {("Z", "Q"): f"(inject_Z {e[1]})", ("Z", "R"): f"(IZR {e[1]})", ("Q", "R"): f"(Q2R {e[1]})"}[(t, d)]
        if k == "elem":
            return self.elem.get(e[1], e[1].replace(".", "_") + "_elem")
        if k in ("const", "fconst"):
            v = e[1]
            if isinstance(v, bool) or v is None or isinstance(v, str):
                raise Untranslatable(f"{v!r} used as a number")
            if d == "Z":
                if v.denominator != 1:
                    raise Untranslatable("non-integer constant in Z expression")
                return f"({v.numerator})%Z"
            if d == "Q":
                return f"({v.numerator} # {v.denominator})%Q"
            return f"({v.numerator})%R" if v.denominator == 1 else f"({v.numerator} / {v.denominator})%R"
        if k == "neg":
            return {"Z": "(- {})%Z", "Q": "(- {})%Q", "R": "(- {})%R"}[d].format(self.num(e[1]))
        if k == "bin":
            op, a, b = e[1], e[2], e[3]
            if op in ("+", "-", "*"):
                return f"({self.num(a)} {op} {self.num(b)})%{d}"
            if op == "/":
                if d == "Z":
                    raise Untranslatable("true division in Z expression")
                return f"({self.num(a)} / {self.num(b)})%{d}"
            if op in ("//", "%"):
                z = Emit(self.types, "Z", self.elem)
                s = f"({z.num(a)} {'/' if op == '//' else 'mod'} {z.num(b)})%Z"
                return s if d == "Z" else (f"(inject_Z {s})" if d == "Q" else f"(IZR {s})")
            if op == "**":
                if d == "R":
                    return f"(Rpower {self.num(a)} {self.num(b)})"
                raise Untranslatable("power outside R")
        if k == "fn":
            if e[1] in ("max", "min"):
                f = {"Z": "Z.%s", "Q": "Q%s", "R": "R%s"}[d] % e[1]
                return f"({f} {self.num(e[2])} {self.num(e[3])})"
            if e[1] == "trunc":
                inner = Emit(self.types, "Q", self.elem).num(e[2])
                s = f"(Qtrunc {inner})"
                return s if d == "Z" else (f"(inject_Z {s})" if d == "Q" else f"(IZR {s})")
            if e[1] == "abs":
                f = {"Z": "Z.abs", "Q": "Qabs", "R": "Rabs"}[d]
                return f"({f} {self.num(e[2])})"
        if k == "ite":
            return f"(if {self.boolean(e[1])} then {self.num(e[2])} else {self.num(e[3])})"
        if k == "pointwise":
            return self.num(e[1])
        raise Untranslatable(f"cannot print {e!r} as {d}")

    def ty(self, e) -> str:
        """smallest numeric domain of an expression"""
        k = e[0]
        if k == "var":
            return self.types[e[1]]
        if k == "const":
            return "Z"
        if k == "fconst":
            return "Q"
        if k == "elem":
            return self.dom
        if k == "neg":
            return self.ty(e[1])
        if k == "bin":
            if e[1] in ("//", "%"):
                return "Z"
            t = max(self.ty(e[2]), self.ty(e[3]), key=ORDER.get)
            if e[1] == "/" and t == "Z":
                return "Q"
            if e[1] == "**":
                return "R"
            return t
        if k == "fn":
            if e[1] == "trunc":
                return "Z"
            return max((self.ty(x) for x in e[2:]), key=ORDER.get)
        if k == "ite":
            return max(self.ty(e[2]), self.ty(e[3]), key=ORDER.get)
        if k == "pointwise":
            return self.ty(e[1])
        return "bool"

    def boolean(self, e) -> str:
        k = e[0]
        if k == "const" and isinstance(e[1], bool):
            return "true" if e[1] else "false"
        if k == "var" and self.types[e[1]] == "bool":
            return e[1]
        if k == "and":
            return f"({self.boolean(e[1])} && {self.boolean(e[2])})"
        if k == "or":
            return f"({self.boolean(e[1])} || {self.boolean(e[2])})"
        if k == "not":
            return f"(negb {self.boolean(e[1])})"
        if k == "ite":
            return f"(if {self.boolean(e[1])} then {self.boolean(e[2])} else {self.boolean(e[3])})"
        if k == "cmp":
            op, a, b = e[1], e[2], e[3]
            t = max(self.ty(a), self.ty(b), key=ORDER.get)
            if t == "bool":
                raise Untranslatable("comparison of booleans")
            if t == "R":
                raise Untranslatable("boolean comparison over R")
            em = Emit(self.types, t, self.elem)
            x, y = em.num(a), em.num(b)
            if t == "Z":
                return {"<=": f"({x} <=? {y})%Z", "<": f"({x} <? {y})%Z", ">=": f"({y} <=? {x})%Z", ">": f"({y} <? {x})%Z",
                        "==": f"({x} =? {y})%Z", "!=": f"(negb ({x} =? {y})%Z)"}[op]
            return {"<=": f"(Qle_bool {x} {y})", "<": f"(Qlt_bool {x} {y})", ">=": f"(Qle_bool {y} {x})", ">": f"(Qlt_bool {y} {x})",
                    "==": f"(Qeq_bool {x} {y})", "!=": f"(negb (Qeq_bool {x} {y}))"}[op]
        raise Untranslatable(f"cannot print {e!r} as bool")


def definition(name: str, params: list[tuple[str, str]], ret: str, body: str) -> str:
    ps = " ".join(f"({n} : {t})" for n, t in params)
    return f"Definition {name} {ps} : {ret} :=\n  {body}.\n"
