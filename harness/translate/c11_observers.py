"""C11 — T1 (observers): regenerate coq/gen/GenC11Obs.v, WHAT the six output-manager methods do, from the current source.

For each observer event of c11_run.OBS_EVENTS the method of `FitOutputManager` (algo/fit/fit_output_manager.py) and every function it
reaches are walked statement by statement (python `ast`, fail closed):

    own methods (`self._…`), `print(algo)` / `print(model)` -> every `__str__` along the algorithm's class bases, `BaseModel.__str__`,
    `_get_fit_metrics`, `_get_progress_str`, `model.compute_individual_trajectory / compute_mean_traj / compute_prior_trajectory`.

Every local name carries a PROVENANCE: a live object (`own` = the output manager, `algo`, `model`, `data`, `state` = model.state), a
`clone` of the State, a value `derived` from a live object (tensors that may share memory with the State), or `fresh`.  A statement is
  READ            attribute load in a closed table, `state[...]`, a method in the whitelist of pure readers  -> OReadState / OReadModel / OSaveState
  OWN WRITE       assignment to an attribute of the output manager, files, matplotlib, print                   -> OWriteOwn
  CLONE           `state.clone(...)`, then anything on the clone                                               -> OCloneAndRead
  anything else on a live object or a derived value (assignment, `put`, `revert`, `auto_fork`, in-place method, unknown method,
  a live object passed to an unknown function), any RNG entry point, `setattr` & co                            -> Untranslatable.
"""
from __future__ import annotations

import ast
import re

from harness.common import Run, SRC
from harness.translate.pysym import Untranslatable

HEADER = """(* REGENERATED on every run from $VERIF_REPO/src/leaspy by harness/translate/c11_observers.py — do not edit *)
From Coq Require Import List String.
Import ListNotations.
From Leaspy Require Import Api.RunProg Api.ObserverSrc.
Open Scope string_scope.
"""

OM_FILE = "algo/fit/fit_output_manager.py"
# observer event -> (method, parameter names in order)
METHODS = {
    "OPrintAlgo": ("print_algo_statistics", ["self", "algo"]),
    "OPrintModel": ("print_model_statistics", ["self", "model"]),
    "OPrintTime": ("print_time", ["self"]),
    "OSave": ("save_model_parameters_convergence", ["self", "iteration", "model"]),
    "OPlotPatients": ("save_plot_patient_reconstructions", ["self", "iteration", "model", "data"]),
    "OPlotConvergence": ("save_plot_convergence_model_parameters", ["self", "model"]),
}
ROLE_OF_PARAM = {"self": "own", "algo": "algo", "model": "model", "data": "data"}
LIVE = {"own", "algo", "model", "data", "state"}

RNG = re.compile(r"^(torch\.(manual_seed|seed|rand\w*|normal|bernoulli|multinomial|poisson|initial_seed|set_rng_state|get_rng_state|Generator|"
                 r"default_generator|cuda\.manual_seed\w*|random\.\w+|distributions\..*)|(np|numpy)\.random(\.\w+)*|random(\.\w+)*|"
                 r"shuffle|seed|randint|choice|sample|uniform|gauss|os\.urandom|secrets\.\w+|uuid\.\w+)$")
RNG_METHODS = {"sample", "rsample", "normal_", "uniform_", "random_", "bernoulli_", "exponential_", "cauchy_", "geometric_", "log_normal_",
               "manual_seed", "seed", "shuffle"}
FORBIDDEN_NAMES = {"setattr", "delattr", "vars", "exec", "eval", "globals", "locals", "__import__", "compile", "object.__setattr__"}

MODEL_ATTRS = {"name", "features", "dimension", "source_dimension", "nb_events", "individual_variables_names", "parameters", "state", "__class__"}
ALGO_ATTRS = {"current_iteration", "name", "samplers", "annealing_on", "temperature", "algorithm_device", "algo_parameters",
              "sufficient_statistics", "__class__"}
DATA_ATTRS = {"n_individuals", "indices", "timepoints"}
STATE_ATTRS = {"tracked_variables"}
STATE_READERS = {"get_tensor_value": "OReadState", "get_tensor_values": "OReadState", "is_variable_set": "OReadState", "save": "OSaveState",
                 "clone": "OCloneAndRead"}
# State methods that are named in the refusal message (everything outside STATE_READERS is refused anyway)
STATE_WRITERS = {"put", "revert", "auto_fork", "precompute_all", "__setitem__", "put_population_latent_variables",
                 "put_individual_latent_variables", "track_variables", "untrack_variables", "reset_to_root"}
DATA_READERS = {"get_times_patient", "get_values_patient"}
# model methods whose bodies are walked (class McmcSaemCompatibleModel)
MODEL_WALKED = {"compute_individual_trajectory", "compute_mean_traj", "compute_mode_traj", "compute_prior_trajectory"}
MODEL_FILE, MODEL_CLASS = "models/mcmc_saem_compatible.py", "McmcSaemCompatibleModel"
# subclasses fitted by mcmc_saem that override a walked method: every override is walked as well
MODEL_OVERRIDES = [("models/joint.py", "JointModel")]
# helpers of the model NOT walked (trusted): they may only receive values / clones, never the live State
MODEL_TRUSTED = {"_check_individual_parameters_provided", "_get_tensorized_inputs", "_put_data_timepoints"}
ALGO_WALKED = {"_get_fit_metrics", "_get_progress_str", "_is_burn_in"}
ALGO_STR_CLASSES = [("algo/fit/base.py", "FitAlgorithm"), ("algo/algo_with_samplers.py", "AlgorithmWithSamplersMixin"),
                    ("algo/algo_with_annealing.py", "AlgorithmWithAnnealingMixin"), ("algo/base.py", "IterativeAlgorithm"),
                    ("algo/base.py", "BaseAlgorithm"), ("algo/fit/mcmc_saem.py", "TensorMcmcSaemAlgorithm"),
                    ("algo/algo_with_device.py", "AlgorithmWithDeviceMixin")]
MODEL_STR = ("models/base.py", "BaseModel")

PURE_BUILTINS = {"len", "min", "max", "range", "enumerate", "list", "any", "all", "int", "float", "isinstance", "sorted", "zip", "dict", "set",
                 "tuple", "sum", "abs", "round", "hasattr", "type", "bool", "repr", "iter", "next", "reversed", "map", "filter"}
LIVE_OK_BUILTINS = {"hasattr", "len", "isinstance", "type"}       # may receive a live object
MODULES = {"np", "plt", "pd", "torch", "re", "time", "cm", "colormaps", "Path", "PdfPages", "Line2D", "LatentVariableInitType",
           "LeaspyModelInputError", "serialize_tensor", "WeightedTensor", "sys", "os", "math", "warnings"}
WRITE_OWN_CALLS = re.compile(r"^(print|plt\.\w+|.*\.(savefig|to_csv|write|close|set_title|set_xlabel|set_ylabel|plot|text|legend))$")
MUTATORS = {"append", "extend", "add", "update", "pop", "clear", "remove", "insert", "sort", "reverse", "setdefault", "popitem", "discard",
            "fill", "put", "resize", "itemset", "setflags", "copy_", "set_", "index_put", "masked_fill", "scatter", "requires_grad_"}


def _class(path, cname):
    tree = ast.parse((SRC / path).read_text())
    for n in tree.body:
        if isinstance(n, ast.ClassDef) and n.name == cname:
            return tree, n
    raise Untranslatable(f"class {cname} not found in {path}")


def _imports_rng(tree, path):
    for n in ast.walk(tree):
        if isinstance(n, ast.ImportFrom) and (n.module or "").split(".")[0] in ("random", "secrets") or \
                isinstance(n, ast.ImportFrom) and (n.module or "").startswith(("numpy.random", "torch.random")):
            raise Untranslatable(f"{path}: imports names from an RNG module (`{ast.unparse(n)}`)")


def join(*ps):
    ps = [p for p in ps if p is not None]
    for p in ps:
        if p in LIVE:
            return p
    if "derived" in ps or "clone" in ps:
        return "derived"
    if "box" in ps:
        return "box"            # a NEW container (comprehension, list(...)) whose elements are derived values
    return "fresh"


class Scan:
    def __init__(self):
        om_tree, om = _class(OM_FILE, "FitOutputManager")
        _imports_rng(om_tree, OM_FILE)
        self.om = {f.name: f for f in om.body if isinstance(f, ast.FunctionDef)}
        mtree, mcls = _class(MODEL_FILE, MODEL_CLASS)
        _imports_rng(mtree, MODEL_FILE)
        self.model = {f.name: f for f in mcls.body if isinstance(f, ast.FunctionDef)}
        self.model_over = []
        for path, cname in MODEL_OVERRIDES:
            otree, ocls = _class(path, cname)
            _imports_rng(otree, path)
            self.model_over.append((cname, {f.name: f for f in ocls.body if isinstance(f, ast.FunctionDef)}))
        self.algo_str, self.algo_m = [], {}
        for path, cname in ALGO_STR_CLASSES:
            tree, cls = _class(path, cname)
            for f in cls.body:
                if isinstance(f, ast.FunctionDef):
                    if f.name == "__str__":
                        self.algo_str.append((cname, f))
                    if f.name in ALGO_WALKED:
                        self.algo_m.setdefault(f.name, []).append((cname, f))
        _, bm = _class(*MODEL_STR)
        self.model_str = [f for f in bm.body if isinstance(f, ast.FunctionDef) and f.name == "__str__"]
        if not self.model_str or not self.algo_str:
            raise Untranslatable("__str__ of the model / algorithm not found")
        self.ops = []
        self.stack = []
        self.walked = []

    # ------------------------------------------------------------------ bookkeeping
    def emit(self, op):
        # a SET in first-occurrence order: `realises` of Api/ObserverSrc.v is order-insensitive (loops interleave the operations)
        if op not in self.ops:
            self.ops.append(op)

    def bad(self, where, node, why):
        raise Untranslatable(f"observer {self.event}: {where}: `{ast.unparse(node)[:120]}` — {why}")

    # ------------------------------------------------------------------ functions
    def walk_fn(self, fn, roles: dict, where):
        key = (where, fn.name)
        if key in self.stack:
            raise Untranslatable(f"recursive call of {where}.{fn.name}")
        if fn.decorator_list and [ast.unparse(d) for d in fn.decorator_list] not in (["staticmethod"],):
            raise Untranslatable(f"{where}.{fn.name} is decorated")
        a = fn.args
        if a.vararg or a.kwarg or a.posonlyargs:
            raise Untranslatable(f"{where}.{fn.name}: *args / **kwargs")
        self.stack.append(key)
        self.walked.append(f"{where}.{fn.name}:{fn.lineno}")
        env = {x.arg: roles.get(x.arg, "fresh") for x in a.args + a.kwonlyargs}
        ret = ["fresh"]
        try:
            self.block(fn.body, env, f"{where}.{fn.name}", ret)
        finally:
            self.stack.pop()
        return join(*[r for r in ret if r not in LIVE]) if not any(r in LIVE for r in ret) else next(r for r in ret if r in LIVE)

    def bind(self, env, name, p, where, node):
        old = env.get(name)
        if old is not None and old != p and (old in LIVE or p in LIVE or old == "clone" or p == "clone"):
            self.bad(where, node, f"local `{name}` is rebound from {old} to {p}")
        env[name] = join(old, p) if old is not None and old not in LIVE and p not in LIVE and "clone" not in (old, p) else p

    def bind_target(self, env, tgt, p, where, node):
        if isinstance(tgt, ast.Name):
            self.bind(env, tgt.id, p, where, node)
        elif isinstance(tgt, (ast.Tuple, ast.List)):
            if p in LIVE or p == "clone":
                self.bad(where, node, "a live object is unpacked")
            for t in tgt.elts:
                self.bind_target(env, t, p, where, node)
        else:
            self.store(env, tgt, where, node)

    def store(self, env, tgt, where, node):
        """Assignment to an attribute / item."""
        if not isinstance(tgt, (ast.Attribute, ast.Subscript)):
            self.bad(where, node, "assignment target not understood")
        saved = list(self.ops)
        p = self.prov(tgt.value, env, where)
        self.ops = saved                       # evaluating the container of a store is not a read of interest
        if isinstance(tgt, ast.Subscript):
            self.prov(tgt.slice, env, where)
        if p == "own":
            self.emit("OWriteOwn")
        elif p in ("fresh", "clone", "box"):
            base = tgt
            while isinstance(base, (ast.Attribute, ast.Subscript)):
                base = base.value
            if isinstance(base, ast.Name) and env.get(base.id) == "own":
                self.emit("OWriteOwn")
        elif p == "state":
            self.bad(where, node, "assignment on the model's State")
        elif p in ("model", "algo", "data"):
            self.bad(where, node, f"assignment to an attribute / item of the {p} object")
        else:
            self.bad(where, node, "in-place write into a value derived from the model / algorithm / data")

    def block(self, body, env, where, ret):
        for st in body:
            self.stmt(st, env, where, ret)

    def stmt(self, st, env, where, ret):
        if isinstance(st, ast.Expr):
            if isinstance(st.value, ast.Constant):
                return
            self.prov(st.value, env, where)
        elif isinstance(st, ast.Assign):
            p = self.prov(st.value, env, where)
            for t in st.targets:
                self.bind_target(env, t, p, where, st)
        elif isinstance(st, ast.AnnAssign):
            if st.value is not None:
                self.bind_target(env, st.target, self.prov(st.value, env, where), where, st)
        elif isinstance(st, ast.AugAssign):
            p = self.prov(st.value, env, where)
            if isinstance(st.target, ast.Name):
                old = env.get(st.target.id)
                if old is None or old in LIVE or old == "clone" or (old == "derived" and False):
                    self.bad(where, st, "augmented assignment on a live object")
                if old == "derived":
                    self.bad(where, st, "augmented assignment (possibly in place) on a value derived from the model")
                if old == "fresh" and p != "fresh":
                    old = "box"
                if p in LIVE:
                    self.bad(where, st, "a live object is accumulated")
                # the accumulated value is a NEW python object only for immutables: strings / numbers (f-strings) — `out += f"..."`
                env[st.target.id] = old
            else:
                self.store(env, st.target, where, st)
        elif isinstance(st, ast.If):
            self.prov(st.test, env, where, test=True)
            self.block(st.body, env, where, ret)
            self.block(st.orelse, env, where, ret)
        elif isinstance(st, ast.For):
            p = self.prov(st.iter, env, where)
            if p in LIVE:
                self.bad(where, st, "iteration over a live object")
            self.bind_target(env, st.target, "derived" if p != "fresh" else "fresh", where, st)
            self.block(st.body, env, where, ret)
            self.block(st.orelse, env, where, ret)
        elif isinstance(st, ast.While):
            self.prov(st.test, env, where, test=True)
            self.block(st.body, env, where, ret)
        elif isinstance(st, ast.With):
            for it in st.items:
                p = self.prov(it.context_expr, env, where)
                if p in LIVE or p == "derived":
                    self.bad(where, st, "context manager on a live object")
                if it.optional_vars is not None:
                    self.bind_target(env, it.optional_vars, p, where, st)
            self.block(st.body, env, where, ret)
        elif isinstance(st, ast.Return):
            if st.value is not None:
                ret.append(self.prov(st.value, env, where))
        elif isinstance(st, ast.Raise):
            if st.exc is not None:
                self.prov(st.exc, env, where)
        elif isinstance(st, (ast.Pass, ast.Break, ast.Continue)):
            pass
        elif isinstance(st, ast.ImportFrom) and st.module in ("utilities", "leaspy.utils.functional") and st.level <= 1:
            for a in st.names:
                if a.asname or a.name not in MODULES:
                    self.bad(where, st, "local import of an unknown name")
        else:
            self.bad(where, st, f"statement kind {type(st).__name__} not allowed in an observer")

    # ------------------------------------------------------------------ expressions
    def prov(self, e, env, where, test=False) -> str:
        if e is None or isinstance(e, ast.Constant):
            return "fresh"
        if isinstance(e, ast.Name):
            if e.id in env:
                return env[e.id]
            if e.id in MODULES or e.id in PURE_BUILTINS or e.id in ("print", "str", "super", "True", "False", "None"):
                return "fresh"
            self.bad(where, e, "unknown name")
        if isinstance(e, ast.Attribute):
            p = self.prov(e.value, env, where)
            if p == "own":
                if e.attr in self.om:
                    self.bad(where, e, "bound method of the output manager used as a value")
                return "fresh"
            if p == "model":
                if e.attr not in MODEL_ATTRS:
                    self.bad(where, e, f"attribute `{e.attr}` of the model is not in the table of plain readers")
                if e.attr == "state":
                    return "state"
                self.emit("OReadModel")
                return "derived"
            if p == "algo":
                if e.attr not in ALGO_ATTRS:
                    self.bad(where, e, f"attribute `{e.attr}` of the algorithm is not in the table of plain readers")
                self.emit("OReadModel")
                return "derived"
            if p == "data":
                if e.attr not in DATA_ATTRS:
                    self.bad(where, e, f"attribute `{e.attr}` of the dataset is not in the table of plain readers")
                self.emit("OReadModel")
                return "derived"
            if p == "state":
                if e.attr not in STATE_ATTRS:
                    self.bad(where, e, f"attribute `{e.attr}` of the State")
                self.emit('OReadState "*"')
                return "derived"
            return "fresh" if p == "clone" else p
        if isinstance(e, ast.Subscript):
            p = self.prov(e.value, env, where)
            self.prov(e.slice, env, where)
            if p == "box":
                return "derived"
            if p == "state":
                nm = e.slice.value if isinstance(e.slice, ast.Constant) and isinstance(e.slice.value, str) else "*"
                self.emit(f'OReadState "{nm}"')
                return "derived"
            if p in LIVE:
                self.bad(where, e, "item of a live object")
            return "fresh" if p == "clone" else p
        if isinstance(e, ast.Call):
            return self.call(e, env, where)
        if isinstance(e, (ast.ListComp, ast.SetComp, ast.DictComp, ast.GeneratorExp)):
            inner = dict(env)
            ps = []
            for g in e.generators:
                p = self.prov(g.iter, inner, where)
                if p in LIVE:
                    self.bad(where, e, "iteration over a live object")
                ps.append(p)
                self.bind_target(inner, g.target, "derived" if p != "fresh" else "fresh", where, e)
                for c in g.ifs:
                    ps.append(self.prov(c, inner, where, test=True))
            parts = [e.key, e.value] if isinstance(e, ast.DictComp) else [e.elt]
            els = []
            for x in parts:
                p = self.prov(x, inner, where)
                if p in LIVE or p == "clone":
                    self.bad(where, e, "a live object is stored in a container")
                els.append(p)
            if isinstance(e, ast.GeneratorExp):
                return join(*ps, *els)
            return "fresh" if all(p == "fresh" for p in els) else "box"
        if isinstance(e, (ast.Compare, ast.BoolOp, ast.UnaryOp)) :
            kids = [e.left] + e.comparators if isinstance(e, ast.Compare) else (e.values if isinstance(e, ast.BoolOp) else [e.operand])
            ps = [self.prov(k, env, where, test=test) for k in kids]
            if isinstance(e, ast.BoolOp) and not test and any(p in LIVE for p in ps):
                self.bad(where, e, "a live object flows through `and` / `or`")
            return join(*[p for p in ps if p not in LIVE])
        if isinstance(e, (ast.BinOp, ast.IfExp, ast.Tuple, ast.List, ast.Set, ast.Dict, ast.Slice, ast.JoinedStr, ast.FormattedValue, ast.Starred)):
            ps = []
            for k in ast.iter_child_nodes(e):
                if isinstance(k, ast.expr):
                    p = self.prov(k, env, where)
                    if p in LIVE and not isinstance(e, ast.FormattedValue):
                        self.bad(where, e, "a live object is stored / combined")
                    if p in ("model", "algo"):        # f"{model}" -> __str__
                        self.str_of(p, where, e)
                    elif p in LIVE:
                        self.bad(where, e, "a live object is formatted")
                    ps.append(p)
            if isinstance(e, ast.JoinedStr):
                return "fresh"          # a new immutable string: shares nothing with what was formatted
            return join(*[p for p in ps if p not in LIVE])
        self.bad(where, e, f"expression kind {type(e).__name__} not allowed in an observer")

    def str_of(self, role, where, node):
        """print(x) / str(x) / f"{x}" of the algorithm or the model: every __str__ along the bases is walked."""
        if role == "algo":
            for cname, f in self.algo_str:
                if (cname, f.name) not in [(w, n) for w, n in self.stack]:
                    self.walk_fn(f, {"self": "algo"}, cname)
        elif role == "model":
            for f in self.model_str:
                self.walk_fn(f, {"self": "model"}, MODEL_STR[1])
        else:
            self.bad(where, node, f"string conversion of the {role} object")
        self.emit("OReadModel")

    def args_of(self, c, env, where):
        ps = [self.prov(a, env, where) for a in c.args]
        for k in c.keywords:
            ps.append(self.prov(k.value, env, where))
        return ps

    def call(self, c, env, where) -> str:
        f = c.func
        full = ast.unparse(f)
        if RNG.match(full) or (isinstance(f, ast.Attribute) and f.attr in RNG_METHODS):
            self.bad(where, c, "RNG entry point")
        if full in FORBIDDEN_NAMES or (isinstance(f, ast.Name) and f.id in ("getattr",)):
            self.bad(where, c, "reflective access")
        if full == "super().__str__" or (full.startswith("super().") and full[8:] in ALGO_WALKED and not c.args and not c.keywords):
            return "fresh"       # every definition of __str__ / of the walked helpers along the bases is walked (str_of, algo_m)
        if isinstance(f, ast.Name):
            ps = self.args_of(c, env, where)
            if f.id in ("print", "str"):
                for p in ps:
                    if p in LIVE:
                        self.str_of(p, where, c)
                if f.id == "print":
                    self.emit("OWriteOwn")
                return "fresh"
            if f.id in PURE_BUILTINS:
                if any(p in LIVE for p in ps) and f.id not in LIVE_OK_BUILTINS:
                    self.bad(where, c, "a live object is passed to a builtin that may iterate / keep it")
                r = join(*[p for p in ps if p not in LIVE])
                return "box" if r != "fresh" and f.id in ("list", "sorted", "tuple", "set", "dict", "reversed") else r
            if f.id in MODULES and f.id not in env:
                if any(p in LIVE or p == "clone" for p in ps):
                    self.bad(where, c, "a live object is passed to an external function")
                if WRITE_OWN_CALLS.match(full):
                    self.emit("OWriteOwn")
                return join(*ps)
            self.bad(where, c, "call of an unknown function")
        if not isinstance(f, ast.Attribute):
            pf, ps = self.prov(f, env, where), self.args_of(c, env, where)
            if pf != "fresh" or any(p in LIVE or p == "clone" for p in ps):
                self.bad(where, c, "call of a computed function on / with a live object")
            return join(*ps)
        m = f.attr
        # receiver
        saved = list(self.ops)
        recv = self.prov(f.value, env, where)
        if recv == "own" and m in self.om:
            self.ops = saved
            fn = self.om[m]
            ps = self.args_of(c, env, where)
            if c.keywords and any(k.arg is None for k in c.keywords):
                self.bad(where, c, "**kwargs")
            names = [x.arg for x in fn.args.args][1:]
            roles = {"self": "own"}
            for n, p in list(zip(names, ps[:len(c.args)])) + [(k.arg, p) for k, p in zip(c.keywords, ps[len(c.args):])]:
                roles[n] = p
            return self.walk_fn(fn, roles, "FitOutputManager")
        ps = self.args_of(c, env, where)
        live_arg = any(p in LIVE for p in ps)
        if recv == "state":
            self.ops = saved
            if m in STATE_READERS and not live_arg:
                kind = STATE_READERS[m]
                if kind == "OReadState":
                    a0 = c.args[0] if c.args else None
                    nm = a0.value if isinstance(a0, ast.Constant) and isinstance(a0.value, str) else "*"
                    self.emit(f'OReadState "{nm}"')
                    return "derived"
                self.emit(kind)
                return "clone" if m == "clone" else "fresh"
            self.bad(where, c, f"`{m}` on the model's State is " + ("a write (put / revert / auto_fork family)" if m in STATE_WRITERS
                                                                      else "not in the whitelist of pure readers"))
        if recv == "model":
            if live_arg:
                self.bad(where, c, "a live object is passed to a model method")
            if m in MODEL_WALKED:
                if m not in self.model:
                    self.bad(where, c, f"{MODEL_CLASS}.{m} not found")
                if any(k.arg is None for k in c.keywords):
                    self.bad(where, c, "**kwargs")
                fn = self.model[m]
                names = [x.arg for x in fn.args.args][1:]
                roles = {"self": "model"}
                for n, p in list(zip(names, ps[:len(c.args)])) + [(k.arg, p) for k, p in zip(c.keywords, ps[len(c.args):])]:
                    roles[n] = p
                self.walk_fn(fn, roles, MODEL_CLASS)
                for cname, meths in self.model_over:
                    if m in meths:
                        if [x.arg for x in meths[m].args.args] != [x.arg for x in fn.args.args]:
                            self.bad(where, c, f"{cname}.{m} overrides with other parameters")
                        self.walk_fn(meths[m], roles, cname)
                return "derived"
            if m in MODEL_TRUSTED and self.stack and self.stack[-1][0] in [MODEL_CLASS] + [c for _, c in MODEL_OVERRIDES]:
                self.emit("OReadModel")
                return "derived"
            self.bad(where, c, f"model method `{m}` is not in the whitelist of pure readers")
        if recv == "algo":
            if live_arg or m not in ALGO_WALKED or m not in self.algo_m:
                self.bad(where, c, f"algorithm method `{m}` is not in the whitelist of pure readers")
            for cname, fn in self.algo_m[m]:
                self.walk_fn(fn, {"self": "algo"}, cname)
            self.emit("OReadModel")
            return "derived"
        if recv == "data":
            if live_arg or m not in DATA_READERS:
                self.bad(where, c, f"dataset method `{m}` is not in the whitelist of pure readers")
            self.emit("OReadModel")
            return "derived"
        if recv == "own":
            self.bad(where, c, f"unknown method `{m}` of the output manager")
        if live_arg:
            self.bad(where, c, "a live object is passed to a method of another object")
        if recv == "clone":
            return "fresh"
        if recv == "box":
            if m.endswith("_"):
                self.bad(where, c, "in-place tensor method on a container of values derived from the model")
            return "derived"
        if recv == "derived":
            if m.endswith("_") or m in MUTATORS:
                self.bad(where, c, "in-place method on a value derived from the model / algorithm / data")
            return "derived"
        # fresh receiver: local containers, matplotlib, pandas, paths
        if WRITE_OWN_CALLS.match(full) or m in ("savefig", "to_csv"):
            self.emit("OWriteOwn")
        return join(recv, *ps)

    # ------------------------------------------------------------------ entry
    def method(self, event):
        self.event = event
        name, params = METHODS[event]
        fn = self.om.get(name)
        if fn is None:
            raise Untranslatable(f"FitOutputManager.{name} not found")
        if [x.arg for x in fn.args.args] != params:
            raise Untranslatable(f"FitOutputManager.{name}: parameters {[x.arg for x in fn.args.args]}, expected {params}")
        self.ops, self.stack = [], []
        self.walk_fn(fn, {p: ROLE_OF_PARAM.get(p, "fresh") for p in params}, "FitOutputManager")
        return list(self.ops)


def scan_all() -> tuple[dict, list]:
    from harness.translate import c11_run
    if set(c11_run.OBS_EVENTS.values()) != set(METHODS):
        raise Untranslatable("observer events of c11_run and c11_observers differ")
    for text, ev in c11_run.OBS_EVENTS.items():
        call = ast.parse(text).body[0].value
        name, params = METHODS[ev]
        if call.func.attr != name or [ast.unparse(a) for a in call.args] != params[1:]:
            raise Untranslatable(f"{ev}: the call `{text}` does not pass {params[1:]} to {name}")
    sc = Scan()
    # `iteration` itself: nothing but the named tests, the six calls and `iteration = algo.current_iteration` (checked by c11_run)
    out = {ev: sc.method(ev) for ev in METHODS}
    return out, sc.walked


def translate(run: Run) -> bool:
    try:
        ops, walked = scan_all()
        lines = [HEADER, "(* functions walked:\n   " + "\n   ".join(dict.fromkeys(walked)) + " *)\n",
                 "Definition gen_observer_ops (o : oname) : list obs_op :=\n  match o with"]
        for ev, l in ops.items():
            lines.append(f"  | {ev} => [" + "; ".join(l) + "]")
        lines.append("  end.\n")
        run.gen("GenC11Obs", "\n".join(lines))
        run.extra["c11_observer_ops"] = {ev: len(l) for ev, l in ops.items()}
        run.extra["c11_observer_functions_walked"] = len(set(walked))
        run.trusted.append("translator harness/translate/c11_observers.py (python ast -> abstract operations of Api/ObserverSrc.v: provenance of "
                           "locals, closed tables of plain attributes / pure reader methods of model, algorithm, dataset and State; NOT walked: "
                           "State.save / clone / get_tensor_value themselves (C01), model properties (`parameters`), samplers' __str__, "
                           "`_get_tensorized_inputs`, `_put_data_timepoints` (receive values / clones only), matplotlib / pandas)")
        return True
    except (Untranslatable, KeyError, OSError, SyntaxError, AttributeError, IndexError, TypeError) as e:
        run.broken("translate:GenC11Obs", f"{type(e).__name__}: {e}", kind="broken-translation")
        return False
