"""Fail-closed python-`ast` translation of the weighted-tensor layer into coq/gen/GenC06.v (T1 for C06).

Every function body of
    src/leaspy/utils/weighted_tensor/_weighted_tensor.py  (WeightedTensor methods, _apply_operation)
    src/leaspy/utils/weighted_tensor/_utils.py            (sum helpers, _get_dim, unsqueeze_right)
    src/leaspy/models/utilities.py                        (compute_std_from_variance)
is printed as a `fundef` of the language of coq/theories/Masked/Source.v (if / assignment / assert / return / raise over
expressions whose calls are primitives).  Nothing is interpreted here: the meaning is given by `Source.exec_st` and
Masked/SourceTie.v proves that each regenerated body computes the hand-written function of Masked/Weighted.v.

Anything that is not one of the syntactic shapes listed below raises `Untranslatable` (the caller reports a broken
translation): a construct is never guessed.
"""
from __future__ import annotations

import ast
from pathlib import Path


class Untranslatable(Exception):
    pass


def _src(node) -> str:
    try:
        return ast.unparse(node)
    except Exception:  # noqa
        return type(node).__name__


def bad(node, why):
    raise Untranslatable(f"line {getattr(node, 'lineno', '?')}: {why}: `{_src(node)[:120]}`")


def q(s: str) -> str:
    return '"' + s + '"'


def call(p: str, *args: str) -> str:
    return f"XCall {p} [{'; '.join(args)}]"


def same(node, text: str) -> bool:
    """`node` is exactly the expression `text` (same AST)."""
    return ast.dump(node) == ast.dump(ast.parse(text, mode="eval").body)


ATTRS = {"value": "PValue", "weight": "PWeight", "ndim": "PNdim", "shape": "PShape"}
# sibling functions of the layer that appear as primitives (their own bodies are tied separately)
SIBLING_OF_PRIM = {"PSumDimU": "sum_dim", "PStd": "compute_std_from_variance", "PWAbs": "__abs__", "PFilled": "filled", "PValued": "valued", "PMap": "map", "PMapBoth": "map_both", "PWsum": "wsum", "PSumM": "sum",
                   "PGetDim": "_get_dim", "PWsumDim": "wsum_dim", "PView": "view"}


class Fn:
    """Translation of one FunctionDef."""

    def __init__(self, f: ast.FunctionDef, where: str, closure: tuple = ()):
        self.f, self.where = f, where
        self.closure = list(closure)       # variables of the enclosing function (bound first)
        self.class_consts = {}             # cls.<name> -> ast of the constant assigned in the class body
        self.module_consts = {}            # imported module-level constant -> python int
        self.aliases = {}                  # local name -> (prim, translated object) for `conv = x.valued`
        a = f.args
        if a.posonlyargs:
            bad(f, "positional-only parameters")
        self.params = [x.arg for x in a.args] + [x.arg for x in a.kwonlyargs]
        self.vararg = a.vararg.arg if a.vararg else None
        self.varkw = a.kwarg.arg if a.kwarg else None
        self.locals = set(self.params) | set(self.closure) | ({self.vararg} if self.vararg else set()) | ({self.varkw} if self.varkw else set())
        self.defaults = {}
        pos_defaults = a.defaults
        for x, d in zip(a.args[len(a.args) - len(pos_defaults):], pos_defaults):
            self.defaults[x.arg] = d
        for x, d in zip(a.kwonlyargs, a.kw_defaults):
            if d is not None:
                self.defaults[x.arg] = d
        self.used_prims: set[str] = set()

    # -------------------------------------------------------------- expressions
    def P(self, p: str, *args: str) -> str:
        self.used_prims.add(p)
        return call(p, *args)

    def kws(self, node: ast.Call, allowed=("dim",), skip=()) -> str:
        """The torch-sum keywords of a call: `**kws` of the function itself, or `dim=<e>` (own **kws then passed along empty)."""
        dim, star = None, False
        for k in node.keywords:
            if k.arg is None:
                if not (isinstance(k.value, ast.Name) and k.value.id == self.varkw):
                    bad(node, "**mapping that is not the function's own **kws")
                star = True
            elif k.arg in skip:
                continue
            elif k.arg in allowed:
                dim = self.x(k.value)
            else:
                bad(node, f"unknown keyword {k.arg}")
        if dim is not None:
            return self.P("PKwsDim", dim)
        if star:
            return f"XVar {q(self.varkw)}"
        bad(node, "sum without dim= nor **kws")

    def kw(self, node: ast.Call, name: str, default: str | None = None) -> str:
        for k in node.keywords:
            if k.arg == name:
                return self.x(k.value)
        if default is None:
            bad(node, f"keyword {name} expected")
        return default

    def only_kw(self, node: ast.Call, names):
        for k in node.keywords:
            if k.arg is None:
                if not (isinstance(k.value, ast.Name) and k.value.id == self.varkw):
                    bad(node, "**mapping that is not the function's own **kws")
            elif k.arg not in names:
                bad(node, f"unexpected keyword {k.arg}")

    def x(self, n) -> str:
        if isinstance(n, ast.Name):
            if n.id in self.locals:
                return f"XVar {q(n.id)}"
            if n.id in self.module_consts:
                return f"XInt ({self.module_consts[n.id]})%Z"
            bad(n, "name that is not a parameter or a local")
        if isinstance(n, ast.Constant):
            if n.value is None:
                return "XNone"
            if isinstance(n.value, bool):
                return f"XBool {'true' if n.value else 'false'}"
            if isinstance(n.value, int):
                return f"XInt ({n.value})%Z"
            if isinstance(n.value, str):
                if '"' in n.value or "\\" in n.value:
                    bad(n, "string constant")
                return f"XStr {q(n.value)}"
            if isinstance(n.value, float):
                from fractions import Fraction
                fr = Fraction(repr(n.value))         # the decimal literal as written (exact)
                return f"XQ ({fr.numerator} # {fr.denominator})%Q"
            bad(n, "constant")
        if isinstance(n, ast.UnaryOp) and isinstance(n.op, ast.USub) and isinstance(n.operand, ast.Constant) \
                and isinstance(n.operand.value, int) and not isinstance(n.operand.value, bool):
            return f"XInt ({-n.operand.value})%Z"
        if isinstance(n, ast.Attribute):
            if isinstance(n.value, ast.Name) and n.value.id == "cls" and "cls" in self.locals:
                if n.attr in self.class_consts:
                    return self.x(self.class_consts[n.attr])
                bad(n, "class attribute that is not a constant of the class body")
            if n.attr in ATTRS:
                return self.P(ATTRS[n.attr], self.x(n.value))
            bad(n, "attribute")
        if isinstance(n, ast.IfExp):
            return f"XIte ({self.x(n.test)}) ({self.x(n.body)}) ({self.x(n.orelse)})"
        if isinstance(n, ast.BoolOp):
            p = "PAnd" if isinstance(n.op, ast.And) else "POr"
            out = self.x(n.values[0])
            for v in n.values[1:]:
                out = self.P(p, out, self.x(v))
            return out
        if isinstance(n, ast.UnaryOp) and isinstance(n.op, ast.Not):
            return self.P("PNot", self.x(n.operand))
        if isinstance(n, ast.Compare):
            if len(n.ops) != 1:
                bad(n, "chained comparison")
            op, l, r = n.ops[0], n.left, n.comparators[0]
            none = isinstance(r, ast.Constant) and r.value is None
            if isinstance(op, ast.Is) and none:
                return self.P("PIsNone", self.x(l))
            if isinstance(op, ast.IsNot) and none:
                return self.P("PIsNotNone", self.x(l))
            if isinstance(op, ast.Eq):
                return self.P("PEq", self.x(l), self.x(r))
            if isinstance(op, ast.NotEq):
                return self.P("PNe", self.x(l), self.x(r))
            if isinstance(op, ast.GtE):
                return self.P("PGeInt", self.x(l), self.x(r))
            if isinstance(op, ast.Lt):
                return self.P("PLt", self.x(l), self.x(r))
            bad(n, "comparison operator")
        if isinstance(n, ast.BinOp):
            if isinstance(n.op, ast.Mult):
                return self.P("PMul", self.x(n.left), self.x(n.right))
            if isinstance(n.op, ast.Pow):
                return self.P("PPow", self.x(n.left), self.x(n.right))
            if isinstance(n.op, ast.Div):
                return self.P("PDiv", self.x(n.left), self.x(n.right))
            if (isinstance(n.op, ast.Add) and isinstance(n.left, ast.Attribute) and n.left.attr == "shape"
                    and isinstance(n.right, ast.BinOp) and isinstance(n.right.op, ast.Mult) and same(n.right.left, "(1,)")):
                return self.P("PRightShape", self.x(n.left), self.x(n.right.right))
            if isinstance(n.op, ast.Add):
                return self.P("PAdd", self.x(n.left), self.x(n.right))
            bad(n, "binary operator")
        if isinstance(n, ast.Tuple):
            if len(n.elts) == 0:
                return self.P("PEmptyDims")
            if len(n.elts) == 2:
                return self.P("PTuple", self.x(n.elts[0]), self.x(n.elts[1]))
            bad(n, "tuple")
        if isinstance(n, ast.Set) and len(n.elts) == 1:
            return self.P("PSingleton", self.x(n.elts[0]))
        if isinstance(n, ast.Subscript):
            if isinstance(n.slice, ast.Constant) and isinstance(n.slice.value, str):
                return self.P("PGetItem", self.x(n.value), self.x(n.slice))
            if isinstance(n.slice, ast.Constant) and n.slice.value in (0, 1) and not isinstance(n.slice.value, bool):
                return self.P(f"PItem{n.slice.value}", self.x(n.value))
            bad(n, "subscript")
        if isinstance(n, ast.SetComp):
            # {i if i >= 0 else ndim + i for i in but_dim}
            if len(n.generators) == 1:
                g = n.generators[0]
                if isinstance(g.target, ast.Name) and isinstance(g.iter, ast.Name) and not g.ifs and not g.is_async:
                    i = g.target.id
                    e = n.elt
                    if (isinstance(e, ast.IfExp) and same(e.test, f"{i} >= 0") and same(e.body, i) and isinstance(e.orelse, ast.BinOp)
                            and isinstance(e.orelse.op, ast.Add) and isinstance(e.orelse.left, ast.Name) and same(e.orelse.right, i)
                            and e.orelse.left.id != i):
                        return self.P("PWrapNeg", self.x(e.orelse.left), self.x(g.iter))
            bad(n, "set comprehension")
        if isinstance(n, ast.Call):
            return self.call(n)
        bad(n, "expression")

    def gen_over(self, g: ast.GeneratorExp):
        if len(g.generators) != 1:
            bad(g, "generator")
        c = g.generators[0]
        if not isinstance(c.target, ast.Name) or c.is_async:
            bad(g, "generator target")
        return c.target.id, c

    def call(self, n: ast.Call) -> str:
        f = n.func
        # ---- builtins / torch / constructors
        if isinstance(f, ast.Name):
            name = f.id
            if name in self.aliases and len(n.args) == 1 and not n.keywords:
                p, obj = self.aliases[name]
                return self.P(p, obj, self.x(n.args[0]))
            if name == "abs" and len(n.args) == 1 and not n.keywords:
                return self.P("PAbs", self.x(n.args[0]))
            if name == "isinstance" and len(n.args) == 2 and not n.keywords:
                t = n.args[1]
                if same(t, "(tuple, list, set, frozenset)"):
                    return self.P("PIsCollection", self.x(n.args[0]))
                if same(t, "WeightedTensor"):
                    return self.P("PIsWeighted", self.x(n.args[0]))
                if same(t, "torch.Tensor"):
                    return self.P("PIsTensor", self.x(n.args[0]))
                if same(t, "int"):
                    return self.P("PIsInt", self.x(n.args[0]))
                bad(n, "isinstance class")
            if name == "getattr" and len(n.args) == 2 and not n.keywords and same(n.args[0], "operator"):
                return self.P("PGetOperator", self.x(n.args[1]))
            if name == "WeightedTensor" and not n.keywords and len(n.args) in (1, 2):
                return self.P("PMk", *[self.x(a) for a in n.args])
            if name == "all" and len(n.args) == 1 and isinstance(n.args[0], ast.GeneratorExp) and not n.keywords:
                i, c = self.gen_over(n.args[0])
                if same(n.args[0].elt, f"{i} >= 0") and not c.ifs and isinstance(c.iter, ast.Name):
                    return self.P("PAllNonneg", self.x(c.iter))
                bad(n, "all(...)")
            if name == "tuple" and len(n.args) == 1 and isinstance(n.args[0], ast.GeneratorExp) and not n.keywords:
                i, c = self.gen_over(n.args[0])
                if (same(n.args[0].elt, i) and isinstance(c.iter, ast.Call) and isinstance(c.iter.func, ast.Name) and c.iter.func.id == "range"
                        and len(c.iter.args) == 1 and not c.iter.keywords and len(c.ifs) == 1 and isinstance(c.ifs[0], ast.Compare)
                        and len(c.ifs[0].ops) == 1 and isinstance(c.ifs[0].ops[0], ast.NotIn) and same(c.ifs[0].left, i)
                        and isinstance(c.ifs[0].comparators[0], ast.Name)):
                    return self.P("PComplement", self.x(c.iter.args[0]), self.x(c.ifs[0].comparators[0]))
                bad(n, "tuple(...)")
            if name in self.locals:
                # operation(x, y)  /  func(x, *args, **kws)
                args = []
                for a in n.args:
                    if isinstance(a, ast.Starred):
                        if not (isinstance(a.value, ast.Name) and a.value.id == self.vararg):
                            bad(n, "*sequence that is not the function's own *args")
                    else:
                        args.append(self.x(a))
                self.only_kw(n, ())
                return self.P("PApply", f"XVar {q(name)}", *args)
            # sibling functions of _utils.py
            if name == "_get_dim" and len(n.args) == 1:
                self.only_kw(n, ("dim", "but_dim"))
                return self.P("PGetDim", self.x(n.args[0]), self.kw(n, "dim", "XNone"), self.kw(n, "but_dim", "XNone"))
            if name == "wsum_dim" and len(n.args) == 1:
                self.only_kw(n, ("fill_value", "dim", "but_dim"))
                return self.P("PWsumDim", self.x(n.args[0]), self.kw(n, "fill_value", "XInt (0)%Z"), self.kw(n, "dim", "XNone"),
                              self.kw(n, "but_dim", "XNone"))
            if name == "sum_dim" and len(n.args) == 1:
                self.only_kw(n, ("fill_value", "dim", "but_dim"))
                return self.P("PSumDimU", self.x(n.args[0]), self.kw(n, "fill_value", "XInt (0)%Z"), self.kw(n, "dim", "XNone"),
                              self.kw(n, "but_dim", "XNone"))
            if name == "compute_std_from_variance" and len(n.args) == 1:
                self.only_kw(n, ("varname", "tol"))
                self.kw(n, "varname")
                return self.P("PStd", self.x(n.args[0]), self.kw(n, "tol"))
            bad(n, "call of an unknown function")
        if (isinstance(f, ast.Call) and isinstance(f.func, ast.Name) and f.func.id == "type" and len(f.args) == 1 and not f.keywords
                and isinstance(f.args[0], ast.Name) and len(n.args) == 1 and not n.keywords and isinstance(n.args[0], ast.Call)
                and isinstance(n.args[0].func, ast.Name) and n.args[0].func.id == "map" and len(n.args[0].args) == 2
                and isinstance(n.args[0].args[0], ast.Name) and n.args[0].args[0].id in self.aliases
                and same(n.args[0].args[1], f.args[0].id)):
            return self.P("PMapCollection", self.x(f.args[0]))      # type(r)(map(conv, r)): a collection of results, outside the model
        if isinstance(f, ast.Call) and same(f, "type(self)") and "self" in self.locals and not n.keywords and len(n.args) in (1, 2):
            return self.P("PMk", *[self.x(a) for a in n.args])
        if isinstance(f, ast.Attribute):
            if same(f, "torch.equal") and len(n.args) == 2 and not n.keywords:
                return self.P("PTorchEqual", self.x(n.args[0]), self.x(n.args[1]))
            if same(f, "torch.ones_like") and len(n.args) == 1 and len(n.keywords) == 1 and n.keywords[0].arg == "dtype" \
                    and same(n.keywords[0].value, "torch.bool"):
                return self.P("POnesLike", self.x(n.args[0]))
            if same(f, "torch.tensor") and len(n.args) == 1 and not n.keywords:
                return self.P("PTorchTensor", self.x(n.args[0]))
            m, obj = f.attr, f.value
            if isinstance(obj, ast.Name) and obj.id in ("torch", "operator"):
                bad(n, "torch function")
            o = self.x(obj)
            na, nk = len(n.args), len(n.keywords)
            if m == "__abs__" and nk == 0 and na == 0:
                return self.P("PWAbs", o)
            if m == "filled" and nk == 0 and na <= 1:
                return self.P("PFilled", o, self.x(n.args[0]) if na else "XNone")
            if m == "valued" and nk == 0 and na == 1:
                return self.P("PValued", o, self.x(n.args[0]))
            if m == "expand" and nk == 0 and na == 1:
                return self.P("PExpand", o, self.x(n.args[0]))
            if m == "clone" and nk == 0 and na == 0:
                return self.P("PClone", o)
            if m == "masked_fill" and nk == 0 and na == 2:
                return self.P("PMaskedFill", o, self.x(n.args[0]), self.x(n.args[1]))
            if m == "float" and nk == 0 and na == 0:
                return self.P("PFloat", o)
            if m == "any" and nk == 0 and na == 0:
                return self.P("PAny", o)
            if m == "sqrt" and nk == 0 and na == 0:
                return self.P("PSqrt", o)
            if m == "view" and nk == 0 and na == 1:
                return self.P("PView", o, self.x(n.args[0]))
            if m == "sum" and na == 0:
                if any(k.arg == "fill_value" for k in n.keywords):
                    return self.P("PSumM", o, self.kw(n, "fill_value"), self.kws(n, skip=("fill_value",)))
                return self.P("PSum", o, self.kws(n))
            if m == "wsum" and na == 0:
                return self.P("PWsum", o, self.kw(n, "fill_value", "XInt (0)%Z"), self.kws(n, skip=("fill_value",)))
            if m == "map" and na == 1 and same(n.args[0], "torch.index_put"):
                self.only_kw(n, ("indices", "values", "accumulate", "fill_value"))
                fn = self.P("PIndexPutFn", self.kw(n, "indices"), self.kw(n, "values"), self.kw(n, "accumulate", "XBool false"))
                return self.P("PMap", o, fn, self.kw(n, "fill_value", "XNone"))
            if m == "map_both" and na == 2 and nk == 0 and isinstance(n.args[1], ast.Starred) and isinstance(n.args[1].value, ast.Name) \
                    and n.args[1].value.id == self.vararg:
                shape = f"XVar {q(self.vararg)}"
                if same(n.args[0], "torch.Tensor.view"):
                    return self.P("PMapBoth", o, self.P("PViewFn", shape))
                if same(n.args[0], "torch.Tensor.expand"):
                    return self.P("PMapBoth", o, self.P("PExpandFn", shape))
                bad(n, "map_both of an unknown function")
            bad(n, "method call")
        bad(n, "call")

    # -------------------------------------------------------------- statements
    def block(self, stmts: list, rest: list) -> str:
        """`stmts` followed by `rest` (continuation), as one `st` term."""
        if not stmts:
            if not rest:
                raise Untranslatable(f"{self.where}: a path reaches the end of the function without return / raise")
            return self.block(rest[0], rest[1:])
        s, tail = stmts[0], stmts[1:]
        if isinstance(s, ast.Expr) and isinstance(s.value, ast.Constant) and isinstance(s.value.value, str):
            return self.block(tail, rest)          # docstring
        if isinstance(s, ast.Assign):
            if len(s.targets) != 1 or not isinstance(s.targets[0], ast.Name):
                bad(s, "assignment target")
            name = s.targets[0].id
            if isinstance(s.value, ast.Attribute) and s.value.attr == "valued":
                # conv = x.valued : a bound method, only ever CALLED below (any other use of the name is untranslatable)
                if name in self.locals or name in self.aliases:
                    bad(s, "alias of a bound method that shadows a name")
                self.aliases[name] = ("PValued", self.x(s.value.value))
                try:
                    return self.block(tail, rest)
                finally:
                    del self.aliases[name]
            if name in self.aliases:
                bad(s, "assignment to the alias of a bound method")
            e = self.x(s.value)
            saved = set(self.locals)
            self.locals.add(name)
            k = self.block(tail, rest)
            self.locals = saved | {name} if False else self.locals  # names stay bound on this path only (terms are closed per path)
            self.locals = saved
            return f"SLet {q(name)} ({e})\n  ({k})"
        if isinstance(s, ast.If):
            c = self.x(s.test)
            saved = set(self.locals)
            t = self.block(s.body, [tail] + rest)
            self.locals = set(saved)
            e = self.block(s.orelse, [tail] + rest)
            self.locals = saved
            return f"SIf ({c})\n  ({t})\n  ({e})"
        if isinstance(s, ast.Assert):
            c = self.x(s.test)
            return f"SAssert ({c})\n  ({self.block(tail, rest)})"
        if isinstance(s, ast.Return):
            if s.value is None:
                bad(s, "bare return")
            return f"SRet ({self.x(s.value)})"
        if isinstance(s, ast.Raise):
            exc = s.exc
            if isinstance(exc, ast.Call):
                exc = exc.func
            if not isinstance(exc, ast.Name) or s.cause is not None:
                bad(s, "raise")
            return f"SRaise {q(exc.id)}"
        bad(s, "statement")

    def fundef(self) -> str:
        names = self.closure + list(self.params) + ([self.vararg] if self.vararg else []) + ([self.varkw] if self.varkw else [])
        body = self.block(self.f.body, [])
        return f"mkF [{'; '.join(q(p) for p in names)}]\n  ({body})"

    def signature(self) -> str:
        """the python signature, names only: positional-or-keyword names, `*args` (or a bare `*` before keyword-only names), `**kws`"""
        a = self.f.args
        items = [x.arg for x in a.args]
        if a.vararg:
            items.append("*" + a.vararg.arg)
        elif a.kwonlyargs:
            items.append("*")
        items += [x.arg for x in a.kwonlyargs]
        if a.kwarg:
            items.append("**" + a.kwarg.arg)
        return "[" + "; ".join(q(i) for i in items) + "]"

    def default_terms(self) -> str:
        items = []
        for name, d in self.defaults.items():
            if isinstance(d, ast.Constant) and isinstance(d.value, float):
                from fractions import Fraction
                fr = Fraction(repr(d.value))         # the decimal literal as written (exact)
                items.append(f"({q(name)}, DQ ({fr.numerator} # {fr.denominator})%Q)")
            elif isinstance(d, ast.Constant) and d.value is None:
                items.append(f"({q(name)}, DNone)")
            elif isinstance(d, ast.Constant) and isinstance(d.value, bool):
                items.append(f"({q(name)}, DBool {'true' if d.value else 'false'})")
            elif isinstance(d, ast.Constant) and isinstance(d.value, int):
                items.append(f"({q(name)}, DInt ({d.value})%Z)")
            else:
                bad(d, f"default value of {name}")
        return "[" + "; ".join(items) + "]"


# (coq name, file (relative to src/leaspy), class or None, function name)
TARGETS = [
    ("apply_operation", "utils/weighted_tensor/_weighted_tensor.py", None, "_apply_operation"),
    ("weighted_value", "utils/weighted_tensor/_weighted_tensor.py", "WeightedTensor", "weighted_value"),
    ("filled", "utils/weighted_tensor/_weighted_tensor.py", "WeightedTensor", "filled"),
    ("valued", "utils/weighted_tensor/_weighted_tensor.py", "WeightedTensor", "valued"),
    ("map", "utils/weighted_tensor/_weighted_tensor.py", "WeightedTensor", "map"),
    ("map_both", "utils/weighted_tensor/_weighted_tensor.py", "WeightedTensor", "map_both"),
    ("index_put", "utils/weighted_tensor/_weighted_tensor.py", "WeightedTensor", "index_put"),
    ("wsum", "utils/weighted_tensor/_weighted_tensor.py", "WeightedTensor", "wsum"),
    ("sum", "utils/weighted_tensor/_weighted_tensor.py", "WeightedTensor", "sum"),
    ("view", "utils/weighted_tensor/_weighted_tensor.py", "WeightedTensor", "view"),
    ("expand", "utils/weighted_tensor/_weighted_tensor.py", "WeightedTensor", "expand"),
    ("get_filled_value_and_weight", "utils/weighted_tensor/_weighted_tensor.py", "WeightedTensor", "get_filled_value_and_weight"),
    ("neg", "utils/weighted_tensor/_weighted_tensor.py", "WeightedTensor", "__neg__"),
    ("abs_dunder", "utils/weighted_tensor/_weighted_tensor.py", "WeightedTensor", "__abs__"),
    ("abs", "utils/weighted_tensor/_weighted_tensor.py", "WeightedTensor", "abs"),
    ("pow", "utils/weighted_tensor/_weighted_tensor.py", "WeightedTensor", "__pow__"),
    ("get_dim", "utils/weighted_tensor/_utils.py", None, "_get_dim"),
    ("sum_dim", "utils/weighted_tensor/_utils.py", None, "sum_dim"),
    ("wsum_dim", "utils/weighted_tensor/_utils.py", None, "wsum_dim"),
    ("wsum_dim_return_weighted_sum_only", "utils/weighted_tensor/_utils.py", None, "wsum_dim_return_weighted_sum_only"),
    ("wsum_dim_return_sum_of_weights_only", "utils/weighted_tensor/_utils.py", None, "wsum_dim_return_sum_of_weights_only"),
    ("unsqueeze_right", "utils/weighted_tensor/_utils.py", None, "unsqueeze_right"),
    ("compute_std_from_variance", "models/utilities.py", None, "compute_std_from_variance"),
    ("scalar_noise_std_update", "models/obs_models/_gaussian.py", "FullGaussianObservationModel", "scalar_noise_std_update"),
    ("diagonal_noise_std_update", "models/obs_models/_gaussian.py", "FullGaussianObservationModel", "diagonal_noise_std_update"),
]
# names these functions may read from their module: (module file of the definition, name) — resolved to an integer constant
MODULE_CONSTS = {"models/obs_models/_gaussian.py": {"LVL_FT": "variables/specs.py"}}
# the dunder methods must be the plain dispatch `_apply_operation(self, other, "<op>"[, reverse=True])`
DUNDERS = {"__add__": ("add", False), "__radd__": ("add", True), "__sub__": ("sub", False), "__rsub__": ("sub", True),
           "__mul__": ("mul", False), "__rmul__": ("mul", True), "__truediv__": ("truediv", False), "__rtruediv__": ("truediv", True),
           "__lt__": ("lt", False), "__le__": ("le", False), "__eq__": ("eq", False), "__ne__": ("ne", False), "__gt__": ("gt", False),
           "__ge__": ("ge", False)}
DECORATORS = {"weighted_value": ["property"], "get_filled_value_and_weight": ["staticmethod"],
              "scalar_noise_std_update": ["classmethod"], "diagonal_noise_std_update": ["classmethod"]}


def int_constant(tree: ast.Module, name: str) -> int:
    """the module-level `name = <int literal>` (exactly one assignment)"""
    vals = []
    for n in tree.body:
        if isinstance(n, ast.Assign) and len(n.targets) == 1 and isinstance(n.targets[0], ast.Name) and n.targets[0].id == name:
            vals.append(n.value)
        elif isinstance(n, (ast.AugAssign, ast.AnnAssign)) and isinstance(getattr(n, "target", None), ast.Name) and n.target.id == name:
            raise Untranslatable(f"{name}: not a plain constant")
    if len(vals) != 1:
        raise Untranslatable(f"{name}: {len(vals)} module-level assignments")
    try:
        v = ast.literal_eval(vals[0])
    except Exception:  # noqa
        raise Untranslatable(f"{name}: not a literal")
    if not isinstance(v, int) or isinstance(v, bool):
        raise Untranslatable(f"{name}: not an integer")
    return v


def imported_from(tree: ast.Module, name: str) -> str | None:
    """the module a name is imported from (`from <module> import name`), None when it is not imported that way"""
    for n in tree.body:
        if isinstance(n, ast.ImportFrom):
            for a in n.names:
                if (a.asname or a.name) == name:
                    return None if a.asname not in (None, name) else f"{'.' * n.level}{n.module}"
    return None


def class_constants(tree: ast.Module, cls: str) -> dict:
    cs = [n for n in tree.body if isinstance(n, ast.ClassDef) and n.name == cls]
    out, seen = {}, {}
    for n in cs[0].body if len(cs) == 1 else []:
        if isinstance(n, ast.Assign) and len(n.targets) == 1 and isinstance(n.targets[0], ast.Name):
            seen[n.targets[0].id] = seen.get(n.targets[0].id, 0) + 1
            if isinstance(n.value, ast.Constant) and isinstance(n.value.value, (int, float)) and not isinstance(n.value.value, bool):
                out[n.targets[0].id] = n.value
    return {k: v for k, v in out.items() if seen[k] == 1}


def find(tree: ast.Module, cls: str | None, name: str) -> ast.FunctionDef:
    body = tree.body
    if cls is not None:
        cs = [n for n in body if isinstance(n, ast.ClassDef) and n.name == cls]
        if len(cs) != 1:
            raise Untranslatable(f"class {cls}: {len(cs)} definitions")
        body = cs[0].body
    fs = [n for n in body if isinstance(n, ast.FunctionDef) and n.name == name]
    if len(fs) != 1:
        raise Untranslatable(f"{cls or 'module'}.{name}: {len(fs)} definitions")
    return fs[0]


def translate_text(src_root: Path) -> tuple[str, dict]:
    """-> (text of GenC06.v, info)."""
    trees = {}
    out = ["(* GENERATED by harness/translate/c06_weighted.py from the current source — do not edit, never committed. *)",
           "From Coq Require Import List ZArith QArith String.",
           "From Leaspy Require Import Base.Atoms Masked.Weighted Masked.Source.",
           "Import ListNotations.", "Local Open Scope string_scope.", ""]
    info = {"functions": [], "calls": {}}
    graph = {}
    sigs = []
    for coq, rel, cls, name in TARGETS:
        p = src_root / rel
        if rel not in trees:
            trees[rel] = ast.parse(p.read_text())
        f = find(trees[rel], cls, name)
        decs = [_src(d) for d in f.decorator_list]
        if decs != DECORATORS.get(name, []):
            raise Untranslatable(f"{name}: decorators {decs}")
        fn = Fn(f, f"{rel}:{name}")
        if cls is not None and "classmethod" in decs:
            fn.class_consts = class_constants(trees[rel], cls)
        for cname, crel in MODULE_CONSTS.get(rel, {}).items():
            mod = imported_from(trees[rel], cname)
            if mod != "leaspy." + crel[:-3].replace("/", "."):
                raise Untranslatable(f"{rel}: {cname} is not imported from {crel} (but from {mod})")
            if crel not in trees:
                trees[crel] = ast.parse((src_root / crel).read_text())
            fn.module_consts[cname] = int_constant(trees[crel], cname)
        out.append(f"(* {rel} : {(cls + '.') if cls else ''}{name}, line {f.lineno} *)")
        out.append(f"Definition src_{coq} : fundef :=\n  {fn.fundef()}.")
        out.append(f"Definition defaults_{coq} : list (string * default) := {fn.default_terms()}.")
        sigs.append(f"({q(coq)}, {fn.signature()})")
        out.append("")
        graph[name] = sorted({SIBLING_OF_PRIM[p] for p in fn.used_prims if p in SIBLING_OF_PRIM})
        info["functions"].append(f"{rel}:{name}")
    # _factory.py: factory_weighted_tensor_unary_operator(f, *, fill_value=None) must be `def f_compatible(x, *args, **kws): ...; return f_compatible`
    rel = "utils/weighted_tensor/_factory.py"
    ft = ast.parse((src_root / rel).read_text())
    outer = find(ft, None, "factory_weighted_tensor_unary_operator")
    oa = outer.args
    if ([x.arg for x in oa.args], [x.arg for x in oa.kwonlyargs], oa.vararg, oa.kwarg, oa.posonlyargs) != (["f"], ["fill_value"], None, None, []) \
            or len(oa.kw_defaults) != 1 or not same(oa.kw_defaults[0], "None") or oa.defaults or outer.decorator_list:
        bad(outer, "signature of factory_weighted_tensor_unary_operator")
    obody = [s_ for s_ in outer.body if not (isinstance(s_, ast.Expr) and isinstance(s_.value, ast.Constant))]
    if not (len(obody) == 2 and isinstance(obody[0], ast.FunctionDef) and isinstance(obody[1], ast.Return)
            and isinstance(obody[1].value, ast.Name) and obody[1].value.id == obody[0].name
            and [_src(d) for d in obody[0].decorator_list] == ["wraps(f)"]):
        bad(outer, "factory_weighted_tensor_unary_operator is not `@wraps(f) def g(...): ...; return g`")
    fn = Fn(obody[0], f"{rel}:factory_weighted_tensor_unary_operator.{obody[0].name}", closure=("f", "fill_value"))
    if fn.defaults:
        bad(obody[0], "defaults of the inner function")
    out.append(f"(* {rel} : the function returned by factory_weighted_tensor_unary_operator(f, fill_value=...), line {obody[0].lineno} *)")
    out.append(f"Definition src_factory : fundef :=\n  {fn.fundef()}.")
    out.append("")
    sigs.append(f"({q('factory')}, {fn.signature()})")
    graph["factory_weighted_tensor_unary_operator"] = sorted({SIBLING_OF_PRIM[p] for p in fn.used_prims if p in SIBLING_OF_PRIM})
    info["functions"].append(f"{rel}:factory_weighted_tensor_unary_operator")
    # dunder dispatch table
    rows = []
    t = trees["utils/weighted_tensor/_weighted_tensor.py"]
    for d, (opname, rev) in DUNDERS.items():
        f = find(t, "WeightedTensor", d)
        body = [s for s in f.body if not (isinstance(s, ast.Expr) and isinstance(s.value, ast.Constant))]
        if len(body) != 1 or not isinstance(body[0], ast.Return) or not isinstance(body[0].value, ast.Call):
            bad(f, "dunder method that is not a single return")
        c = body[0].value
        if not (isinstance(c.func, ast.Name) and c.func.id == "_apply_operation" and len(c.args) == 3 and same(c.args[0], "self")
                and same(c.args[1], "other") and isinstance(c.args[2], ast.Constant) and isinstance(c.args[2].value, str)):
            bad(c, "dunder method that does not dispatch to _apply_operation(self, other, name)")
        r = False
        for k in c.keywords:
            if k.arg == "reverse" and isinstance(k.value, ast.Constant) and isinstance(k.value.value, bool):
                r = k.value.value
            else:
                bad(c, "keyword of the dispatch")
        rows.append(f"({q(d)}, ({q(c.args[2].value)}, {'true' if r else 'false'}))")
    out.append("(* python signatures (names; `*` separates keyword-only parameters): the tie lemmas bind arguments by these names *)")
    out.append("Definition src_signatures : list (string * list string) :=\n  [" + ";\n   ".join(sigs) + "].")
    out.append("")
    out.append("(* the arithmetic / comparison dunder methods: (method, (operator name handed to _apply_operation, reverse)) *)")
    out.append("Definition src_dunders : list (string * (string * bool)) :=\n  [" + ";\n   ".join(rows) + "].")
    out.append("")
    # acyclic call graph among the translated functions (sibling calls are given the meaning of the hand-written function,
    # which is sound only if every callee's own body is tied and the calls do not loop)
    names = {n for _, _, _, n in TARGETS} | {"factory_weighted_tensor_unary_operator"}
    state = {}

    def visit(n, path):
        if state.get(n) == 2:
            return
        if state.get(n) == 1:
            raise Untranslatable("recursive calls among the translated functions: " + " -> ".join(path + [n]))
        if n not in names:
            raise Untranslatable(f"call of {n}, whose body is not translated")
        state[n] = 1
        for m in graph.get(n, []):
            visit(m, path + [n])
        state[n] = 2
    for n in graph:
        visit(n, [])
    info["calls"] = graph
    return "\n".join(out) + "\n", info


def translate(run) -> bool:
    from harness import common
    try:
        text, info = translate_text(Path(common.SRC))
    except Untranslatable as e:
        run.broken("translate:GenC06", f"harness/translate/c06_weighted.py cannot translate the current source (fail closed): {e}",
                   kind="broken-translation")
        return False
    except (OSError, SyntaxError) as e:
        run.broken("translate:GenC06", f"{type(e).__name__}: {e}", kind="broken-translation")
        return False
    run.gen("GenC06", text)
    run.extra["translated_functions"] = info["functions"]
    run.extra["translated_call_graph"] = info["calls"]
    return True
