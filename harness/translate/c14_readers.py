"""C14 — T1: regenerate coq/gen/GenC14.v, the ordered DECISION TABLE of the dataframe readers, from the current source
(python `ast`, fail closed).

For each of the four reader classes the translator walks what `Reader(...).read(df)` executes before the individuals are built

    __init__ ; read -> _clean_index -> _check_ID, _set_index (-> _check_TIME) ; _clean_numeric_data ; _clean_dataframe (-> the
    visit / event / covariate sub-readers)

with method lookup along the (single) base class read from the source and the receivers `self.visit_reader` /
`self.event_reader` justified by the constructors.  Every statement of every walked method must be, IN ORDER, the statement the
table below expects at that place.  Statements are compared through their *skeleton*: `ast.unparse` of the statement in which

    * every comparison operator,                               * every numeric constant,
    * every `.max() .min() .first() .last() .sum() .nunique() .all() .any() ...` method name,
    * the exception class of every `raise`                     (its message is dropped; `warnings.warn(...)` likewise)

has been replaced by a hole.  The holes are either required to have one fixed value (statements without a counterpart in the
table: copies, warnings, label tests) or are CAPTURED and printed as the parameters of the entry of `Leaspy.Io.IngestSrc.check`
the statement stands for.  The class constants `time_rounding_digits` / `tol_diff` are read where `self.<name>` resolves to, and
must not be assigned anywhere else.  Anything else — an unexpected, missing, reordered or reworded statement, an operator /
aggregate outside the vocabulary, an overriding method — raises `Untranslatable` (-> `BROKEN translate:GenC14`,
kind `broken-translation`; the search stages still run).  Whether the regenerated table is the one the hand-written model
implements is NOT decided here: that is `Io/IngestSrcTie.v` (`gen_readers = model_readers`, checked by Coq).
"""
from __future__ import annotations

import ast
import copy
from fractions import Fraction

from harness.common import Run, SRC
from harness.translate.pysym import Untranslatable

HEADER = """(* REGENERATED on every run from $VERIF_REPO/src/leaspy/io/data/*_dataframe_data_reader.py by harness/translate/c14_readers.py — do not edit *)
From Coq Require Import ZArith QArith List String.
From Leaspy Require Import Io.Ingest Io.IngestSrc.
Import ListNotations.
Open Scope Z_scope.
"""

ABSTRACT = "AbstractDataframeDataReader"
CLASSES = {
    # class -> (file, bases as written in the source)
    ABSTRACT: ("abstract_dataframe_data_reader.py", []),
    "VisitDataframeDataReader": ("visit_dataframe_data_reader.py", [ABSTRACT]),
    "EventDataframeDataReader": ("event_dataframe_data_reader.py", [ABSTRACT]),
    "JointDataframeDataReader": ("joint_dataframe_data_reader.py", [ABSTRACT]),
    "CovariateDataframeDataReader": ("covariate_dataframe_data_reader.py", [ABSTRACT]),
}
VISIT, EVENT, JOINT, COV = "VisitDataframeDataReader", "EventDataframeDataReader", "JointDataframeDataReader", "CovariateDataframeDataReader"
CONSTANTS = ("time_rounding_digits", "tol_diff")

AGG_NAMES = {"max", "min", "first", "last", "sum", "nunique", "mean", "median", "any", "all", "head", "tail", "count", "size",
             "idxmax", "idxmin", "nth", "prod", "std", "var", "cummax", "cummin", "cumsum"}
CMP = {"Lt": "CLt", "LtE": "CLe", "Gt": "CGt", "GtE": "CGe", "Eq": "CEq", "NotEq": "CNe"}
AGG = {"max": "AMax", "min": "AMin", "first": "AFirst", "last": "ALast", "sum": "ASum", "nunique": "ANUnique"}
QUANT = {"all": "QAll", "any": "QAny"}
IDKIND = {"string": "KString", "integer": "KInteger", "categorical": "KCategorical"}
DATA_ERROR = "LeaspyDataInputError"


# ----------------------------------------------------------------------------- skeletons


class _Skeleton(ast.NodeTransformer):
    def __init__(self):
        self.holes: list[tuple[str, object]] = []

    def visit_Compare(self, n):
        if len(n.ops) != 1:
            raise Untranslatable("chained comparison " + ast.unparse(n))
        self.holes.append(("cmp", type(n.ops[0]).__name__))
        return ast.Call(ast.Name("__cmp", ast.Load()), [self.visit(n.left), self.visit(n.comparators[0])], [])

    def visit_Constant(self, n):
        if isinstance(n.value, (int, float)) and not isinstance(n.value, bool):
            self.holes.append(("num", n.value))
            return ast.Name("__num", ast.Load())
        return n

    def visit_Call(self, n):
        if isinstance(n.func, ast.Attribute) and n.func.attr in AGG_NAMES:
            v = self.visit(n.func.value)
            self.holes.append(("agg", n.func.attr))
            return ast.Call(ast.Attribute(v, "__agg", ast.Load()), [self.visit(a) for a in n.args],
                            [ast.keyword(k.arg, self.visit(k.value)) for k in n.keywords])
        if ast.unparse(n.func) == "warnings.warn":
            return ast.Call(ast.Name("__warn", ast.Load()), [], [])
        return self.generic_visit(n)

    def visit_Raise(self, n):
        if n.exc is None:
            raise Untranslatable("bare raise")
        e = n.exc.func if isinstance(n.exc, ast.Call) else n.exc
        self.holes.append(("exc", ast.unparse(e)))
        return ast.Raise(ast.Name("__exc", ast.Load()), None)


def skeleton(stmt) -> tuple[str, list]:
    sk = _Skeleton()
    t = sk.visit(copy.deepcopy(stmt))
    ast.fix_missing_locations(t)
    return ast.unparse(t), sk.holes


# ----------------------------------------------------------------------------- hole patterns
# a pattern item is (kind, fixed value) or (kind, "$name") / (kind, "$name:quant") / (kind, "$name:agg")


def _conv(kind, want, value):
    if kind == "cmp":
        if value not in CMP:
            raise Untranslatable(f"comparison operator {value} outside the vocabulary")
        return CMP[value]
    if kind == "agg":
        table = QUANT if want == "quant" else AGG
        if value not in table:
            raise Untranslatable(f"`.{value}()` where {'a quantifier' if want == 'quant' else 'an aggregate'} of the vocabulary is expected")
        return table[value]
    if kind == "exc":
        return "XData" if value == DATA_ERROR else "XOther"
    if kind == "num":
        if isinstance(value, float) and not value.is_integer():
            raise Untranslatable(f"non-integer constant {value!r}")
        return f"({int(value)})"
    raise Untranslatable("hole kind " + kind)


def match_holes(holes, pattern, what) -> dict:
    if len(holes) != len(pattern):
        raise Untranslatable(f"{what}: {len(holes)} holes, expected {len(pattern)}")
    cap = {}
    for (k, v), (pk, pv) in zip(holes, pattern):
        if k != pk:
            raise Untranslatable(f"{what}: hole {k} where {pk} is expected")
        if isinstance(pv, str) and pv.startswith("$"):
            name, _, want = pv[1:].partition(":")
            val = _conv(k, want, v)
            if name in cap and cap[name] != val:
                raise Untranslatable(f"{what}: the two occurrences of the test differ ({cap[name]} / {val})")
            cap[name] = val
        elif v != pv or type(v) is not type(pv):
            raise Untranslatable(f"{what}: {k} is {v!r}, the table expects the fixed {pv!r}")
    return cap


X = ("exc", "$x")
XFIX = ("exc", DATA_ERROR)


# ----------------------------------------------------------------------------- the expected statements
# slot = (skeleton text, hole pattern, action)
#   action: list of templates (entries emitted, `{name}` = capture or context value)        -> check / silent statement ([])
#           ("call", class or "self", method)                                                 -> inlined call
#           ("call+", [templates], class or "self", method)                                   -> entries, then the inlined call

S_RETURN_DF = ("return df", [], [])

SLOTS = {
    (ABSTRACT, "__init__"): (["self"], [], [
        ("self.individuals: dict[IDType, IndividualData] = {}", [], []),
        ("self.iter_to_idx: dict[int, IDType] = {}", [], []),
        ("self.n_individuals: int = __num", [("num", 0)], []),
    ]),
    (VISIT, "__init__"): (["self"], [], [("super().__init__()", [], ("call", ABSTRACT, "__init__"))]),
    (EVENT, "__init__"): (["self"], ["event_time_name", "event_bool_name", "nb_events"], [
        ("super().__init__()", [], ("call", ABSTRACT, "__init__")),
        ("self.event_time_name = event_time_name", [], []),
        ("self.event_bool_name = event_bool_name", [], []),
        ("self.nb_events = nb_events", [], []),
    ]),
    (JOINT, "__init__"): (["self"], ["event_time_name", "event_bool_name", "nb_events"], [
        ("super().__init__()", [], ("call", ABSTRACT, "__init__")),
        ("self.visit_reader = VisitDataframeDataReader()", [], ("call", VISIT, "__init__")),
        ("self.event_reader = EventDataframeDataReader(event_time_name=event_time_name, event_bool_name=event_bool_name, nb_events=nb_events)",
         [], ("call", EVENT, "__init__")),
    ]),
    (COV, "__init__"): (["self"], ["covariate_names"], [
        ("super().__init__()", [], ("call", ABSTRACT, "__init__")),
        ("if not covariate_names:\n    raise __exc", [X], ["CovNames {x}"]),
        ("self.covariate_names = covariate_names", [], []),
        ("self.visit_reader = VisitDataframeDataReader()", [], ("call", VISIT, "__init__")),
    ]),
    (ABSTRACT, "read"): (["self", "df"], ["drop_full_nan", "sort_index", "warn_empty_column"], [
        ("if not isinstance(df, pd.DataFrame):\n    raise __exc", [XFIX], []),
        ("df = df.copy(deep=True)", [], []),
        ("df = self._clean_index(df)", [], ("call", "self", "_clean_index")),
        ("df = self._clean_numeric_data(df, drop_full_nan, warn_empty_column)", [], ("call", "self", "_clean_numeric_data")),
        ("df = self._clean_dataframe(df, drop_full_nan=drop_full_nan, warn_empty_column=warn_empty_column)", [], ("call", "self", "_clean_dataframe")),
        ("if sort_index:\n    df.sort_index(inplace=True)", [], []),
        ("for idx_subj, df_subj in df.groupby(level='ID', sort=False):\n    self.individuals[idx_subj] = IndividualData(idx_subj)\n"
         "    self._load_individuals_data(self.individuals[idx_subj], df_subj)\n    self.iter_to_idx[self.n_individuals] = idx_subj\n"
         "    self.n_individuals += __num", [("num", 1)], ["GroupLoop"]),
    ]),
    (ABSTRACT, "_clean_index"): (["self", "df"], [], [
        ("df = df.copy(deep=True)", [], []),
        ("columns = df.columns.tolist()", [], []),
        ("try:\n    self._check_headers(columns)\nexcept LeaspyDataInputError:\n    df.reset_index(inplace=True)\n    columns = df.columns.tolist()\n"
         "    self._check_headers(columns)", [], []),
        ("self._check_ID(df['ID'])", [], ("call", "self", "_check_ID")),
        ("df = self._set_index(df)", [], ("call", "self", "_set_index")),
        ("if not df.index.is_unique:\n    df_dup = df[[]].reset_index().duplicated(keep=False)\n    df_dup = df_dup[df_dup]\n    raise __exc",
         [X], ["IndexUnique {x}"]),
        S_RETURN_DF,
    ]),
    (ABSTRACT, "_check_ID"): (["cls", "s"], [], [
        ("valid_dtypes = ['string', 'integer', 'categorical']", [], []),      # the list itself is read by `valid_dtypes` below
        ("inferred_dtype = pd.api.types.infer_dtype(s)", [], []),
        ("if __cmp(inferred_dtype, valid_dtypes):\n    raise __exc", [("cmp", "NotIn"), X], ["IdDtypeIn {valid_dtypes} {x}"]),
        ("if s.isna().__agg():\n    raise __exc", [("agg", "$q:quant"), X], ["IdNa {q} {x}"]),
        ("if __cmp(inferred_dtype, 'integer'):\n    if __cmp(s, __num).__agg():\n        raise __exc\n"
         "elif __cmp(inferred_dtype, 'string'):\n    if __cmp(s.str.len(), __num).__agg():\n        raise __exc",
         [("cmp", "Eq"), ("cmp", "$c1"), ("num", "$k1"), ("agg", "$q1:quant"), ("exc", "$x1"),
          ("cmp", "Eq"), ("cmp", "$c2"), ("num", "$k2"), ("agg", "$q2:quant"), ("exc", "$x2")],
         ["IdIntCmp {c1} {k1} {q1} {x1}", "IdStrLenCmp {c2} {k2} {q2} {x2}"]),
    ]),
    (ABSTRACT, "_clean_numeric_data"): (["self", "df", "drop_full_nan", "warn_empty_column"], [], [
        ("types_nok = {ft: dtype for ft, dtype in df.dtypes.items() if not self._check_numeric_type(dtype)}", [], []),
        ("if types_nok:\n    raise __exc", [X], ["ColsNumeric {x}"]),
        ("try:\n    df = df.astype(float)\nexcept Exception as e:\n    raise __exc", [XFIX], []),
        ("full_of_nans = df.isna().__agg(axis=__num)", [("agg", "all"), ("num", 0)], []),
        ("full_of_nans = full_of_nans[full_of_nans].index.tolist()", [], []),
        ("if warn_empty_column and full_of_nans:\n    __warn()", [], []),
        ("df_inf = np.isinf(df)", [], []),
        ("df_inf_rows_and_cols = df.where(df_inf).dropna(how='all', axis=__num).dropna(how='all', axis=__num).fillna('')",
         [("num", 0), ("num", 1)], []),
        ("if __cmp(len(df_inf_rows_and_cols), __num):\n    raise __exc", [("cmp", "$c"), ("num", "$k"), X], ["InfCount {c} {k} {x}"]),
        ("if drop_full_nan:\n    df = df.dropna(how='all')", [], ["DropFullNan"]),
        S_RETURN_DF,
    ]),
    (VISIT, "_check_TIME"): (["cls", "s"], [], [
        ("if not cls._check_numeric_type(s):\n    raise __exc", [X], ["TimeNumeric {x}"]),
        ("s.replace([np.inf, -np.inf], np.nan, inplace=True)", [], ["TimeInfToNan"]),
        ("if s.isna().__agg():\n    individuals_with_at_least_1_bad_tpt = s.isna().groupby('ID').__agg()\n"
         "    individuals_with_at_least_1_bad_tpt = individuals_with_at_least_1_bad_tpt[individuals_with_at_least_1_bad_tpt].index.tolist()\n"
         "    raise __exc", [("agg", "$q:quant"), ("agg", "any"), X], ["TimeNa {q} {x}"]),
    ]),
    (VISIT, "_set_index"): (["self", "df"], [], [
        ("self._check_TIME(df.set_index('ID')['TIME'])", [], ("call", "self", "_check_TIME")),
        ("df['TIME'] = round(df['TIME'], self.time_rounding_digits)", [], ["RoundTime {digits}"]),
        ("df.set_index(['ID', 'TIME'], inplace=True)", [], ["SetIndexIdTime"]),
        S_RETURN_DF,
    ]),
    (VISIT, "_clean_dataframe"): (["self", "df"], ["drop_full_nan", "warn_empty_column"], [
        ("self.n_visits = len(df)", [], []),
        ("if __cmp(self.n_visits, __num):\n    raise __exc", [("cmp", "$c"), ("num", "$k"), X], ["NRows {c} {k} {x}"]),
        ("self.long_outcome_names = df.columns.tolist()", [], []),
        ("if __cmp(self.dimension, __num):\n    raise __exc", [("cmp", "$c"), ("num", "$k"), X], ["Dimension {c} {k} {x}"]),
        S_RETURN_DF,
    ]),
    (EVENT, "_set_index"): (["self", "df"], [], [("return df.set_index(['ID'])", [], ["SetIndexId"])]),
    (EVENT, "_clean_dataframe"): (["self", "df"], ["drop_full_nan", "warn_empty_column"], [
        ("df_event = df.copy(deep=True)", [], []),
        ("assert __cmp(df_event.columns, [self.event_time_name, self.event_bool_name]).__agg()", [("cmp", "Eq"), ("agg", "all")], []),
        ("df_event[self.event_time_name] = round(df_event[self.event_time_name], self.time_rounding_digits)", [], ["RoundEvt {digits}"]),
        ("if not __cmp(df_event[self.event_time_name], __num).__agg():\n    raise __exc",
         [("cmp", "$c"), ("num", "$k"), ("agg", "$q:quant"), X], ["EvtCmp {c} {k} {q} {x}"]),
        ("if not np.array_equal(df_event[self.event_bool_name], df_event[self.event_bool_name].astype(int)):\n    raise __exc",
         [X], ["ArrayEqualAsInt ColEvb {x}"]),
        ("df_event[self.event_bool_name] = df_event[self.event_bool_name].astype(int)", [], ["AsInt ColEvb"]),
        ("if not df_event.groupby('ID').__agg()[[self.event_time_name, self.event_bool_name]].eq(__num).__agg().__agg():\n    raise __exc",
         [("agg", "nunique"), ("num", "$k"), ("agg", "all"), ("agg", "all"), X], ["NUniquePerId [ColEvt; ColEvb] {k} {x}"]),
        ("df_event = df_event.groupby('ID').__agg()", [("agg", "$a:agg")], ["GroupBy {a}"]),
        ("if __cmp(len(df_event), __num):\n    raise __exc", [("cmp", "$c"), ("num", "$k"), X], ["NGroups {c} {k} {x}"]),
        ("nb_events = df_event[self.event_bool_name].__agg()", [("agg", "$a:agg")], ["NbAgg {a}"]),
        ("if not self.nb_events:\n    if __cmp(nb_events, __num):\n        raise __exc\n    self.nb_events = nb_events\n"
         "elif __cmp(self.nb_events, nb_events):\n    if __cmp(nb_events, __num):\n        __warn()\n    else:\n        raise __exc",
         [("cmp", "$c0"), ("num", "$k0"), ("exc", "$x0"), ("cmp", "$c1"), ("cmp", "$c2"), ("num", "$k2"), ("exc", "$x2")],
         ["NbRule {c0} {k0} {x0} {c1} {c2} {k2} {x2}"]),
        ("return df_event", [], []),
    ]),
    (JOINT, "_set_index"): (["self", "df"], [], [("return self.visit_reader._set_index(df)", [], ("call", VISIT, "_set_index"))]),
    (JOINT, "_clean_dataframe"): (["self", "df"], ["drop_full_nan", "warn_empty_column"], [
        ("df_visit = self.visit_reader._clean_dataframe(df.drop([self.event_time_name, self.event_reader.event_bool_name], axis=__num), "
         "drop_full_nan=drop_full_nan, warn_empty_column=warn_empty_column)", [("num", 1)], ("call", VISIT, "_clean_dataframe")),
        ("df_event = self.event_reader._clean_dataframe(df.reset_index().drop(self.long_outcome_names + ['TIME'], axis=__num).set_index('ID'), "
         "drop_full_nan=drop_full_nan, warn_empty_column=warn_empty_column)", [("num", 1)], ("call", EVENT, "_clean_dataframe")),
        ("if not df_event.groupby('ID').__agg().index.equals(df_visit.groupby('ID').__agg().index):\n    raise __exc",
         [("agg", "first"), ("agg", "first"), X], ["SameIds {x}"]),
        ("df = df_visit.join(df_event)", [], []),
        ("df_test = df.reset_index().groupby('ID').__agg()", [("agg", "$a:agg")], ["JoinAgg {a}"]),
        ("if not __cmp(df_test[self.event_time_name] - df_test['TIME'], -self.tol_diff).__agg():\n"
         "    df_before = df_test[~__cmp(df_test[self.event_time_name] - df_test['TIME'], -self.tol_diff)]\n"
         "    if __cmp(df_before[self.event_bool_name].__agg(), __num):\n        __warn()\n    else:\n        raise __exc",
         [("cmp", "$c"), ("agg", "$q:quant"), ("cmp", "$c"), ("cmp", "$c2"), ("agg", "$a2:agg"), ("num", "$k2"), X],
         ["Crossed {c} {q} {c2} {a2} {k2} {x}"]),
        S_RETURN_DF,
    ]),
    (COV, "_set_index"): (["self", "df"], [], [("return self.visit_reader._set_index(df)", [], ("call", VISIT, "_set_index"))]),
    (COV, "_clean_dataframe"): (["self", "df"], ["drop_full_nan", "warn_empty_column"], [
        ("df_visit = self.visit_reader._clean_dataframe(df.drop(columns=self.covariate_names), drop_full_nan=drop_full_nan, "
         "warn_empty_column=warn_empty_column)", [], ("call+", ["DropCovColumns"], VISIT, "_clean_dataframe")),
        ("df_covariate = self._clean_dataframe_covariates(df.reset_index().drop(self.long_outcome_names + ['TIME'], axis=__num).set_index('ID'), "
         "drop_full_nan=drop_full_nan, warn_empty_column=warn_empty_column)", [("num", 1)], ("call", "self", "_clean_dataframe_covariates")),
        ("if not df_covariate.groupby('ID').__agg().index.equals(df_visit.groupby('ID').__agg().index):\n    raise __exc",
         [("agg", "first"), ("agg", "first"), X], ["SameIds {x}"]),
        ("df = df_visit.join(df_covariate)", [], []),
        S_RETURN_DF,
    ]),
    (COV, "_clean_dataframe_covariates"): (["self", "df"], ["drop_full_nan", "warn_empty_column"], [
        ("df_covariate = df.copy(deep=True)", [], []),
        ("if not __cmp(df_covariate.columns, self.covariate_names).__agg():\n    raise __exc", [("cmp", "Eq"), ("agg", "all"), X], ["CovColumnsEq {x}"]),
        ("for covariate in self.covariate_names:\n    if df_covariate[covariate].isna().__agg():\n        raise __exc",
         [("agg", "$q:quant"), X], ["CovNa {q} {x}"]),
        ("for covariate in self.covariate_names:\n    if not np.array_equal(df_covariate[covariate], df_covariate[covariate].astype(int)):\n"
         "        raise __exc\n    df_covariate[covariate] = df_covariate[covariate].astype(int)", [X], ["ArrayEqualAsInt ColCov {x}"]),
        ("if not df_covariate.groupby('ID').__agg()[self.covariate_names].eq(__num).__agg().__agg():\n    raise __exc",
         [("agg", "nunique"), ("num", "$k"), ("agg", "all"), ("agg", "all"), X], ["NUniquePerId [ColCov] {k} {x}"]),
        ("df_covariate = df_covariate.groupby('ID').__agg()", [("agg", "$a:agg")], ["GroupBy {a}"]),
        ("if __cmp(len(df_covariate), __num):\n    raise __exc", [("cmp", "$c"), ("num", "$k"), X], ["NGroups {c} {k} {x}"]),
        ("for covariate in self.covariate_names:\n    if __cmp((n_value := df_covariate[covariate].__agg(dropna=False)), __num):\n        raise __exc",
         [("cmp", "$c"), ("agg", "nunique"), ("num", "$k"), X], ["CovLevels {c} {k} {x}"]),
        ("return df_covariate", [], []),
    ]),
}

# helpers the walked statements rely on: their bodies must be exactly these (decorator, parameters, skeleton + fixed holes)
AUX = {
    (ABSTRACT, "_check_numeric_type"): ("staticmethod", ["dtype"], [
        ("return pd.api.types.is_numeric_dtype(dtype) and (not pd.api.types.is_complex_dtype(dtype))", [])]),
    (VISIT, "dimension"): ("property", ["self"], [
        ("if __cmp(self.long_outcome_names, None):\n    return None", [("cmp", "Is")]), ("return len(self.long_outcome_names)", [])]),
    (JOINT, "event_time_name"): ("property", ["self"], [("return self.event_reader.event_time_name", [])]),
    (JOINT, "event_bool_name"): ("property", ["self"], [("return self.event_reader.event_bool_name", [])]),
    (JOINT, "long_outcome_names"): ("property", ["self"], [("return self.visit_reader.long_outcome_names", [])]),
    (COV, "long_outcome_names"): ("property", ["self"], [("return self.visit_reader.long_outcome_names", [])]),
}
# names a reader must NOT define itself (they would change what the walked statements mean)
MUST_INHERIT = {
    VISIT: ["read", "_clean_index", "_check_ID", "_clean_numeric_data", "_check_numeric_type", "time_rounding_digits"],
    EVENT: ["read", "_clean_index", "_check_ID", "_clean_numeric_data", "_check_numeric_type", "time_rounding_digits", "_check_TIME"],
    JOINT: ["read", "_clean_index", "_check_ID", "_clean_numeric_data", "_check_numeric_type", "time_rounding_digits"],
    COV: ["read", "_clean_index", "_check_ID", "_clean_numeric_data", "_check_numeric_type", "time_rounding_digits"],
}


# ----------------------------------------------------------------------------- the walk


def body_of(fn):
    return [s for s in fn.body if not (isinstance(s, ast.Expr) and isinstance(s.value, ast.Constant) and isinstance(s.value.value, str))]


class Translator:
    def __init__(self, src=None):
        self.dir = (src or SRC) / "io" / "data"
        self.classes: dict[str, ast.ClassDef] = {}
        self.log: list[str] = []
        for cname, (fname, bases) in CLASSES.items():
            tree = ast.parse((self.dir / fname).read_text())
            found = [n for n in tree.body if isinstance(n, ast.ClassDef) and n.name == cname]
            if len(found) != 1:
                raise Untranslatable(f"class {cname} not found once in {fname}")
            if [ast.unparse(b) for b in found[0].bases] != bases or found[0].keywords or found[0].decorator_list:
                raise Untranslatable(f"bases / decorators of {cname}")
            ok_import = any(isinstance(n, ast.ImportFrom) and n.module == "leaspy.exceptions" and n.level == 0
                            and any(a.name == DATA_ERROR and a.asname is None for a in n.names) for n in tree.body)
            if not ok_import:
                raise Untranslatable(f"{fname} does not import {DATA_ERROR} from leaspy.exceptions")
            for n in ast.walk(tree):
                # nothing else may (re)bind the names the table relies on
                tg = []
                if isinstance(n, (ast.Assign,)):
                    tg = n.targets
                elif isinstance(n, (ast.AugAssign, ast.AnnAssign)):
                    tg = [n.target]
                elif isinstance(n, ast.Call) and ast.unparse(n.func) in ("setattr", "object.__setattr__"):
                    raise Untranslatable(f"setattr in {fname}")
                for t in tg:
                    for sub in ast.walk(t):
                        if isinstance(sub, ast.Attribute) and sub.attr in CONSTANTS + ("visit_reader", "event_reader") \
                                and not (sub.attr.endswith("_reader") and self._is_ctor_assign(n)):
                            raise Untranslatable(f"{fname}: assignment to .{sub.attr}")
                        if isinstance(sub, ast.Name) and sub.id in (DATA_ERROR,):
                            raise Untranslatable(f"{fname}: {DATA_ERROR} rebound")
            self.classes[cname] = found[0]
        for cname, names in MUST_INHERIT.items():
            for m in self.classes[cname].body:
                nm = m.name if isinstance(m, (ast.FunctionDef, ast.AsyncFunctionDef, ast.ClassDef)) else None
                if isinstance(m, ast.Assign):
                    for t in m.targets:
                        if isinstance(t, ast.Name) and t.id in names:
                            raise Untranslatable(f"{cname} overrides {t.id}")
                if nm in names:
                    raise Untranslatable(f"{cname} overrides {nm}")
        for (cname, meth), (deco, params, stmts) in AUX.items():
            fn = self.method(cname, meth, own=True)
            if [ast.unparse(d) for d in fn.decorator_list] != [deco] or [a.arg for a in fn.args.args] != params:
                raise Untranslatable(f"{cname}.{meth}: decorator / parameters")
            body = body_of(fn)
            if len(body) != len(stmts):
                raise Untranslatable(f"{cname}.{meth}: {len(body)} statements, expected {len(stmts)}")
            for st, (text, holes) in zip(body, stmts):
                sk, h = skeleton(st)
                if sk != text or h != holes:
                    raise Untranslatable(f"{cname}.{meth}: `{ast.unparse(st)[:80]}` is not the expected statement")

    @staticmethod
    def _is_ctor_assign(n):
        return isinstance(n, ast.Assign) and isinstance(n.value, ast.Call) and ast.unparse(n.value.func) in (VISIT, EVENT)

    def method(self, cname, meth, own=False):
        """first definition of `meth` along cname, its base"""
        for c in ([cname] if own else [cname] + CLASSES[cname][1]):
            defs = [m for m in self.classes[c].body if isinstance(m, ast.FunctionDef) and m.name == meth]
            if len(defs) > 1:
                raise Untranslatable(f"{c}.{meth} defined twice")
            if defs:
                defs[0]._owner = c
                return defs[0]
        raise Untranslatable(f"no method {meth} on {cname}")

    def constant(self, cname, name):
        """class-level constant `name` as `self.name` resolves on an instance of cname"""
        for c in [cname] + CLASSES[cname][1]:
            for m in self.classes[c].body:
                if isinstance(m, ast.Assign) and len(m.targets) == 1 and isinstance(m.targets[0], ast.Name) and m.targets[0].id == name:
                    if not (isinstance(m.value, ast.Constant) and isinstance(m.value.value, (int, float)) and not isinstance(m.value.value, bool)):
                        raise Untranslatable(f"{c}.{name} is not a numeric literal")
                    return m.value.value
                if isinstance(m, ast.AnnAssign) and isinstance(m.target, ast.Name) and m.target.id == name:
                    raise Untranslatable(f"{c}.{name}: annotated assignment")
        raise Untranslatable(f"no class constant {name} on {cname}")

    def digits(self, cname):
        v = self.constant(cname, "time_rounding_digits")
        if not isinstance(v, int) or not (0 <= v <= 12):
            raise Untranslatable(f"time_rounding_digits = {v!r}")
        return v

    def valid_dtypes(self):
        fn = self.method(ABSTRACT, "_check_ID", own=True)
        st = body_of(fn)[0]
        if not (isinstance(st, ast.Assign) and len(st.targets) == 1 and isinstance(st.targets[0], ast.Name) and st.targets[0].id == "valid_dtypes"
                and isinstance(st.value, ast.List) and all(isinstance(e, ast.Constant) and isinstance(e.value, str) for e in st.value.elts)):
            raise Untranslatable("valid_dtypes is not a literal list of strings")
        out = []
        for e in st.value.elts:
            if e.value not in IDKIND:
                raise Untranslatable(f"ID dtype {e.value!r} has no counterpart in Ingest.idkind")
            out.append(IDKIND[e.value])
        return "[" + "; ".join(out) + "]"

    def walk(self, self_cls: str, meth: str, depth=0) -> list[str]:
        if depth > 8:
            raise Untranslatable("call depth")
        fn = self.method(self_cls, meth)
        owner = fn._owner
        key = (owner, meth)
        if key not in SLOTS:
            raise Untranslatable(f"{owner}.{meth} (reached on a {self_cls}) is not a method of the table")
        params, kwonly, slots = SLOTS[key]
        if [a.arg for a in fn.args.args] != params or [a.arg for a in fn.args.kwonlyargs] != kwonly or fn.args.vararg or fn.args.kwarg \
                or fn.args.posonlyargs:
            raise Untranslatable(f"{owner}.{meth}: parameters")
        decos = [ast.unparse(d) for d in fn.decorator_list]
        if decos not in ([], ["classmethod"]) or (decos == ["classmethod"]) != (params[:1] == ["cls"]):
            raise Untranslatable(f"{owner}.{meth}: decorators {decos}")
        body = body_of(fn)
        self.log.append(f"{'  ' * depth}{owner}.{meth} (self: {self_cls}), {len(body)} statements")
        if len(body) != len(slots):
            raise Untranslatable(f"{owner}.{meth}: {len(body)} statements, the table expects {len(slots)}")
        out: list[str] = []
        for st, (text, pattern, action) in zip(body, slots):
            sk, holes = skeleton(st)
            what = f"{owner}.{meth}: `{ast.unparse(st).splitlines()[0][:70]}`"
            if sk != text:
                raise Untranslatable(f"{what} is not the statement expected here (`{text.splitlines()[0][:70]}`)")
            cap = match_holes(holes, pattern, what)
            templates, call = [], None
            if isinstance(action, tuple) and action[0] == "call":
                call = action[1:]
            elif isinstance(action, tuple) and action[0] == "call+":
                templates, call = action[1], action[2:]
            else:
                templates = action
            for tpl in templates:
                ctx = dict(cap)
                if "{digits}" in tpl:
                    ctx["digits"] = f"({self.digits(self_cls)})"
                if "{valid_dtypes}" in tpl:
                    ctx["valid_dtypes"] = self.valid_dtypes()
                out.append(tpl.format(**ctx))
            if call:
                target, m = call
                out += self.walk(self_cls if target == "self" else target, m, depth + 1)
        return out

    def reader(self, cname) -> list[str]:
        return self.walk(cname, "__init__") + self.walk(cname, "read")

    def run(self) -> str:
        tol = self.constant(JOINT, "tol_diff")
        if not isinstance(tol, float) or not (0 <= tol < 1):
            raise Untranslatable(f"tol_diff = {tol!r}")
        tq = Fraction(*tol.as_integer_ratio())
        digs = {c: self.digits(c) for c in CLASSES}
        fields = [("rd_digits", f"({digs[ABSTRACT]})"), ("rd_tol", f"({tq.numerator} # {tq.denominator})%Q")]
        self.counts = {}
        for name, c in (("rd_visit", VISIT), ("rd_event", EVENT), ("rd_joint", JOINT), ("rd_cov", COV)):
            entries = self.reader(c)
            self.counts[name] = len(entries)
            fields.append((name, "[\n    " + ";\n    ".join(entries) + "\n  ]"))
        body = ";\n  ".join(f"{k} := {v}" for k, v in fields)
        prov = "\n".join("   " + l for l in self.log)
        return (HEADER + f"\n(* methods walked, in execution order (first definition along the class bases):\n{prov} *)\n\n"
                + "Definition gen_readers : readers := {|\n  " + body + "\n|}.\n")


def translate(run: Run) -> bool:
    try:
        tr = Translator()
        text = tr.run()
        run.gen("GenC14", text)
        run.extra["c14_decision_table_entries"] = tr.counts
        run.trusted.append("translator harness/translate/c14_readers.py (python ast -> ordered decision table of Io/IngestSrc.v: every statement of the "
                           "walked reader methods matched in order on its skeleton; operators, constants, quantifiers, aggregates and exception "
                           "classes captured from the source; the table of expected statements and of which of them have no counterpart in the model)")
        return True
    except (Untranslatable, KeyError, OSError, SyntaxError, AttributeError, IndexError) as e:
        run.broken("translate:GenC14", f"{type(e).__name__}: {e}", kind="broken-translation")
        return False
