"""C04 (extension) — T1: regenerate coq/gen/GenC04Resp.v by TRACING the four mixture update rules of $VERIF_REPO
(`compute_probs_from_state`, `compute_ind_param_mean_from_suff_stats_mixture`, `compute_ind_param_std_from_suff_stats_mixture`
and its `_burn_in` variant), each through the real `ModelParameter.for_probs / for_ind_mean_mixture / for_ind_std_mixture`
constructors and the real `compute_update` dispatch.

Unlike the scalar tracer of formulas.py the symbols here are SHAPED: a traced tensor is backed by a real tensor (the real torch
operation is executed on it, so shapes, broadcasting and `.shape[0]` are torch's own) and carries the expression that produced it.
Axes are labelled by their size (the individuals, cluster and source axes are given distinct prime sizes), so that the axis a
`softmax` normalises over and the axis a `sum` / `mean` / `std` reduces are recorded by NAME:
    ("softmax", axis, e)   ("sum" | "mean", axis, e)   ("std", axis, correction, e)
The trace is run for two cohort sizes; an integer constant that follows the cohort size is the number of individuals.

What is emitted, per rule (sites: probs, mean, mean of `sources`, std, std in burn-in):
  * the point-wise expression fed to the softmax (`gen_resp_logit_<site> t`, t = an entry of nll_regul_ind_sum_ind) and the axis the
    softmax normalises over (`gen_resp_softmax_axes`);
  * the rule as a function of the reductions over individuals of the responsibilities `r` and of the summand (`r * x`, `r * s`),
    the summand itself, and for the std rule the variance under the square root.
Anything else — an unknown torch function, a reduction over another axis, a softmax output used outside these shapes, a rule that
differs between the two phases when it has no burn-in variant — raises `Untraceable` (fail closed)."""
from __future__ import annotations

from fractions import Fraction

import torch

from harness.translate.formulas import HEADER, Untraceable, _rat, definition

N_SRC, N_CLUSTER = 2, 3
LAYOUT = {"unsqueeze", "squeeze", "expand", "expand_as", "clone", "contiguous", "detach", "to", "double", "float", "view", "reshape",
          "broadcast_to", "type"}
BIN = {"add": "add", "__add__": "add", "__radd__": "add", "sub": "sub", "__sub__": "sub", "mul": "mul", "__mul__": "mul",
       "__rmul__": "mul", "div": "div", "true_divide": "div", "__truediv__": "div"}
UN = {"neg": "neg", "__neg__": "neg", "sqrt": "sqrt", "exp": "exp", "log": "log", "square": "square", "abs": "abs"}
PASS = {"__get__", "dim", "size", "numel", "ndimension", "is_floating_point", "__len__", "is_complex", "element_size", "stride",
        "storage_offset", "__set__", "requires_grad_"}


def _labels(n_ind):
    return {n_ind: "ind", N_CLUSTER: "cluster", N_SRC: "src", 1: "one"}


class VSym(torch.Tensor):
    """traced tensor: real backing values + the expression that produced them"""
    N_IND = 0

    @staticmethod
    def make(data: torch.Tensor, expr):
        t = torch.Tensor._make_subclass(VSym, data.detach().clone())
        t.expr = expr
        return t

    def __repr__(self):
        return f"VSym({getattr(self, 'expr', None)})"

    def __bool__(self):
        raise Untraceable("python control flow on a traced tensor")

    @classmethod
    def __torch_function__(cls, func, types, args=(), kwargs=None):
        kwargs = dict(kwargs or {})
        name = getattr(func, "__name__", str(func))

        def raw(a):
            if isinstance(a, VSym):
                return a.as_subclass(torch.Tensor)
            if isinstance(a, (tuple, list)):
                return type(a)(raw(x) for x in a)
            return a

        def e(a):
            if isinstance(a, VSym):
                return a.expr
            if isinstance(a, torch.Tensor):
                if a.numel() == 1:
                    return ("const", _rat(a.item()))
                raise Untraceable(f"non-scalar concrete tensor in {name}")
            if isinstance(a, (int, float, bool)):
                return ("const", _rat(a))
            raise Untraceable(f"argument of type {type(a).__name__} in {name}")

        if name in PASS:
            with torch._C.DisableTorchFunctionSubclass():
                return func(*args, **kwargs)
        with torch._C.DisableTorchFunctionSubclass():
            try:
                out = func(*raw(args), **{k: raw(v) for k, v in kwargs.items()})
            except Exception as ex:
                raise Untraceable(f"{name} fails on the traced shapes: {type(ex).__name__}: {ex}")
        if not isinstance(out, torch.Tensor):
            raise Untraceable(f"`{name}` does not return a tensor on a traced tensor")

        def axis_of(t, dim):
            dim = int(dim)
            if dim < 0:
                dim += t.dim()
            sz = int(t.shape[dim])
            lab = _labels(cls.N_IND).get(sz)
            if lab is None or lab == "one":
                raise Untraceable(f"{name}: axis {dim} of size {sz} is not a named axis")
            return lab

        if name in BIN and len(args) == 2:
            return VSym.make(out, (BIN[name], e(args[0]), e(args[1])))
        if name in ("__rsub__", "rsub"):
            return VSym.make(out, ("sub", e(args[1]), e(args[0])))
        if name in ("__rtruediv__", "__rdiv__"):
            return VSym.make(out, ("div", e(args[1]), e(args[0])))
        if name in ("pow", "__pow__"):
            return VSym.make(out, ("pow", e(args[0]), e(args[1])))
        if name in UN and len(args) == 1 and not kwargs:
            return VSym.make(out, (UN[name], e(args[0])))
        if name == "clamp":
            ex = e(args[0])
            lo = kwargs.get("min", args[1] if len(args) > 1 else None)
            hi = kwargs.get("max", args[2] if len(args) > 2 else None)
            if lo is not None:
                ex = ("max2", ex, e(lo))
            if hi is not None:
                ex = ("min2", ex, e(hi))
            return VSym.make(out, ex)
        if name in ("softmax", "_softmax"):
            kw = dict(kwargs)
            kw.pop("_stacklevel", None)
            if kw.pop("dtype", None) is not None:
                raise Untraceable("softmax with a dtype")
            dim = kw.pop("dim", args[1] if len(args) > 1 else None)
            if dim is None or kw or len(args) > 2:
                raise Untraceable(f"softmax called with {args[1:]!r} {kwargs!r}")
            return VSym.make(out, ("softmax", axis_of(args[0], dim), e(args[0])))
        if name in ("sum", "mean", "std"):
            kw = dict(kwargs)
            dim = kw.pop("dim", args[1] if len(args) > 1 else None)
            if isinstance(dim, (tuple, list)) and len(dim) == 1:
                dim = dim[0]
            if not isinstance(dim, int) or isinstance(dim, bool) or len(args) > 2:
                raise Untraceable(f"{name}: reduction over {dim!r}")
            if kw.pop("keepdim", False):
                raise Untraceable(f"{name}: keepdim")
            ax = axis_of(args[0], dim)
            if name == "std":
                corr = 1
                if "unbiased" in kw:
                    corr = 1 if kw.pop("unbiased") else 0
                if "correction" in kw:
                    corr = int(kw.pop("correction"))
                if kw:
                    raise Untraceable(f"std: unknown arguments {kw!r}")
                return VSym.make(out, ("std", ax, corr, e(args[0])))
            if kw:
                raise Untraceable(f"{name}: unknown arguments {kw!r}")
            return VSym.make(out, (name, ax, e(args[0])))
        if name in LAYOUT:
            return VSym.make(out, e(args[0]))
        raise Untraceable(f"untranslated torch function `{name}` in a mixture rule")


def _trace_all(n_ind: int) -> dict:
    """expressions of the five sites for a cohort of `n_ind` individuals"""
    import leaspy.models.utilities as mutil
    from leaspy.utils.weighted_tensor import WeightedTensor
    from leaspy.variables.specs import ModelParameter
    VSym.N_IND = n_ind
    g = torch.Generator().manual_seed(1234 + n_ind)

    def V(name, *shape, pos=False):
        d = torch.rand(*shape, generator=g, dtype=torch.float64) + (0.5 if pos else 0.0)
        return VSym.make(d, ("var", name))

    guard_calls = []
    real_guard = mutil.compute_std_from_variance

    def rec_guard(variance, *a, **k):
        guard_calls.append(1)
        return real_guard(variance, *a, **k)

    res = {}

    def run(site, mp, state, stats, phases):
        got = []
        for b in phases:
            try:
                r = mp.compute_update(state=state(), suff_stats=stats(), burn_in=b)
            except Untraceable:
                raise
            except Exception as ex:
                raise Untraceable(f"{site} (burn_in={b}): {type(ex).__name__}: {ex}")
            if not isinstance(r, VSym):
                raise Untraceable(f"{site}: the rule returns {type(r).__name__}, not a traced tensor")
            got.append((r.expr, tuple(r.shape)))
        if any(x != got[0] for x in got):
            raise Untraceable(f"{site}: the rule differs between the phases {phases}")
        res[site] = got[0]

    def nll():
        return WeightedTensor(V("t", n_ind, N_CLUSTER))

    mutil.compute_std_from_variance = rec_guard
    try:
        run("probs", ModelParameter.for_probs((N_CLUSTER,)), lambda: {"nll_regul_ind_sum_ind": nll()}, dict, (False, True))
        run("mean", ModelParameter.for_ind_mean_mixture("xi", (N_CLUSTER,)),
            lambda: {"nll_regul_ind_sum_ind": nll(), "xi": V("x", n_ind, 1)}, lambda: {"xi": V("stat_x", n_ind, 1)}, (False, True))
        run("mean_src", ModelParameter.for_ind_mean_mixture("sources", (N_SRC, N_CLUSTER)),
            lambda: {"nll_regul_ind_sum_ind": nll(), "sources": V("x", n_ind, N_SRC)}, lambda: {"sources": V("stat_x", n_ind, N_SRC)},
            (False, True))
        mps = ModelParameter.for_ind_std_mixture("xi", (N_CLUSTER,))
        if mps.update_rule_burn_in is None:
            raise Untraceable("for_ind_std_mixture: no burn-in rule any more")
        st = lambda: {"nll_regul_ind_sum_ind": nll(), "xi": V("x", n_ind, 1), "xi_mean": V("old_mean", N_CLUSTER)}
        # S2 well above S1^2 so that the traced square root is taken of a positive backing value
        ss = lambda: {"xi": V("S1", n_ind, 1), "xi_sqr": VSym.make(torch.full((n_ind, 1), 9.0, dtype=torch.float64), ("var", "S2"))}
        run("std", mps, st, ss, (False,))
        run("std_burn", mps, st, ss, (True,))
    finally:
        mutil.compute_std_from_variance = real_guard
    res["guard_calls"] = len(guard_calls)
    return res


def _merge(a, b, na, nb):
    """the two traces must be the same expression up to the constants that follow the cohort size"""
    if not (isinstance(a, tuple) and isinstance(b, tuple) and len(a) == len(b) and a[0] == b[0]):
        _bad(a, b)
    if a[0] == "const":
        if a[1] == b[1]:
            return a
        if a[1] == na and b[1] == nb:
            return ("var", "n_inds")
        raise Untraceable(f"constants {a[1]} / {b[1]} for cohorts of {na} / {nb} individuals")
    out = []
    for x, y in zip(a, b):
        if isinstance(x, tuple) and isinstance(y, tuple):
            out.append(_merge(x, y, na, nb))
        elif x == y:
            out.append(x)
        else:
            _bad(a, b)
    return tuple(out)


def _bad(a, b):
    raise Untraceable(f"the trace depends on the cohort size: {a!r} vs {b!r}")


def _find(e, kind, acc):
    if isinstance(e, tuple):
        if e[0] == kind:
            acc.append(e)
        for x in e[1:]:
            _find(x, kind, acc)
    return acc


def _subst(e, old, new):
    if e == old:
        return new
    if isinstance(e, tuple):
        return tuple(_subst(x, old, new) for x in e)
    return e


AX = {"ind": "AxInd", "cluster": "AxCluster", "src": "AxOther"}
SITES = ("probs", "mean", "mean_src", "std", "std_burn")


def generate() -> tuple[str, dict]:
    na, nb = 7, 11
    ta, tb = _trace_all(na), _trace_all(nb)
    if ta["guard_calls"] != tb["guard_calls"]:
        raise Untraceable("compute_std_from_variance is called a different number of times for the two cohort sizes")
    facts: dict = {"sites": {}, "mixture_rules_guard_calls": ta["guard_calls"]}
    out = [HEADER.replace("From Coq Require Import Reals.", "From Coq Require Import Reals ZArith List.\nImport ListNotations."),
           "From Leaspy Require Import Saem.Resp.\n"]
    axes = []
    shapes = {"probs": (N_CLUSTER,), "mean": (N_CLUSTER,), "mean_src": (N_SRC, N_CLUSTER), "std": (N_CLUSTER,), "std_burn": (N_CLUSTER,)}
    for site in SITES:
        (ea, sha), (eb, shb) = ta[site], tb[site]
        if sha != shapes[site] or shb != shapes[site]:
            raise Untraceable(f"{site}: the update has shape {sha}, expected {shapes[site]}")
        e = _merge(ea, eb, Fraction(na), Fraction(nb))
        sms = set(_find(e, "softmax", []))
        if len(sms) != 1:
            raise Untraceable(f"{site}: {len(sms)} distinct softmax expressions in the rule (expected exactly one)")
        sm = sms.pop()
        _, ax, logit = sm
        if _find(logit, "sum", []) or _find(logit, "mean", []) or _find(logit, "std", []) or _find(logit, "softmax", []):
            raise Untraceable(f"{site}: a reduction inside the argument of the softmax")
        axes.append(AX[ax])
        out.append(f"(* {site}: the point-wise argument of Softmax (t = nll_regul_ind_sum_ind[i, c]); normalised over the `{ax}` axis *)")
        out.append(definition(f"gen_resp_logit_{site}", ["t"], logit))
        e = _subst(e, sm, ("var", "r"))
        # reductions over individuals: of r alone, of the summand
        summands = []
        for red in sorted(set(_find(e, "sum", [])), key=repr):
            if red[1] != "ind":
                raise Untraceable(f"{site}: a sum over the `{red[1]}` axis")
            if red[2] == ("var", "r"):
                e = _subst(e, red, ("var", "sum_r"))
            else:
                summands.append(red)
        if len(summands) > 1:
            raise Untraceable(f"{site}: {len(summands)} different sums over individuals besides that of the responsibilities")
        if site == "probs":
            if summands:
                raise Untraceable("probs: a sum over individuals of something else than the responsibilities")
            out.append("(* compute_probs_from_state: sum_r = probs_ind.sum(dim=individuals), n_inds = nll_regul_ind_sum_ind.shape[0] *)")
            out.append(definition("gen_probs_rule", ["sum_r", "n_inds"], e))
        else:
            if len(summands) != 1:
                raise Untraceable(f"{site}: no sum over individuals of a responsibility-weighted quantity")
            sd = summands[0][2]
            e = _subst(e, summands[0], ("var", "sum_rq"))
            if site in ("mean", "mean_src"):
                out.append(f"(* {site}: sum_rq = sum over individuals of the summand below (x = the individual's latent value read from the STATE) *)")
                out.append(definition(f"gen_mix_{site}_summand", ["r", "x"], sd))
                out.append(definition(f"gen_mix_{site}_rule", ["sum_rq", "sum_r"], e))
            else:
                # summand r * s with s constant over individuals: s = sqrt(variance) | std over individuals of the state values
                inner = set(_find(sd, "mean", [])) | set(_find(sd, "std", []))
                sv = sd
                for red in sorted(inner, key=repr):
                    if red[1] != "ind":
                        raise Untraceable(f"{site}: a reduction over the `{red[1]}` axis")
                    if red[0] == "mean" and red[2] in (("var", "S1"), ("var", "S2")):
                        sv = _subst(sv, red, ("var", "m" + red[2][1]))
                    elif red[0] == "std" and red[-1] == ("var", "x"):
                        sv = _subst(sv, red, ("var", "std_x"))
                        out.append(f"Definition gen_mix_std_burn_correction : Z := ({int(red[2])})%Z.\n")
                        facts["mix_std_burn_correction"] = int(red[2])
                    else:
                        raise Untraceable(f"{site}: unexpected reduction {red!r}")
                params = ["r", "old_mean", "mS1", "mS2"] if site == "std" else ["r", "std_x"]
                out.append(f"(* {site}: summand of the sum over individuals; everything but r is constant over individuals *)")
                out.append(definition(f"gen_mix_{site}_summand", params, sv))
                out.append(definition(f"gen_mix_{site}_rule", ["sum_rq", "sum_r"], e))
        facts["sites"][site] = {"softmax_axis": ax}
    out.append("(* the axis each Softmax normalises over, in the order probs, mean, mean of sources, std, std in burn-in *)")
    out.append(f"Definition gen_resp_softmax_axes : list axis := [{'; '.join(axes)}].\n")
    return "\n".join(out), facts
