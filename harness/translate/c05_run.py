"""C05 — source-level facts that join the C05 rules (GenC05.v) to the C11 run program (GenC11.v).  Python `ast`, fail closed.

Two groups of checks, both read from $VERIF_REPO/src/leaspy on every run:

A. `run_facts()` — what the model Compose/ScheduleOnRun.v assumes about the two scheduling events of the run program:
   * `_maximization_step` is  [docstring] ; ASuffStats statement ; ONE `if` ; AMStep statement   (exact normalised texts of the
     C11 event table), so the register update that c05.translate executes symbolically sits between the two named events;
   * in every method of every class along the bases of TensorMcmcSaemAlgorithm the register `self.sufficient_statistics` is
     stored only by that `if` (and set to None by FitAlgorithm.__init__), `algo_parameters["n_burn_in_iter"]` only by the mixin
     constructor, and nothing stores `algo_parameters["n_iter"]` / `["burn_in_step_power"]` or rebinds `self.algo_parameters`
     outside BaseAlgorithm.__init__ (the counter `self.current_iteration` is already guarded by the C11 translator: the loop target
     and `= 0` in the constructors only);
   * `_is_burn_in` reads exactly `self.current_iteration` and `self.algo_parameters["n_burn_in_iter"]`.

B. `constructor_chain(name)` — for an algorithm NAME ("mcmc_saem", "mean_posterior", "mode_posterior"): the class the factory
   returns for that name, its method resolution order (C3 linearisation computed from the bases WRITTEN in the source, every base
   resolved through the import statements of its module), and along it: `AlgorithmWithSamplersMixin.__init__` is reached (every
   `__init__` before it starts with `super().__init__(settings)`), it is the ONLY constructor of the chain that mentions
   `n_burn_in_iter` / `n_burn_in_iter_frac`, no constructor stores `algo_parameters["n_iter"]`, and `_is_burn_in` resolves to the
   mixin's.  So the memory-less length of the personalisation algorithms is decided by the constructor code GenC05 was read from.
"""
from __future__ import annotations

import ast
from pathlib import PurePosixPath

from harness.common import SRC
from harness.translate import c11_run
from harness.translate.pysym import Untranslatable

CSS = "sufficient_statistics = model.compute_sufficient_statistics(state)"
UPD = "model.update_parameters(state, self.sufficient_statistics, burn_in=self._is_burn_in())"
IS_BURN_IN = "return self.current_iteration <= self.algo_parameters['n_burn_in_iter']"

FACTORY = ("algo/base.py", "get_algorithm_class")
NAMES = {   # algorithm name -> (member of AlgorithmName, package the factory imports from, class)
    "mcmc_saem": ("FIT_MCMC_SAEM", "fit", "TensorMcmcSaemAlgorithm"),
    "mean_posterior": ("PERSONALIZE_MEAN_POSTERIOR", "personalize", "MeanPosteriorAlgorithm"),
    "mode_posterior": ("PERSONALIZE_MODE_POSTERIOR", "personalize", "ModePosteriorAlgorithm"),
}
MIXIN = "AlgorithmWithSamplersMixin"
ROOTS = {"ABC", "Generic"}          # bases outside leaspy: no `__init__(settings)`, no `algo_parameters`
BURN_KEYS = ("n_burn_in_iter", "n_burn_in_iter_frac")
PROTECTED_KEYS = ("n_iter", "burn_in_step_power")


def _tree(rel: str) -> ast.Module:
    p = SRC / rel
    if not p.exists():
        raise Untranslatable(f"{rel} not found")
    return ast.parse(p.read_text())


def _class(rel: str, name: str) -> ast.ClassDef:
    for n in _tree(rel).body:
        if isinstance(n, ast.ClassDef) and n.name == name:
            return n
    raise Untranslatable(f"class {name} not defined at top level of {rel}")


def _resolve_import(rel: str, name: str) -> str:
    """File that defines `name` as seen from module `rel`: the module itself or a `from <relative> import name` (followed through
    one package `__init__`)."""
    tree = _tree(rel)
    defs = [n for n in tree.body if isinstance(n, ast.ClassDef) and n.name == name]
    binds = []
    for n in ast.walk(tree):
        if isinstance(n, ast.ImportFrom) and any((a.asname or a.name) == name for a in n.names):
            binds.append(n)
        elif isinstance(n, ast.Import) and any((a.asname or a.name) == name for a in n.names):
            raise Untranslatable(f"{rel}: `{name}` bound by a plain import")
        elif isinstance(n, (ast.Assign, ast.AnnAssign, ast.AugAssign)) and n in tree.body:
            tg = n.targets if isinstance(n, ast.Assign) else [n.target]
            if any(isinstance(t, ast.Name) and t.id == name for t in tg):
                raise Untranslatable(f"{rel}: `{name}` rebound at module level")
    if defs:
        if len(defs) != 1 or binds:
            raise Untranslatable(f"{rel}: `{name}` defined more than once")
        return rel
    if len(binds) != 1:
        raise Untranslatable(f"{rel}: `{name}` is imported {len(binds)} times")
    imp = binds[0]
    if any(a.asname for a in imp.names if (a.asname or a.name) == name) or imp.level < 1:
        raise Untranslatable(f"{rel}: `{name}` imported under another name / absolutely")
    base = PurePosixPath(rel).parent
    for _ in range(imp.level - 1):
        base = base.parent
    mod = base / (imp.module.replace(".", "/") if imp.module else "")
    if (SRC / f"{mod}.py").exists():
        return _resolve_import(str(mod) + ".py", name)
    if (SRC / mod / "__init__.py").exists():
        return _resolve_import(str(mod / "__init__.py"), name)
    raise Untranslatable(f"{rel}: module of `{name}` not found")


def _base_name(b: ast.expr) -> str:
    if isinstance(b, ast.Subscript):          # Generic parametrisation: FitAlgorithm[McmcSaemCompatibleModel, State]
        b = b.value
    if not isinstance(b, ast.Name):
        raise Untranslatable(f"base class written as `{ast.unparse(b)}`")
    return b.id


def _c3(name, bases_of):
    def merge(seqs):
        out = []
        seqs = [list(s) for s in seqs if s]
        while seqs:
            for s in seqs:
                h = s[0]
                if not any(h in t[1:] for t in seqs):
                    break
            else:
                raise Untranslatable("inconsistent class hierarchy (no C3 linearisation)")
            out.append(h)
            seqs = [[x for x in t if x != h] for t in seqs]
            seqs = [t for t in seqs if t]
        return out
    bs = bases_of[name]
    return [name] + merge([_c3(b, bases_of) for b in bs] + [list(bs)])


def hierarchy(rel: str, cname: str):
    """{class: (file, ClassDef)} and the MRO of `cname`, bases resolved through the imports of each module."""
    classes, bases_of = {}, {}

    def visit(rel, name):
        if name in classes:
            if classes[name][0] != rel:
                raise Untranslatable(f"two classes named {name}")
            return
        cls = _class(rel, name)
        if cls.keywords or cls.decorator_list:
            raise Untranslatable(f"class {name} has a metaclass / decorator")
        classes[name] = (rel, cls)
        bs = []
        for b in cls.bases:
            bn = _base_name(b)
            if bn in ROOTS:
                continue
            bs.append(bn)
            visit(_resolve_import(rel, bn), bn)
        bases_of[name] = bs
    visit(rel, cname)
    return classes, _c3(cname, bases_of)


def _methods(cls: ast.ClassDef) -> dict:
    out = {}
    for st in cls.body:
        if isinstance(st, ast.FunctionDef):
            if st.name in out:
                raise Untranslatable(f"{cls.name}.{st.name} defined twice")
            out[st.name] = st
        elif isinstance(st, (ast.AsyncFunctionDef, ast.ClassDef)):
            raise Untranslatable(f"class body of {cls.name}: nested `{st.name}`")
        elif isinstance(st, ast.Assign):
            for t in st.targets:
                if isinstance(t, ast.Name) and t.id in ("__init__", "_is_burn_in", "_maximization_step", "_iteration"):
                    raise Untranslatable(f"class body of {cls.name} rebinds {t.id}")
    hooks = {"__getattr__", "__getattribute__", "__setattr__", "__new__", "__init_subclass__"} & set(out)
    if hooks:
        raise Untranslatable(f"class {cls.name} defines {sorted(hooks)}")
    return out


def _mentions(node, words) -> bool:
    for n in ast.walk(node):
        if isinstance(n, ast.Constant) and isinstance(n.value, str) and any(w in n.value for w in words) and not _is_doc(node, n):
            return True
        if isinstance(n, ast.Name) and any(w in n.id for w in words):
            return True
        if isinstance(n, ast.Attribute) and any(w in n.attr for w in words):
            return True
    return False


def _is_doc(fn, const) -> bool:
    return bool(getattr(fn, "body", None)) and isinstance(fn.body[0], ast.Expr) and fn.body[0].value is const


def _stores(fn):
    """(target text, statement) of every store in a function."""
    for n in ast.walk(fn):
        tg = []
        if isinstance(n, ast.Assign):
            tg = n.targets
        elif isinstance(n, (ast.AugAssign, ast.AnnAssign)):
            tg = [n.target]
        elif isinstance(n, (ast.For, ast.AsyncFor)):
            tg = [n.target]
        elif isinstance(n, ast.With):
            tg = [i.optional_vars for i in n.items if i.optional_vars is not None]
        elif isinstance(n, ast.Delete):
            tg = n.targets
        elif isinstance(n, ast.NamedExpr):
            tg = [n.target]
        for t in tg:
            for a in ast.walk(t):
                if isinstance(a, (ast.Attribute, ast.Subscript)) and isinstance(a.ctx, (ast.Store, ast.Del)):
                    yield ast.unparse(a), n
        if isinstance(n, ast.Call):
            f = ast.unparse(n.func)
            if f in ("setattr", "delattr", "vars") or f.endswith(".__dict__.update") or f.endswith(".__setitem__") \
                    or (f.startswith("self.algo_parameters.") and f.split(".")[-1] in ("update", "pop", "setdefault", "clear", "popitem", "__setitem__")):
                yield f + "(...)", n


def constructor_chain(algo_name: str) -> list[str]:
    """Fail closed unless the class the factory builds for `algo_name` resolves its memory-less length through the mixin constructor
    GenC05 was read from.  Returns the provenance lines (for the evidence)."""
    member, pkg, cname = NAMES[algo_name]
    # the enum member has that value
    enum = _class("algo/base.py", "AlgorithmName")
    vals = {ast.unparse(st.targets[0]): st.value for st in enum.body if isinstance(st, ast.Assign) and len(st.targets) == 1}
    if member not in vals or not (isinstance(vals[member], ast.Constant) and vals[member].value == algo_name):
        raise Untranslatable(f"AlgorithmName.{member} is not {algo_name!r}")
    if sum(1 for v in vals.values() if isinstance(v, ast.Constant) and v.value == algo_name) != 1:
        raise Untranslatable(f"several members of AlgorithmName have the value {algo_name!r}")
    # the factory returns that class for that member
    fac = next((n for n in _tree(FACTORY[0]).body if isinstance(n, ast.FunctionDef) and n.name == FACTORY[1]), None)
    if fac is None:
        raise Untranslatable("get_algorithm_class not found")
    want = ast.unparse(ast.parse(f"if name == AlgorithmName.{member}:\n    from .{pkg} import {cname}\n    return {cname}").body[0])
    hits = [st for st in fac.body if isinstance(st, ast.If) and ast.unparse(st.test) == f"name == AlgorithmName.{member}"]
    if len(hits) != 1 or ast.unparse(hits[0]) != want:
        raise Untranslatable(f"get_algorithm_class: the branch of AlgorithmName.{member} is not `from .{pkg} import {cname}; return {cname}`")
    first = [ast.unparse(st) for st in fac.body if not (isinstance(st, ast.Expr) and isinstance(st.value, ast.Constant))][0]
    if first != "name = AlgorithmName(name)":
        raise Untranslatable("get_algorithm_class does not start with `name = AlgorithmName(name)`")
    before = fac.body[:fac.body.index(hits[0])]
    for st in before:
        if isinstance(st, ast.If) and not ast.unparse(st.test).startswith("name == AlgorithmName."):
            raise Untranslatable("get_algorithm_class: unknown test before the branch")
    rel = _resolve_import(f"algo/{pkg}/__init__.py", cname)
    classes, mro = hierarchy(rel, cname)
    if MIXIN not in mro:
        raise Untranslatable(f"{cname} does not inherit {MIXIN}")
    if classes[MIXIN][0] != "algo/algo_with_samplers.py":
        raise Untranslatable(f"{MIXIN} comes from {classes[MIXIN][0]}")
    log = [f"{algo_name} -> {cname} ({rel}); MRO " + " > ".join(mro)]
    for c in mro:
        meths = _methods(classes[c][1])
        init = meths.get("__init__")
        if c != MIXIN and "_is_burn_in" in meths and mro.index(c) < mro.index(MIXIN):
            raise Untranslatable(f"{c} overrides _is_burn_in")
        if init is None:
            continue
        a = init.args
        if [x.arg for x in a.args] != ["self", "settings"] or a.vararg or a.kwarg or a.kwonlyargs or init.decorator_list:
            raise Untranslatable(f"{c}.__init__ has parameters {[x.arg for x in a.args]}")
        body = [st for st in init.body if not (isinstance(st, ast.Expr) and isinstance(st.value, ast.Constant))]
        if c != "BaseAlgorithm":
            if not body or ast.unparse(body[0]) != "super().__init__(settings)":
                raise Untranslatable(f"{c}.__init__ does not start with super().__init__(settings)")
            if sum(1 for n in ast.walk(init) if isinstance(n, ast.Call) and "__init__" in ast.unparse(n.func)) != 1:
                raise Untranslatable(f"{c}.__init__ calls a constructor more than once")
        if c != MIXIN and _mentions(init, BURN_KEYS):
            raise Untranslatable(f"{c}.__init__ mentions n_burn_in_iter: the memory-less length is not decided by {MIXIN} alone")
        for tgt, st in _stores(init):
            if tgt.startswith("self.algo_parameters") or tgt.endswith("(...)"):
                ok = (c == "BaseAlgorithm" and ast.unparse(st) == "self.algo_parameters = deepcopy(settings.parameters)") or \
                     (c == MIXIN and tgt == "self.algo_parameters['n_burn_in_iter']") or \
                     (tgt.startswith("self.algo_parameters['annealing']"))
                if not ok:
                    raise Untranslatable(f"{c}.__init__ stores `{tgt}`")
        log.append(f"  {c}.__init__ ({classes[c][0]}:{init.lineno})")
    owner = next(c for c in mro if "_is_burn_in" in _methods(classes[c][1]))
    if owner != MIXIN:
        raise Untranslatable(f"_is_burn_in resolves to {owner}")
    return log


def run_facts() -> list[str]:
    """Facts about the fit algorithm that Compose/ScheduleOnRun.v relies on (see the module docstring, group A)."""
    norm = c11_run.norm
    log = []
    classes = {}
    for path, cname, _bases in c11_run.HIERARCHY:
        classes[cname] = (path, _class(path, cname))
    ms = _methods(classes["TensorMcmcSaemAlgorithm"][1]).get("_maximization_step")
    if ms is None:
        raise Untranslatable("_maximization_step not defined by TensorMcmcSaemAlgorithm")
    body = [st for st in ms.body if not (isinstance(st, ast.Expr) and isinstance(st.value, ast.Constant))]
    if len(body) != 3 or ast.unparse(body[0]) != norm(CSS) or not isinstance(body[1], ast.If) or ast.unparse(body[2]) != norm(UPD):
        raise Untranslatable("_maximization_step is not `statistics = compute(...); if ...: register update; update_parameters(...)`")
    reg_if = body[1]
    for cname, (path, cls) in classes.items():
        for mname, fn in _methods(cls).items():
            for tgt, st in _stores(fn):
                if tgt.startswith("self.sufficient_statistics"):
                    inside = any(n is st for n in ast.walk(reg_if))
                    if not (inside and tgt == "self.sufficient_statistics") and \
                            not (cname == "FitAlgorithm" and mname == "__init__" and ast.unparse(st) == norm("self.sufficient_statistics: Optional[DictParamsTorch] = None")):
                        raise Untranslatable(f"{cname}.{mname} stores the register: `{ast.unparse(st)[:80]}`")
                if tgt.startswith("self.algo_parameters") or tgt.endswith("(...)"):
                    ok = (cname == "BaseAlgorithm" and mname == "__init__" and ast.unparse(st) == "self.algo_parameters = deepcopy(settings.parameters)") or \
                         (cname == MIXIN and mname == "__init__" and tgt == "self.algo_parameters['n_burn_in_iter']") or \
                         (tgt.startswith("self.algo_parameters['annealing']")) or \
                         (cname == "BaseAlgorithm" and mname == "load_parameters")
                    if not ok:
                        raise Untranslatable(f"{cname}.{mname} stores `{tgt}`")
    ib = _methods(classes[MIXIN][1]).get("_is_burn_in")
    ibody = [st for st in ib.body if not (isinstance(st, ast.Expr) and isinstance(st.value, ast.Constant))] if ib else []
    if len(ibody) != 1 or ast.unparse(ibody[0]) != norm(IS_BURN_IN):
        raise Untranslatable("_is_burn_in is not `return self.current_iteration <= self.algo_parameters['n_burn_in_iter']`")
    log.append(f"_maximization_step = ASuffStats ; register update ; AMStep ({classes['TensorMcmcSaemAlgorithm'][0]}:{ms.lineno}); "
               f"register stored only at lines {sorted({n.lineno for n in ast.walk(reg_if) if isinstance(n, ast.Assign)})}")
    return log
