"""Fail-closed compiler of leaspy's simulate validation code (python ast) into the guarded-effect rows,
key lists and constants of coq/gen/GenC18.v  (T1 for C18).

`_check_params` is a loop over a literal requirement table whose body only tests membership, `isinstance`
and sign of one value and appends to three error lists that are tested for emptiness at the end.  The loop
is unrolled over the literal table (`_PARAM_REQUIREMENTS`), tests on the (then concrete) parameter name are
evaluated, and what remains of each iteration is emitted as a list of (guard atoms, effect) — the program
interpreted by `Leaspy.Api.Simulate.exec_stmts`.  Every construct outside that vocabulary raises
`Untranslatable`.
"""
from __future__ import annotations

import ast
from fractions import Fraction

from harness.translate.pysym import Untranslatable, dotted

KINDS = ["EMissing", "EType", "EValue"]


def _is_self_param_study(node) -> bool:
    return dotted(node) == "self.param_study"


def tyclass(node) -> str:
    src = ast.unparse(node).replace(" ", "")
    table = {"int": "TInt", "(int,float)": "TNum", "(float,int)": "TNum", "pd.DataFrame": "TFrame", "pandas.DataFrame": "TFrame"}
    if src not in table:
        raise Untranslatable(f"expected type {src}")
    return table[src]


class RowCompiler:
    """Compiles the body of one loop iteration (param concrete) or of the optional-key block."""

    def __init__(self, lists: dict, param_name: str | None, param: str, types_name: str | None, types_node, value_name="value"):
        self.lists = lists            # local list name -> effect kind
        self.param_name = param_name  # name of the loop variable holding the key (None: key is a literal)
        self.param = param
        self.types_name = types_name
        self.types_node = types_node
        self.value_name = value_name
        self.bound = False
        self.out: list[tuple[list[str], str]] = []

    # -- concrete evaluation of tests on the key
    def concrete(self, node):
        """True/False when the test only depends on the (concrete) key, else None."""
        if isinstance(node, ast.Compare) and len(node.ops) == 1 and isinstance(node.left, ast.Name) \
                and node.left.id == self.param_name and isinstance(node.comparators[0], ast.Constant) \
                and isinstance(node.comparators[0].value, str):
            if isinstance(node.ops[0], ast.Eq):
                return self.param == node.comparators[0].value
            if isinstance(node.ops[0], ast.NotEq):
                return self.param != node.comparators[0].value
        if isinstance(node, ast.Call) and isinstance(node.func, ast.Attribute) and isinstance(node.func.value, ast.Name) \
                and node.func.value.id == self.param_name and len(node.args) == 1 and isinstance(node.args[0], ast.Constant) \
                and isinstance(node.args[0].value, str) and not node.keywords:
            if node.func.attr == "endswith":
                return self.param.endswith(node.args[0].value)
            if node.func.attr == "startswith":
                return self.param.startswith(node.args[0].value)
        return None

    def is_key(self, node) -> bool:
        if self.param_name is not None and isinstance(node, ast.Name) and node.id == self.param_name:
            return True
        return isinstance(node, ast.Constant) and node.value == self.param

    def atoms(self, node):
        """Test -> True | False | list of atoms (short-circuit conjunction, left to right)."""
        c = self.concrete(node)
        if c is not None:
            return c
        if isinstance(node, ast.BoolOp) and isinstance(node.op, ast.And):
            acc: list[str] = []
            for v in node.values:
                a = self.atoms(v)
                if a is False:
                    return False if not acc else self._dead(acc)
                if a is True:
                    continue
                acc += a
            return acc if acc else True
        if isinstance(node, ast.Compare) and len(node.ops) == 1:
            op, left, right = node.ops[0], node.left, node.comparators[0]
            if isinstance(op, (ast.In, ast.NotIn)) and self.is_key(left) and _is_self_param_study(right):
                return ["APresent"] if isinstance(op, ast.In) else ["AMissing"]
            if isinstance(left, ast.Name) and left.id == self.value_name and isinstance(right, ast.Constant) \
                    and right.value == 0 and not isinstance(right.value, bool):
                if not self.bound:
                    raise Untranslatable("value compared before it is bound")
                if isinstance(op, ast.LtE):
                    return ["ACmp Le0"]
                if isinstance(op, ast.Lt):
                    return ["ACmp Lt0"]
        if isinstance(node, ast.UnaryOp) and isinstance(node.op, ast.Not) and isinstance(node.operand, ast.Call):
            call = node.operand
            if dotted(call.func) == "isinstance" and len(call.args) == 2 and isinstance(call.args[0], ast.Name) \
                    and call.args[0].id == self.value_name:
                if not self.bound:
                    raise Untranslatable("value tested before it is bound")
                t = call.args[1]
                if isinstance(t, ast.Name) and t.id == self.types_name:
                    t = self.types_node
                return [f"ANotInst {tyclass(t)}"]
        raise Untranslatable("test " + ast.unparse(node))

    @staticmethod
    def _dead(acc):
        # `a and False`: a is evaluated (may raise) but the branch is never taken; no such code today
        raise Untranslatable("conjunction with a statically false tail")

    def block(self, stmts, guard: list[str]):
        for st in stmts:
            if isinstance(st, ast.Expr) and isinstance(st.value, ast.Constant):
                continue
            if isinstance(st, ast.If):
                if st.orelse:
                    raise Untranslatable("else branch in a validation row")
                a = self.atoms(st.test)
                if a is False:
                    continue
                self.block(st.body, guard + ([] if a is True else a))
                continue
            if isinstance(st, ast.Continue):
                self.out.append((list(guard), "EContinue"))
                continue
            if isinstance(st, ast.Expr) and isinstance(st.value, ast.Call) and isinstance(st.value.func, ast.Attribute) \
                    and st.value.func.attr == "append" and isinstance(st.value.func.value, ast.Name):
                lst = st.value.func.value.id
                if lst not in self.lists:
                    raise Untranslatable(f"append to unknown list {lst}")
                self._pure_message(st.value.args)
                self.out.append((list(guard), self.lists[lst]))
                continue
            if isinstance(st, ast.Assign) and len(st.targets) == 1 and isinstance(st.targets[0], ast.Name):
                tgt = st.targets[0].id
                if tgt == self.value_name:
                    v = st.value
                    if not (isinstance(v, ast.Subscript) and _is_self_param_study(v.value) and self.is_key(v.slice)):
                        raise Untranslatable("value bound to " + ast.unparse(v))
                    # reading an absent key raises: the binding must not be reachable when the key is missing
                    if not self._excludes_missing(guard):
                        raise Untranslatable("value read where the key may be missing")
                    self.bound = True
                    continue
                if tgt in self.lists or tgt in (self.param_name, self.types_name):
                    raise Untranslatable("re-assignment of " + tgt)
                self._pure_message([st.value])      # a local only used to build a message
                self.msg_locals.add(tgt)
                continue
            raise Untranslatable("statement " + ast.unparse(st)[:80])

    msg_locals: set = set()

    def _excludes_missing(self, guard) -> bool:
        if "APresent" in guard:
            return True
        # top level of the loop body after `if missing: ...; continue`
        return not guard and any(g == ["AMissing"] and e == "EContinue" for g, e in self.out)

    def _pure_message(self, nodes):
        """Message-building expressions must not be able to raise or to change anything: names, constants,
        f-strings, type(x).__name__, isinstance, conditional expressions, list comprehensions over the type tuple."""
        ok = (ast.JoinedStr, ast.FormattedValue, ast.Constant, ast.Name, ast.Attribute, ast.Load, ast.IfExp, ast.ListComp,
              ast.comprehension, ast.Store, ast.Tuple)
        for n in nodes:
            for sub in ast.walk(n):
                if isinstance(sub, ast.Call):
                    if dotted(sub.func) not in ("type", "isinstance"):
                        raise Untranslatable("call in an error message: " + ast.unparse(sub))
                elif not isinstance(sub, ok):
                    raise Untranslatable("construct in an error message: " + type(sub).__name__)


def literal_requirements(cls: ast.ClassDef) -> dict:
    for st in cls.body:
        if isinstance(st, ast.Assign) and len(st.targets) == 1 and isinstance(st.targets[0], ast.Name) \
                and st.targets[0].id == "_PARAM_REQUIREMENTS":
            if not isinstance(st.value, ast.Dict):
                break
            out = {}
            for k, v in zip(st.value.keys, st.value.values):
                if not (isinstance(k, ast.Constant) and isinstance(k.value, str) and isinstance(v, ast.List)):
                    raise Untranslatable("_PARAM_REQUIREMENTS entry shape")
                rows = []
                for e in v.elts:
                    if not (isinstance(e, ast.Tuple) and len(e.elts) == 2 and isinstance(e.elts[0], ast.Constant)
                            and isinstance(e.elts[0].value, str)):
                        raise Untranslatable("requirement tuple shape")
                    rows.append((e.elts[0].value, e.elts[1]))
                out[k.value] = rows
            return out
    raise Untranslatable("no literal _PARAM_REQUIREMENTS")


def compile_check_params(fn: ast.FunctionDef, requirements: list) -> list:
    """-> rows [(key, [(guard atoms, effect)])] of `_check_params` for one literal requirement list."""
    if [a.arg for a in fn.args.args] != ["self", "requirements"]:
        raise Untranslatable("_check_params signature")
    body = [s for s in fn.body if not (isinstance(s, ast.Expr) and isinstance(s.value, ast.Constant))]
    lists: dict[str, str] = {}
    i = 0
    while i < len(body) and isinstance(body[i], ast.Assign) and isinstance(body[i].value, ast.List) and not body[i].value.elts \
            and len(body[i].targets) == 1 and isinstance(body[i].targets[0], ast.Name) and len(lists) < 3:
        lists[body[i].targets[0].id] = KINDS[len(lists)]
        i += 1
    if len(lists) != 3:
        raise Untranslatable("expected three error lists initialised to []")
    rows = []
    loop = body[i]
    if not (isinstance(loop, ast.For) and isinstance(loop.target, ast.Tuple) and len(loop.target.elts) == 2
            and all(isinstance(e, ast.Name) for e in loop.target.elts) and isinstance(loop.iter, ast.Name)
            and loop.iter.id == "requirements" and not loop.orelse):
        raise Untranslatable("expected `for param, expected_types in requirements:`")
    pname, tname = (e.id for e in loop.target.elts)
    for key, tnode in requirements:
        rc = RowCompiler(lists, pname, key, tname, tnode)
        rc.msg_locals = set()
        rc.block(loop.body, [])
        rows.append((key, rc.out))
    i += 1
    # optional-key blocks: `if "k" in self.param_study: ...`
    while i < len(body) and isinstance(body[i], ast.If) and isinstance(body[i].test, ast.Compare) \
            and isinstance(body[i].test.left, ast.Constant) and isinstance(body[i].test.left.value, str):
        key = body[i].test.left.value
        rc = RowCompiler(lists, None, key, None, None)
        rc.msg_locals = set()
        rc.block([body[i]], [])
        rows.append((key, rc.out))
        i += 1
    # tail: errors = []; if L: errors.append(..) for each list; if errors: raise LeaspyAlgoInputError
    tail = body[i:]
    if not (tail and isinstance(tail[0], ast.Assign) and isinstance(tail[0].value, ast.List) and not tail[0].value.elts
            and isinstance(tail[0].targets[0], ast.Name)):
        raise Untranslatable("expected `errors = []`")
    err = tail[0].targets[0].id
    seen = set()
    for st in tail[1:-1]:
        if not (isinstance(st, ast.If) and isinstance(st.test, ast.Name) and st.test.id in lists and not st.orelse
                and len(st.body) == 1 and isinstance(st.body[0], ast.Expr) and isinstance(st.body[0].value, ast.Call)
                and dotted(st.body[0].value.func) == f"{err}.append"):
            raise Untranslatable("tail statement " + ast.unparse(st)[:60])
        seen.add(st.test.id)
    if seen != set(lists):
        raise Untranslatable("an error list is never reported")
    last = tail[-1]
    if not (isinstance(last, ast.If) and isinstance(last.test, ast.Name) and last.test.id == err and not last.orelse
            and len(last.body) == 1 and isinstance(last.body[0], ast.Raise)
            and dotted(last.body[0].exc.func if isinstance(last.body[0].exc, ast.Call) else last.body[0].exc) == "LeaspyAlgoInputError"):
        raise Untranslatable("expected `if errors: raise LeaspyAlgoInputError(...)`")
    return rows


def coq_rows(rows) -> str:
    def s(k):
        return '"' + k + '"%string'
    items = []
    for key, stmts in rows:
        body = "; ".join("([" + "; ".join(g) + "], " + e + ")" for g, e in stmts)
        items.append(f"  ({s(key)}, [{body}])")
    return "[\n" + ";\n".join(items) + "\n]"


def const_float(node) -> Fraction:
    """Exact rational of a constant float expression (evaluated as python evaluates it)."""
    for sub in ast.walk(node):
        if not isinstance(sub, (ast.Constant, ast.BinOp, ast.UnaryOp, ast.Add, ast.Sub, ast.Mult, ast.Div, ast.USub, ast.Pow)):
            raise Untranslatable("not a constant expression: " + ast.unparse(node))
        if isinstance(sub, ast.Constant) and (isinstance(sub.value, bool) or not isinstance(sub.value, (int, float))):
            raise Untranslatable("not a numeric constant: " + ast.unparse(node))
    v = eval(compile(ast.Expression(node), "<const>", "eval"), {"__builtins__": {}})
    if isinstance(v, int):
        return Fraction(v)
    return Fraction(*float(v).as_integer_ratio())


def coq_q(f: Fraction) -> str:
    return f"({f.numerator} # {f.denominator})%Q"
