"""MANIFEST.setup_cmd: regenerate every translated model file from the working tree and build the whole
Coq development (full .vo build), offline."""
import importlib
import pkgutil
import sys
import time

from harness import props
from harness.common import Run, make, scan_forbidden, COQ


def main():
    t0 = time.time()
    ok = True
    for m in sorted(pkgutil.iter_modules(props.__path__), key=lambda m: m.name):
        mod = importlib.import_module(f"harness.props.{m.name}")
        if hasattr(mod, "translate"):
            run = Run(m.name.upper())
            try:
                good = mod.translate(run)
            except Exception as e:
                good = False
                print(f"translate {m.name}: {type(e).__name__}: {e}")
            if not good:
                print(f"translate {m.name}: FAILED", run._broken)
                ok = False
    hits = scan_forbidden()
    if hits:
        print("forbidden constructs:\n" + "\n".join(hits))
        ok = False
    good, out = make(None)
    if not good:
        print(out[-6000:])
        ok = False
    print(f"setup {'ok' if ok else 'FAILED'} in {time.time() - t0:.0f}s")
    return 0 if ok else 1


if __name__ == "__main__":
    sys.exit(main())
