"""Implementation-side runner for C15: builds the REAL `VariablesDAG` on toy graphs and prints what it observed.

Usage (sub-process, so that PYTHONHASHSEED can be varied):   python -m harness.dagrun <cases.json> <out.json>

A case is {"names": [insertion order of the variables dict], "anc": {name: [direct ancestor names]}, "mode": "ctor"|"from_dict"}
or (extension 4) {"mode": "defs", "names": [...], "defs": {name: None | <function description>}} — `from_dict` on definitions whose
functions have real python signatures of every kind / are NamedInputFunction's (see `make_callable`) — or
{"mode": "ctor_keys", "var_names": [keys of `variables`], "names": [keys of `direct_ancestors`], "anc": {...}}.
  ctor      -> VariablesDAG(variables, direct_ancestors={n: frozenset(...)})  with plain DataVariable / LinkedVariable objects
  from_dict -> VariablesDAG.from_dict({...})  where every non-root is LinkedVariable(<function with keyword-only parameters>)
               (a root is a DataVariable); the ancestors are then inferred by the real `get_ancestors_names`.
Result per case: {"err": [exception class bucket, code, message]} or
  {"order": [...], "dchildren": {n: sorted children}, "children": [[n, [...]], ...], "ancestors": [[n, [...]], ...]}
(the two association lists keep the insertion order of the dictionaries the code built).
"""
from __future__ import annotations

import json
import re
import sys


def classify(e: Exception):
    """(bucket, code): bucket = exception class as the caller sees it; code = which check fired (dag.py messages)."""
    from leaspy.exceptions import LeaspyInputError
    msg = str(e)
    if isinstance(e, LeaspyInputError):
        bucket = "LeaspyInputError"
    elif isinstance(e, ValueError):
        bucket = "ValueError"
    else:
        return type(e).__name__, 99
    if bucket == "ValueError" and "Inconsistent nodes" in msg:
        return bucket, 7
    if type(e).__name__ == "LeaspyModelInputError" and "keyword-only" in msg:
        return bucket, 8
    if bucket == "LeaspyInputError" and re.search(r"unknown", msg):
        return bucket, 1
    if bucket == "LeaspyInputError" and re.search(r"self", msg):
        return bucket, 2
    if bucket == "LeaspyInputError" and re.search(r"alone", msg):
        return bucket, 3
    if bucket == "ValueError" and re.search(r"not a DAG", msg):
        return bucket, (5 if "path matrix" in msg else 4)
    return bucket, 98


def make_fn(params):
    """A function with exactly the given keyword-only parameters (what LinkedVariable inspects)."""
    for p in params:
        if not p.isidentifier():
            raise ValueError(f"not an identifier: {p!r}")
    return eval("lambda *, " + ", ".join(params) + ": 0")  # noqa: S307 - names are identifiers checked above


def sig_source(sig):
    """Parameter list (python source) of a signature given as [[name, kind, has_default], ...] in python's order."""
    parts, slash_done, star_done = [], False, False
    kinds = [k for _, k, _ in sig]
    for i, (n, k, d) in enumerate(sig):
        if not n.isidentifier():
            raise ValueError(f"not an identifier: {n!r}")
        if k != "POSITIONAL_ONLY" and "POSITIONAL_ONLY" in kinds[:i] and not slash_done:
            parts.append("/")
            slash_done = True
        if k == "VAR_POSITIONAL":
            parts.append("*" + n)
            star_done = True
        elif k == "KEYWORD_ONLY":
            if not star_done:
                parts.append("*")
                star_done = True
            parts.append(n + ("=0" if d else ""))
        elif k == "VAR_KEYWORD":
            parts.append("**" + n)
        else:
            parts.append(n + ("=0" if d else ""))
    if "POSITIONAL_ONLY" in kinds and not slash_done:
        parts.append("/")
    return ", ".join(parts)


def seen_signature(f):
    """What python's own `inspect.signature` (standard library, NOT leaspy) reports of a callable."""
    import inspect
    try:
        return [[n, p.kind.name, p.default is not p.empty] for n, p in inspect.signature(f).parameters.items()]
    except (TypeError, ValueError):
        return None


def make_callable(desc):
    """Build the function a description denotes.  Forms:
      def / lambda : {"sig": [[name, kind, has_default], ...]}        a real python function with that signature
      partial      : {"base": <def|lambda>, "npos": k, "kw": [names]}  functools.partial(base, *k values, **{name: 0})
      named        : {"inner": <def|lambda>, "params": [...]}          NamedInputFunction(f=inner, parameters=tuple(params))
      bound        : {"params": [...], "kws": [...]}                   NamedInputFunction.bound_to(variadic f)( *params, **kws)
      factory      : {"factory": "Sum"|..., "params": [...]}           leaspy.utils.functional.<factory>( *params)
      then         : {"base": <named|bound|factory|then>, "outer": <def|lambda>, "g_kws": [...]}   base.then(outer, **g_kws)"""
    import functools
    form = desc["form"]
    if form == "def":
        ns = {}
        exec("def fn(" + sig_source(desc["sig"]) + "):\n    return 0\n", ns)  # noqa: S102 - identifiers checked by sig_source
        return ns["fn"]
    if form == "lambda":
        return eval("lambda " + sig_source(desc["sig"]) + ": 0")  # noqa: S307
    if form == "partial":
        return functools.partial(make_callable(desc["base"]), *([0] * desc.get("npos", 0)), **{k: 0 for k in desc.get("kw", [])})
    from leaspy.utils import functional as F
    from leaspy.utils.functional import NamedInputFunction
    if form == "named":
        return NamedInputFunction(f=make_callable(desc["inner"]), parameters=tuple(desc["params"]))
    if form == "bound":
        def variadic(*a, **k):
            return 0
        return NamedInputFunction.bound_to(variadic)(*desc["params"], **{k: 0 for k in desc.get("kws", [])})
    if form == "factory":
        return getattr(F, desc["factory"])(*desc["params"])
    if form == "then":
        return make_callable(desc["base"]).then(make_callable(desc["outer"]), **{k: 0 for k in desc.get("g_kws", [])})
    raise ValueError(f"unknown form {form}")


def build_defs(case, info):
    """`from_dict` on real definitions; `info` receives what python reports of the plain functions and, once the variables
    exist, the ancestors each one declares."""
    from leaspy.variables.dag import VariablesDAG
    from leaspy.variables.specs import DataVariable, LinkedVariable
    fns = {n: (make_callable(d) if d is not None else None) for n, d in case["defs"].items()}
    info["sigs"] = {n: (seen_signature(f) if f is not None and case["defs"][n]["form"] in ("def", "lambda", "partial") else None)
                    for n, f in fns.items()}
    variables = {n: (LinkedVariable(fns[n]) if fns[n] is not None else DataVariable()) for n in case["names"]}
    info["parents"] = {n: sorted(v.get_ancestors_names()) for n, v in variables.items()}
    return VariablesDAG.from_dict(variables)


def build_one(case, info=None):
    from leaspy.variables.dag import VariablesDAG
    from leaspy.variables.specs import DataVariable, LinkedVariable
    mode = case.get("mode", "ctor")
    if mode == "defs":
        return build_defs(case, info if info is not None else {})
    names, anc = case["names"], case["anc"]
    if mode == "ctor_keys":
        variables = {n: (LinkedVariable(lambda *, p_: 0) if anc.get(n) else DataVariable()) for n in case["var_names"]}
        return VariablesDAG(variables, direct_ancestors={n: frozenset(anc[n]) for n in names})
    if mode == "from_dict":
        variables = {n: (LinkedVariable(make_fn(anc[n])) if anc[n] else DataVariable()) for n in names}
        return VariablesDAG.from_dict(variables)
    variables = {n: (LinkedVariable(lambda *, p_: 0) if anc[n] else DataVariable()) for n in names}
    return VariablesDAG(variables, direct_ancestors={n: frozenset(anc[n]) for n in names})


def observe(case):
    info = {}
    try:
        d = build_one(case, info)
    except Exception as e:  # the refusal is the observation
        b, c = classify(e)
        return dict(info, err=[b, c, str(e)[:200]])
    if case.get("mode") == "defs":
        info["dag_parents"] = {n: sorted(v) for n, v in d.direct_ancestors.items()}
    return {
        **info,
        "order": list(d.sorted_variables_names),
        "dchildren": {n: sorted(d.direct_children[n]) for n in d.direct_children},
        "children": [[n, list(v)] for n, v in d.sorted_children.items()],
        "ancestors": [[n, list(v)] for n, v in d.sorted_ancestors.items()],
    }


def main(argv):
    from harness.common import use_impl
    use_impl()
    cases = json.load(open(argv[1]))
    out = [observe(c) for c in cases]
    json.dump(out, open(argv[2], "w"))
    return 0


if __name__ == "__main__":
    sys.exit(main(sys.argv))
