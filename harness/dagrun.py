"""Implementation-side runner for C15: builds the REAL `VariablesDAG` on toy graphs and prints what it observed.

Usage (sub-process, so that PYTHONHASHSEED can be varied):   python -m harness.dagrun <cases.json> <out.json>

A case is {"names": [insertion order of the variables dict], "anc": {name: [direct ancestor names]}, "mode": "ctor"|"from_dict"}.
  ctor      -> VariablesDAG(variables, direct_ancestors={n: frozenset(...)})  with plain DataVariable / LinkedVariable objects
  from_dict -> VariablesDAG.from_dict({...})  where every non-root is LinkedVariable(<function with keyword-only parameters>)
               (a root is a DataVariable); the ancestors are then inferred by the real `get_ancestors_names`.
Result per case: {"err": [exception class bucket, code, message]} or
  {"order": [...], "dchildren": {n: sorted children}, "children": [[n, [...]], ...], "ancestors": [[n, [...]], ...]}
(the two association lists keep the insertion order of the dictionaries the code built).
"""
from __future__ import annotations

import json
import re
import sys


def classify(e: Exception):
    """(bucket, code): bucket = exception class as the caller sees it; code = which check fired (dag.py messages)."""
    from leaspy.exceptions import LeaspyInputError
    msg = str(e)
    if isinstance(e, LeaspyInputError):
        bucket = "LeaspyInputError"
    elif isinstance(e, ValueError):
        bucket = "ValueError"
    else:
        return type(e).__name__, 99
    if bucket == "LeaspyInputError" and re.search(r"unknown", msg):
        return bucket, 1
    if bucket == "LeaspyInputError" and re.search(r"self", msg):
        return bucket, 2
    if bucket == "LeaspyInputError" and re.search(r"alone", msg):
        return bucket, 3
    if bucket == "ValueError" and re.search(r"not a DAG", msg):
        return bucket, (5 if "path matrix" in msg else 4)
    return bucket, 98


def make_fn(params):
    """A function with exactly the given keyword-only parameters (what LinkedVariable inspects)."""
    for p in params:
        if not p.isidentifier():
            raise ValueError(f"not an identifier: {p!r}")
    return eval("lambda *, " + ", ".join(params) + ": 0")  # noqa: S307 - names are identifiers checked above


def build_one(case):
    from leaspy.variables.dag import VariablesDAG
    from leaspy.variables.specs import DataVariable, LinkedVariable
    names, anc, mode = case["names"], case["anc"], case.get("mode", "ctor")
    if mode == "from_dict":
        variables = {n: (LinkedVariable(make_fn(anc[n])) if anc[n] else DataVariable()) for n in names}
        return VariablesDAG.from_dict(variables)
    variables = {n: (LinkedVariable(lambda *, p_: 0) if anc[n] else DataVariable()) for n in names}
    return VariablesDAG(variables, direct_ancestors={n: frozenset(anc[n]) for n in names})


def observe(case):
    try:
        d = build_one(case)
    except Exception as e:  # the refusal is the observation
        b, c = classify(e)
        return {"err": [b, c, str(e)[:200]]}
    return {
        "order": list(d.sorted_variables_names),
        "dchildren": {n: sorted(d.direct_children[n]) for n in d.direct_children},
        "children": [[n, list(v)] for n, v in d.sorted_children.items()],
        "ancestors": [[n, list(v)] for n, v in d.sorted_ancestors.items()],
    }


def main(argv):
    from harness.common import use_impl
    use_impl()
    cases = json.load(open(argv[1]))
    out = [observe(c) for c in cases]
    json.dump(out, open(argv[2], "w"))
    return 0


if __name__ == "__main__":
    sys.exit(main(sys.argv))
