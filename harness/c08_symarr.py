"""Array-valued symbolic tensors for the C08 translator: a small extension of harness/translate/formulas.py.

`formulas.Sym` is a SCALAR symbol: indexing, transposition and `stack` are erased and `matmul` is untraceable, which is why
the first C08 traces covered one source and one cluster only.  `SymArr` is a (1-D or 2-D) array of traced scalar
expressions with a real shape: indexing, `t`/`transpose`/`.T`, `squeeze`/`unsqueeze`, `stack`, `matmul` and `sum` are
EXECUTED on the array of expressions (nothing is erased), arithmetic is element-wise with numpy broadcasting rules
(= torch's).  So `torch.matmul(sources, zeta)` of a (1, m) array of symbols and an (m, E) array of symbols yields the
(1, E) array `[sum_s sources_s * zeta_s_e]_e`, and `MixtureNormalFamily._nll` on K-cluster parameter vectors yields the K
per-cluster expressions.  Fail closed: any other torch function raises `Untraceable`.
"""
from __future__ import annotations

from fractions import Fraction

import numpy as np
import torch

from harness.translate import formulas as F

Untraceable = F.Untraceable


class _E:
    """box around an expression tuple (numpy would otherwise unpack tuples stored in an object array)"""
    __slots__ = ("x",)

    def __init__(self, x):
        self.x = x


def _box(exprs, shape):
    a = np.empty(shape, dtype=object)
    flat = list(exprs)
    if a.size != len(flat):
        raise Untraceable(f"{len(flat)} expressions for shape {shape}")
    for i, ix in enumerate(np.ndindex(*shape)):
        a[ix] = _E(flat[i])
    return a


def _wrap(a):
    """object array (or box) -> Sym (0-d) / SymArr"""
    if isinstance(a, _E):
        return F.Sym(a.x)
    if a.ndim == 0:
        return F.Sym(a[()].x)
    return SymArr(a)


def _arr(a, name):
    """argument -> numpy object array of boxes"""
    if isinstance(a, SymArr):
        return a.items
    if isinstance(a, F.Sym):
        return _box([a.expr], ())
    if isinstance(a, torch.Tensor):
        with torch._C.DisableTorchFunctionSubclass():
            vals = a.detach().double().reshape(-1).tolist()
        return _box([("const", F._rat(v)) for v in vals], tuple(a.shape))
    if isinstance(a, (int, float, bool)):
        return _box([("const", F._rat(a))], ())
    raise Untraceable(f"argument of type {type(a).__name__} in {name}")


def _map(f, *arrs):
    bs = np.broadcast_arrays(*arrs)
    out = np.empty(bs[0].shape, dtype=object)
    for ix in np.ndindex(*out.shape):
        out[ix] = _E(f(*[b[ix].x for b in bs]))
    return out


def _fold_add(boxes):
    boxes = list(boxes)
    acc = boxes[0].x
    for b in boxes[1:]:
        acc = ("add", acc, b.x)
    return _E(acc)


def symarr(names, shape) -> "SymArr":
    """array of fresh variables named `names` (row-major)"""
    return SymArr(_box([("var", n) for n in names], tuple(shape)))


class SymArr(F.Sym):
    """array of traced scalar expressions (see the module docstring)"""

    @staticmethod
    def __new__(cls, items):
        t = torch.Tensor._make_subclass(cls, torch.zeros(items.shape))
        t.items = items
        t.expr = ("array-valued",)          # not emittable: an array reaching a scalar definition fails closed
        return t

    def __repr__(self):
        return f"SymArr{tuple(self.items.shape)}"

    def exprs(self):
        return [b.x for b in self.items.reshape(-1)]

    def at(self, *idx):
        return self.items[idx].x

    @classmethod
    def __torch_function__(cls, func, types, args=(), kwargs=None):
        kwargs = kwargs or {}
        name = getattr(func, "__name__", str(func))
        A = lambda a: _arr(a, name)  # noqa: E731

        if name == "__get__":
            prop = getattr(func, "__self__", None)
            if prop is torch.Tensor.T or prop is getattr(torch.Tensor, "mT", None):
                a = A(args[0])
                if a.ndim != 2:
                    raise Untraceable(".T of a non-matrix symbolic array")
                return _wrap(a.T)
            with torch._C.DisableTorchFunctionSubclass():
                return func(*args, **kwargs)
        if name in ("dim", "size", "numel", "ndimension", "is_floating_point", "__len__", "is_complex", "element_size"):
            with torch._C.DisableTorchFunctionSubclass():
                return func(*args, **kwargs)
        if name in F.BIN and len(args) == 2 and not kwargs:
            k = F.BIN[name]
            return _wrap(_map(lambda x, y: (k, x, y), A(args[0]), A(args[1])))
        if name in ("__rsub__", "rsub") and len(args) == 2:
            return _wrap(_map(lambda x, y: ("sub", y, x), A(args[0]), A(args[1])))
        if name in ("__rtruediv__", "__rdiv__") and len(args) == 2:
            return _wrap(_map(lambda x, y: ("div", y, x), A(args[0]), A(args[1])))
        if name in ("pow", "__pow__") and len(args) == 2:
            return _wrap(_map(lambda x, y: ("pow", x, y), A(args[0]), A(args[1])))
        if name == "__rpow__" and len(args) == 2:
            return _wrap(_map(lambda x, y: ("pow", y, x), A(args[0]), A(args[1])))
        if name in F.UN and len(args) == 1 and not kwargs:
            k = F.UN[name]
            return _wrap(_map(lambda x: (k, x), A(args[0])))
        if name in F.CMP and len(args) == 2:
            k = F.CMP[name]
            return _wrap(_map(lambda x, y: (k, x, y), A(args[0]), A(args[1])))
        if name == "where" and len(args) == 3:
            return _wrap(_map(lambda c, x, y: ("where", c, x, y), A(args[0]), A(args[1]), A(args[2])))
        if name == "clamp":
            lo = kwargs.get("min", args[1] if len(args) > 1 else None)
            hi = kwargs.get("max", args[2] if len(args) > 2 else None)
            out = A(args[0])
            if lo is not None:
                out = _map(lambda x, y: ("max2", x, y), out, A(lo))
            if hi is not None:
                out = _map(lambda x, y: ("min2", x, y), out, A(hi))
            return _wrap(out)
        if name == "__getitem__" and len(args) == 2:
            idx = args[1]
            parts = idx if isinstance(idx, tuple) else (idx,)
            if not all(isinstance(p, (int, slice)) or p is None or p is Ellipsis for p in parts):
                raise Untraceable("indexing a symbolic array with a non-static index")
            return _wrap(A(args[0])[idx])
        if name in ("to", "clone", "float", "double", "contiguous", "detach", "type"):
            return args[0]
        if name == "squeeze":
            a = A(args[0])
            d = kwargs.get("dim", args[1] if len(args) > 1 else None)
            if d is None:
                return _wrap(np.squeeze(a))
            return _wrap(np.squeeze(a, axis=d) if a.shape[d] == 1 else a)
        if name == "unsqueeze":
            return _wrap(np.expand_dims(A(args[0]), kwargs.get("dim", args[1] if len(args) > 1 else None)))
        if name in ("t", "transpose", "permute"):
            a = A(args[0])
            if name == "t":
                if a.ndim > 2:
                    raise Untraceable("t() of an array with more than 2 dimensions")
                return _wrap(a.T)
            if name == "transpose":
                d0 = kwargs.get("dim0", args[1] if len(args) > 1 else None)
                d1 = kwargs.get("dim1", args[2] if len(args) > 2 else None)
                return _wrap(np.swapaxes(a, d0, d1))
            dims = args[1:] if len(args) > 2 or not isinstance(args[1], (tuple, list)) else tuple(args[1])
            return _wrap(np.transpose(a, dims))
        if name in ("expand", "broadcast_to", "expand_as", "reshape", "view"):
            a = A(args[0])
            if name == "expand_as":
                shape = tuple(args[1].shape)
            else:
                shape = tuple(args[1]) if len(args) == 2 and isinstance(args[1], (tuple, list, torch.Size)) else tuple(args[1:])
            if name in ("reshape", "view"):
                return _wrap(a.reshape(shape))
            shape = tuple(a.shape[i - (len(shape) - a.ndim)] if s == -1 else s for i, s in enumerate(shape))
            return _wrap(np.broadcast_to(a, shape))
        if name == "stack":
            pieces = args[0] if args else kwargs.get("tensors")
            d = kwargs.get("dim", args[1] if len(args) > 1 else 0)
            if not isinstance(pieces, (tuple, list)) or not pieces:
                raise Untraceable("stack of something that is not a list")
            return _wrap(np.stack([A(p) for p in pieces], axis=d))
        if name in ("matmul", "__matmul__", "mm") and len(args) == 2 and not kwargs:
            a, b = A(args[0]), A(args[1])
            if a.ndim not in (1, 2) or b.ndim != 2 or a.shape[-1] != b.shape[0]:
                raise Untraceable(f"matmul of symbolic arrays of shapes {a.shape} x {b.shape}")
            rows = a.reshape(1, -1) if a.ndim == 1 else a
            out = np.empty((rows.shape[0], b.shape[1]), dtype=object)
            for i in range(rows.shape[0]):
                for j in range(b.shape[1]):
                    out[i, j] = _fold_add(_E(("mul", rows[i, s].x, b[s, j].x)) for s in range(b.shape[0]))
            return _wrap(out[0] if a.ndim == 1 else out)
        if name in ("sum", "nansum") and len(args) == 1:
            a = A(args[0])
            d = kwargs.get("dim")
            if d is None:
                if set(kwargs) - {"dim"}:
                    raise Untraceable(f"sum with {sorted(kwargs)}")
                return _wrap(_fold_add(a.reshape(-1)))
            ds = sorted({x % a.ndim for x in ((d,) if isinstance(d, int) else tuple(d))}, reverse=True)
            keep = bool(kwargs.get("keepdim", False))
            for ax in ds:
                moved = np.moveaxis(a, ax, -1)
                red = np.empty(moved.shape[:-1], dtype=object)
                for ix in np.ndindex(*red.shape):
                    red[ix] = _fold_add(moved[ix])
                a = np.expand_dims(red, ax) if keep else red
            return _wrap(a)
        if name in ("all", "any", "isfinite", "isnan"):      # only used in shape / weight assertions
            return torch.tensor(True)
        if name == "broadcast_tensors":
            return tuple(_wrap(b) for b in np.broadcast_arrays(*[A(a) for a in args]))
        raise Untraceable(f"untranslated torch function `{name}` on a symbolic array")


class stack_of_symbols:
    """`with stack_of_symbols(): ...` - while tracing, `torch.stack` of SCALAR symbols builds a SymArr (the scalar tracer
    reaches `EXTRA_FUNCS` for a function it does not know)."""

    def __enter__(self):
        self.saved = dict(F.EXTRA_FUNCS)

        def stack(args, kwargs, e):
            return SymArr.__torch_function__(torch.stack, (), args, kwargs)

        def matmul(args, kwargs, e):
            return SymArr.__torch_function__(torch.matmul, (), args, kwargs)

        F.EXTRA_FUNCS["stack"] = stack
        F.EXTRA_FUNCS["matmul"] = matmul
        return self

    def __exit__(self, *exc):
        F.EXTRA_FUNCS.clear()
        F.EXTRA_FUNCS.update(self.saved)
        return False


_ = Fraction  # (kept for type clarity of the constants carried by the expressions)
