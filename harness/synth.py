"""Synthetic cohorts and model builders shared by the implementation-side harnesses.

Everything is deterministic in (seed, arguments); the data are generated with python's `random`
(never numpy/torch global generators, so building a cohort does not disturb seeded runs)."""
from __future__ import annotations

import math
import random
import warnings

KINDS = ["logistic", "linear", "shared_speed_logistic", "joint", "mixture_logistic"]


def make_df(n_ind=12, n_feat=3, seed=0, missing=0.0, visits=(3, 6), joint=False, kind="logistic",
            id_prefix="s", whole_visit_missing=0.0, binary=False):
    """A long-format DataFrame (ID, TIME[, EVENT_TIME, EVENT_BOOL], Y0..) following a logistic/linear law."""
    import pandas as pd
    rng = random.Random(seed * 7919 + n_ind * 31 + n_feat)
    rows = []
    for i in range(n_ind):
        tau = 70 + rng.gauss(0, 5)
        xi = rng.gauss(0, 0.4)
        nv = rng.randint(*visits)
        t0 = tau + rng.uniform(-8, 2)
        ages = sorted({round(t0 + j * rng.uniform(0.5, 1.5) + rng.uniform(0, 0.3), 3) for j in range(nv)})
        ev_t = round(max(ages) + rng.uniform(0.1, 6.0), 3)
        ev_b = rng.random() < 0.6
        for a in ages:
            vals = []
            for f in range(n_feat):
                rt = math.exp(xi) * (a - tau)
                if kind == "linear":
                    y = 0.4 + 0.1 * f + 0.03 * rt + rng.gauss(0, 0.03)
                else:
                    y = 1 / (1 + math.exp(-(0.25 * rt - 0.5 * f))) + rng.gauss(0, 0.04)
                    y = min(max(y, 0.001), 0.999)
                if binary:
                    y = float(rng.random() < y)
                if rng.random() < missing:
                    y = float("nan")
                vals.append(y)
            if rng.random() < whole_visit_missing:
                vals = [float("nan")] * n_feat
            row = {"ID": f"{id_prefix}{i:03d}", "TIME": a}
            if joint:
                row["EVENT_TIME"] = ev_t
                row["EVENT_BOOL"] = int(ev_b)
            for f, v in enumerate(vals):
                row[f"Y{f}"] = v
            rows.append(row)
    df = pd.DataFrame(rows)
    return ensure_events(df) if joint else df


def ensure_events(df):
    """A joint cohort must hold at least one observed and one censored event (the joint reader refuses it otherwise — a documented
    requirement, not a property failure): when the draw (or a sub-cohort) lacks one of the two, the indicator of the first
    (resp. last) individual is set accordingly.  Deterministic; a single-individual cohort is returned unchanged."""
    if "EVENT_BOOL" not in df.columns:
        return df
    ids = list(dict.fromkeys(df["ID"]))
    if len(ids) < 2:
        return df
    df = df.copy()
    if not (df["EVENT_BOOL"] == 1).any():
        df.loc[df["ID"] == ids[0], "EVENT_BOOL"] = 1
    if not (df["EVENT_BOOL"] == 0).any():
        df.loc[df["ID"] == ids[-1], "EVENT_BOOL"] = 0
    return df


def make_model(kind="logistic", n_feat=3, source_dimension=None, noise=None, name=None, **kw):
    from leaspy.models import model_factory
    from leaspy.models.obs_models import observation_model_factory
    hp = dict(kw)
    if kind == "mixture_logistic":
        hp.setdefault("n_clusters", 2)
        hp["dimension"] = n_feat
        hp["source_dimension"] = source_dimension if source_dimension else min(2, n_feat - 1)
        return model_factory(kind, name, **hp)
    if n_feat == 1:
        hp["dimension"] = 1
    else:
        if kind != "joint" or noise == "gaussian-diagonal":
            hp["dimension"] = n_feat
        if source_dimension is not None:
            hp["source_dimension"] = source_dimension
    if noise is not None and kind != "joint":
        if noise == "gaussian-diagonal":
            hp["obs_models"] = observation_model_factory(noise, dimension=n_feat)
        else:
            hp["obs_models"] = observation_model_factory(noise)
    elif noise is not None and kind == "joint":
        if noise == "gaussian-diagonal":
            hp["obs_models"] = observation_model_factory(noise, dimension=n_feat)
    return model_factory(kind, name, **hp)


def make_data(df, kind="logistic"):
    from leaspy.io.data import Data
    if kind == "joint":
        return Data.from_dataframe(df, data_type="joint")
    return Data.from_dataframe(df)


def fit(kind="logistic", n_iter=8, seed=0, n_ind=12, n_feat=3, source_dimension=None, noise=None, missing=0.0,
        df=None, model=None, **algo_kw):
    """Fit a fresh model of `kind` on a synthetic cohort; returns (model, df)."""
    if df is None:
        df = make_df(n_ind=n_ind, n_feat=n_feat, seed=seed, missing=missing, joint=(kind == "joint"), kind=kind,
                     binary=(noise == "bernoulli"))
    if model is None:
        model = make_model(kind, n_feat, source_dimension, noise)
    algo_kw.setdefault("progress_bar", False)
    with warnings.catch_warnings():
        warnings.simplefilter("ignore")
        import io, contextlib
        with contextlib.redirect_stdout(io.StringIO()):
            model.fit(make_data(df, kind), "mcmc_saem", n_iter=n_iter, seed=seed, **algo_kw)
    return model, df
