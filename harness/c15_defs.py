"""C15 (extension 4) — T2 for `VariablesDAG.from_dict` / `get_named_parameters` / `NamedInputFunction.then` / the key-set check.

Cases are variable DEFINITIONS whose functions have real python signatures of every parameter kind (keyword-only with and
without default, positional-only, positional-or-keyword, *args, **kwargs), are lambdas, `functools.partial` objects,
`NamedInputFunction`s (direct, `bound_to` factories, the shipped `Sum`/`Prod`/`Exp`/`Sqr`/`Identity`) or compositions with `.then`
(outer functions and `g_kws` named like OTHER variables).  `harness/dagrun.py` builds them with the real code; the model
`Dag.FromDict.from_dict` is run on the same definitions inside Coq (`from_dict_agrees`: outcome + the parents of every variable).
Constructor cases with their own key sets go through `ctor_agrees`.

The description of a plain function handed to Coq is what python's `inspect.signature` (standard library) reports of it; for
`def` / `lambda` it must equal the signature the harness wrote (else the harness itself is broken)."""
from __future__ import annotations

import itertools

from harness.common import coq_list

KINDS = ["POSITIONAL_ONLY", "POSITIONAL_OR_KEYWORD", "VAR_POSITIONAL", "KEYWORD_ONLY", "VAR_KEYWORD"]
COQ_KIND = dict(zip(KINDS, ["PosOnly", "PosOrKw", "VarPos", "KwOnly", "VarKw"]))
HDR = "From Coq Require Import List.\nFrom Leaspy Require Import Dag.DagModel Dag.GraphLit Dag.FromDict.\nImport ListNotations.\n"


def kw(names, defaults=()):
    return [[n, "KEYWORD_ONLY", n in defaults] for n in names]


# ----------------------------------------------------------------------------- what the harness expects (python, no leaspy, no Coq)


def expected_parents(desc, seen):
    """Names the property calls the parents of a definition, or None when its function cannot be a LinkedVariable function."""
    if desc is None:
        return []
    form = desc["form"]
    if form in ("def", "lambda", "partial"):
        if seen is None:
            return None
        if any(k != "KEYWORD_ONLY" for _, k, _ in seen):
            return None
        return [n for n, _, _ in seen]
    if form in ("named", "bound", "factory"):
        return list(desc["params"])
    if form == "then":
        return expected_parents(desc["base"], None)
    raise ValueError(form)


def all_identifiers(desc, out):
    if desc is None or desc["form"] == "indep":
        return
    for key in ("sig",):
        for n, _, _ in desc.get(key, []):
            out.add(n)
    for key in ("params", "kws", "g_kws", "kw"):
        out.update(desc.get(key, []))
    for key in ("base", "inner", "outer"):
        if key in desc:
            all_identifiers(desc[key], out)


# ----------------------------------------------------------------------------- Coq literals


def nat_list(l):
    return coq_list(str(int(x)) for x in l)


def sig_lit(sig, rank):
    return coq_list(f"mkParam {rank[n]} {COQ_KIND[k]} {'true' if d else 'false'}" for n, k, d in sig)


def nif_lit(desc, rank):
    form = desc["form"]
    if form == "named":
        return f"(mkNif {sig_lit(desc['inner']['sig'], rank)} {nat_list(rank[p] for p in desc['params'])} [])"
    if form in ("bound", "factory"):
        return f"(bound_to [] {nat_list(rank[p] for p in desc['params'])} {nat_list(rank[p] for p in desc.get('kws', []))})"
    if form == "then":
        return f"(nif_then {nif_lit(desc['base'], rank)} {sig_lit(desc['outer']['sig'], rank)} {nat_list(rank[p] for p in desc.get('g_kws', []))})"
    raise ValueError(form)


def vdef_lit(desc, seen, rank):
    if desc is None:
        return "DIndep KData"
    if desc["form"] == "indep":
        return "DIndep " + desc["kind"]
    if desc["form"] in ("def", "lambda", "partial"):
        return f"DLinked (CPlain {sig_lit(seen, rank)})"
    return f"DLinked (CNamed {nif_lit(desc, rank)})"


def observed_lit(obs, real, snames):
    if "err" in obs:
        return f"inl {obs['err'][1]}"
    order = [real[n] for n in obs["order"]]
    dch = [[real[c] for c in obs["dchildren"].get(n, ["<missing>"])] for n in snames]
    assoc = lambda l: coq_list(f"({real[k]}, {nat_list(real[c] for c in v)})" for k, v in l)  # noqa: E731
    return f"inr ({nat_list(order)}, {coq_list(nat_list(c) for c in dch)}, {assoc(obs['children'])}, {assoc(obs['ancestors'])})"


def defs_literal(case, obs):
    """Coq literal `(definitions, observed outcome, observed parents)`; raises KeyError on a foreign name in the result."""
    snames = sorted(case["names"])
    ids = set()
    for d in case["defs"].values():
        all_identifiers(d, ids)
    for sig in (obs.get("sigs") or {}).values():
        for n, _, _ in (sig or []):
            ids.add(n)
    rank = {n: i for i, n in enumerate(snames)}
    real = dict(rank)
    for k, n in enumerate(sorted(ids - set(snames))):
        rank[n] = len(snames) + k
    sigs = obs.get("sigs") or {}
    ds = coq_list(vdef_lit(case["defs"][n], sigs.get(n), rank) for n in snames)
    par = obs.get("parents")
    plit = coq_list(nat_list(sorted(rank[p] for p in par[n])) for n in snames) if par is not None else "[]"
    return f"({ds}, {observed_lit(obs, real, snames)}, {plit})"


def ctor_literal(case, obs):
    keys = sorted(case["names"])
    rank = {n: i for i, n in enumerate(keys)}
    real = dict(rank)
    others = sorted((set(case["var_names"]) | {p for ps in case["anc"].values() for p in ps}) - set(keys))
    for k, n in enumerate(others):
        rank[n] = len(keys) + k
    g = coq_list(nat_list(sorted(rank[p] for p in set(case["anc"][n]))) for n in keys)
    return f"({nat_list(rank[n] for n in case['var_names'])}, {g}, {observed_lit(obs, real, keys)})"


# ----------------------------------------------------------------------------- generators


def valid_signatures(names, max_len):
    """Every python-valid signature with <= max_len parameters drawn (in every order) from `names`, over the five kinds, with and
    without defaults."""
    out = []
    for k in range(max_len + 1):
        for ns in itertools.permutations(names, k):
            for kinds in itertools.product(range(5), repeat=k):
                if any(kinds[i] > kinds[i + 1] for i in range(k - 1)) or kinds.count(2) > 1 or kinds.count(4) > 1:
                    continue
                for dflt in itertools.product([False, True], repeat=k):
                    if any(dflt[i] and kinds[i] in (2, 4) for i in range(k)):
                        continue
                    pos = [i for i in range(k) if kinds[i] in (0, 1)]
                    if any(dflt[i] and not dflt[j] for i in pos for j in pos if j > i):
                        continue
                    out.append([[ns[i], KINDS[kinds[i]], dflt[i]] for i in range(k)])
    return out


def exhaustive_signature_cases(thorough):
    """One derived variable `v` over the roots `a`, `b` (`zz`: a name that is no variable): every valid signature of <= 2 (quick) /
    3 (thorough) parameters, as a `def` and as a `lambda`."""
    cases = []
    for j, sig in enumerate(valid_signatures(["a", "b", "zz"], 3 if thorough else 2)):
        form = "def" if j % 2 == 0 else "lambda"
        cases.append(dict(mode="defs", names=["a", "b", "v"], defs=dict(a=None, b=None, v=dict(form=form, sig=sig)),
                          family="defs:exhaustive-signature"))
    # all five kinds in one signature
    full = [["p", "POSITIONAL_ONLY", False], ["a", "POSITIONAL_OR_KEYWORD", True], ["r", "VAR_POSITIONAL", False],
            ["b", "KEYWORD_ONLY", True], ["k", "VAR_KEYWORD", False]]
    cases.append(dict(mode="defs", names=["a", "b", "v"], defs=dict(a=None, b=None, v=dict(form="def", sig=full)), family="defs:exhaustive-signature"))
    return cases


BAD_KINDS = ["POSITIONAL_ONLY", "POSITIONAL_OR_KEYWORD", "VAR_POSITIONAL", "VAR_KEYWORD"]


def realise(rng, name, parents, names, allow_defect):
    """A function description whose named parameters are `parents` (in a random order), written in a random way."""
    ps = list(parents)
    rng.shuffle(ps)
    others = [n for n in names if n not in parents and n != name] or ["zz_other"]
    forms = ["def", "lambda", "defaults", "partial-kw", "partial-pos", "named", "named-dup", "bound", "factory", "then", "then", "then-then"]
    form = rng.choice(forms)
    if allow_defect and rng.random() < 0.5:
        bad = rng.choice(BAD_KINDS)
        extra = rng.choice(others + ["args_", "kwargs_"])
        sig = kw(ps, defaults=set(rng.sample(ps, rng.randint(0, len(ps)))))
        if bad in ("POSITIONAL_ONLY", "POSITIONAL_OR_KEYWORD"):
            # either an extra positional parameter or (more insidious) one of the real parents taken positionally
            if ps and rng.random() < 0.5:
                first = ps[0]
                sig = [[first, bad, False]] + [s for s in sig if s[0] != first]
            else:
                sig = [[extra, bad, rng.random() < 0.5]] + sig
        elif bad == "VAR_POSITIONAL":
            sig = [[extra, bad, False]] + sig
        else:
            sig = sig + [[extra, bad, False]]
        return dict(form=rng.choice(["def", "lambda"]), sig=sig), "defect:" + bad
    if form in ("def", "lambda"):
        return dict(form=form, sig=kw(ps)), form
    if form == "defaults":
        dflt = set(rng.sample(ps, rng.randint(1, len(ps)))) if ps else set()
        return dict(form=rng.choice(["def", "lambda"]), sig=kw(ps, defaults=dflt)), "defaults"
    if form == "partial-kw":
        bound = rng.sample(ps, rng.randint(0, len(ps)))
        return dict(form="partial", base=dict(form="def", sig=kw(ps)), npos=0, kw=bound), "partial-kw"
    if form == "partial-pos":
        k = rng.randint(1, 2)
        pos = [[f"pos{i}_", rng.choice(["POSITIONAL_ONLY", "POSITIONAL_OR_KEYWORD"]) if i == 0 else "POSITIONAL_OR_KEYWORD", False] for i in range(k)]
        if k == 2 and pos[0][1] == "POSITIONAL_OR_KEYWORD":
            pos[1][1] = "POSITIONAL_OR_KEYWORD"
        return dict(form="partial", base=dict(form="lambda", sig=pos + kw(ps)), npos=k, kw=[]), "partial-pos"
    inner = dict(form="def", sig=[[f"x{i}_", "POSITIONAL_OR_KEYWORD", False] for i in range(len(ps))])
    if form == "named":
        return dict(form="named", inner=inner, params=ps), "named"
    if form == "named-dup":
        dup = ps + ([rng.choice(ps)] if ps else [])
        return dict(form="named", inner=dict(form="def", sig=[["args_", "VAR_POSITIONAL", False]]), params=dup), "named-dup"
    if form == "bound":
        return dict(form="bound", params=ps, kws=rng.sample(others, rng.randint(0, min(2, len(others))))), "bound"
    if form == "factory":
        fac = rng.choice(["Exp", "Sqr", "Identity"]) if len(ps) == 1 and rng.random() < 0.7 else rng.choice(["Sum", "Prod"])
        return dict(form="factory", factory=fac, params=ps), "factory:" + fac
    base = rng.choice([dict(form="bound", params=ps, kws=[]), dict(form="factory", factory="Sum", params=ps), dict(form="named", inner=inner, params=ps)])
    # the outer function's own parameters and fixed keywords are named like OTHER variables: they must not become parents
    o1 = rng.choice(others)
    extra = sorted(([o, rng.choice(["POSITIONAL_OR_KEYWORD", "KEYWORD_ONLY"]), True] for o in rng.sample(others, min(len(others), rng.randint(1, 2)))),
                   key=lambda x: KINDS.index(x[1]))
    outer = dict(form=rng.choice(["def", "lambda"]), sig=[["res_", "POSITIONAL_OR_KEYWORD", False]] + extra)
    d = dict(form="then", base=base, outer=outer, g_kws=[o1] if any(o1 == s[0] for s in outer["sig"]) else [])
    if form == "then-then":
        d = dict(form="then", base=d, outer=dict(form="lambda", sig=[[rng.choice(others), "POSITIONAL_OR_KEYWORD", False]]), g_kws=[])
        return d, "then-then"
    return d, "then"


def sampled_defs_case(rng, base, defect):
    """Turn a graph case (names, anc) into definitions; `defect` plants one function with a parameter that is not keyword-only."""
    names, anc = base["names"], base["anc"]
    linked = [n for n in names if anc[n]]
    target = rng.choice(linked) if (defect and linked) else None
    defs, forms = {}, []
    for n in names:
        if not anc[n]:
            # mostly a DataVariable; sometimes a LinkedVariable of a function without parameter
            defs[n] = dict(form="lambda", sig=[]) if rng.random() < 0.08 else None
            continue
        defs[n], f = realise(rng, n, anc[n], names, allow_defect=(n == target))
        if n == target and not f.startswith("defect"):
            defs[n], f = realise(rng, n, anc[n], names, allow_defect=True)
        forms.append(f)
    return dict(mode="defs", names=list(names), defs=defs, forms=forms, family="defs:" + base.get("family", "?") + ("+defect" if defect else ""))


def ctor_keys_cases(rng, bases):
    out = []
    for b in bases:
        names, anc = list(b["names"]), {n: list(v) for n, v in b["anc"].items()}
        kind = rng.choice(["extra-anc-key", "missing-anc-key", "both", "same"])
        var_names, keys = list(names), list(names)
        if kind in ("extra-anc-key", "both"):
            new = rng.choice(["zz_only_in_edges", "A_only_in_edges", "ghost"])
            keys.append(new)
            anc[new] = [rng.choice(names)] if rng.random() < 0.7 else []
            if rng.random() < 0.5:
                anc[rng.choice(names)].append(new)      # ... and named as a parent as well
        if kind in ("missing-anc-key", "both") and len(names) > 1:
            gone = rng.choice(names)
            keys.remove(gone)
            del anc[gone]
        rng.shuffle(var_names)
        rng.shuffle(keys)
        anc = {n: list(dict.fromkeys(anc[n])) for n in keys}
        out.append(dict(mode="ctor_keys", var_names=var_names, names=keys, anc=anc, family="ctor-keys:" + kind))
    return out


def wire(c):
    if c["mode"] == "defs":
        return dict(mode="defs", names=c["names"], defs=c["defs"])
    return dict(mode="ctor_keys", var_names=c["var_names"], names=c["names"], anc=c["anc"])


# ----------------------------------------------------------------------------- the definitions of the shipped models


def describe_specs(specs, kind_of_class):
    """{name: description} of `model.get_variables_specs()`: a NamedInputFunction by its assigned names, any other function by
    what `inspect.signature` reports, an independent variable by its class."""
    from harness.dagrun import seen_signature
    from leaspy.utils.functional import NamedInputFunction
    from leaspy.variables.specs import LinkedVariable
    out = {}
    for name, v in specs.items():
        if isinstance(v, LinkedVariable):
            f = v.f
            if isinstance(f, NamedInputFunction):
                out[name] = dict(form="bound", params=[str(p) for p in f.parameters], kws=sorted(str(k) for k in (f.kws or {})),
                                 fname=getattr(f.f, "__name__", "?"))
            else:
                sig = seen_signature(f)
                if sig is None:
                    raise ValueError(f"{name}: inspect.signature fails on {f!r}")
                out[name] = dict(form="def", sig=sig)
        else:
            out[name] = dict(form="indep", kind=kind_of_class[type(v).__name__])
    return out


def shipped_literal(g):
    """Coq literal `(definitions, observed, parents)` of one shipped graph record (indices are already name-sorted ranks)."""
    names = g["names"]
    rank = {n: i for i, n in enumerate(names)}
    ids = set()
    for d in g["defs"].values():
        all_identifiers(d, ids)
    for k, n in enumerate(sorted(ids - set(names))):
        rank[n] = len(names) + k
    ds = coq_list(vdef_lit(g["defs"][n], g["defs"][n].get("sig"), rank) for n in names)
    assoc = lambda l: coq_list(f"({k}, {nat_list(v)})" for k, v in l)  # noqa: E731
    obs = f"inr ({nat_list(g['order'])}, {coq_list(nat_list(c) for c in g['dchildren'])}, {assoc(g['children'])}, {assoc(g['ancestors'])})"
    return f"({ds}, {obs}, {coq_list(nat_list(p) for p in g['parents'])})"


def shipped_defs_coq(graphs) -> str:
    """Text of coq/gen/GenC15Defs.v: for every shipped configuration the definitions of `get_variables_specs()` as `vdef`
    literals (same indexing as GenGraphs.v: rank of the name; other identifiers after the variables)."""
    from harness.common import coq_string
    lines = ["(* REGENERATED on every run from the running code of $VERIF_REPO by harness/c15_defs.py (via translate/graphs.py) - do not edit *)",
             "From Coq Require Import List String.", "From Leaspy Require Import Dag.GraphLit Dag.FromDict.", "Import ListNotations.", ""]
    for g in graphs:
        names = g["names"]
        rank = {n: i for i, n in enumerate(names)}
        ids = set()
        for d in g["defs"].values():
            all_identifiers(d, ids)
        for k, n in enumerate(sorted(ids - set(names))):
            rank[n] = len(names) + k
        lines.append(f"Definition d_{g['label']} : list vdef := " + coq_list(vdef_lit(g["defs"][n], g["defs"][n].get("sig"), rank) for n in names) + ".")
    lines.append("")
    lines.append("Definition shipped_defs : list (string * list vdef) := " + coq_list(f"({coq_string(g['label'])}, d_{g['label']})" for g in graphs) + ".")
    return "\n".join(lines) + "\n"
