"""Shared plumbing of every property check.

One check = one `Run` object:

    run = Run("C05", tier, seed)
    run.translate(...)            # regenerate coq/gen/*.v from the working tree (T1)
    run.prove("C05", OBLIGATIONS) # build Props/C05.vo, collect `Print Assumptions`
    run.vm_cases(...) / run.interval_lemmas(...)   # model executed inside Coq (T2 / T3)
    run.fail(signature, ...)      # a property failure on a concrete input
    run.broken(name, detail)      # a proof obligation / correspondence that no longer checks
    sys.exit(run.finish())

The repository under test is $VERIF_REPO (default /repo); nothing registered in MANIFEST.json
sets that variable, it exists so that seeded changes can be tried in scratch worktrees.
"""
from __future__ import annotations

import fcntl
import hashlib
import json
import os
import random
import re
import shutil
import subprocess
import sys
import time
from fractions import Fraction
from pathlib import Path

VERIF = Path(__file__).resolve().parent.parent
REPO = Path(os.environ.get("VERIF_REPO", "/repo")).resolve()
SRC = REPO / "src" / "leaspy"
COQ = VERIF / "coq"
GEN = COQ / "gen"
TMP = COQ / "tmp"
PY = "/venv/bin/python"
COQ_FLAGS = ["-Q", "theories", "Leaspy", "-Q", "gen", "LeaspyGen"]

FORBIDDEN = re.compile(
    r"\b(Admitted|admit|Axiom|Axioms|Parameter|Parameters|Conjecture|Conjectures|Admit\s+Obligations|"
    r"Unset\s+Guard\s+Checking|Unset\s+Positivity\s+Checking|Unset\s+Universe\s+Checking|bypass_check|"
    r"type-in-type|impredicative-set|give_up)\b"
)


def env_for_impl(extra: dict | None = None) -> dict:
    """Environment for sub-processes that import the implementation."""
    env = dict(os.environ)
    env["PYTHONPATH"] = f"{REPO / 'src'}:{VERIF}"
    env.setdefault("PYTHONHASHSEED", "0")
    env.setdefault("OMP_NUM_THREADS", "2")
    env.setdefault("MKL_NUM_THREADS", "2")
    env["MPLBACKEND"] = "Agg"
    env["PIP_NO_INDEX"] = "1"
    if extra:
        env.update(extra)
    return env


def use_impl():
    """Make `import leaspy` resolve to $VERIF_REPO/src in *this* process and import it
    in the only order that works (package import cycle)."""
    p = str(REPO / "src")
    if sys.path[0] != p:
        sys.path.insert(0, p)
    os.environ.setdefault("OMP_NUM_THREADS", "2")
    os.environ.setdefault("MPLBACKEND", "Agg")
    import warnings

    warnings.filterwarnings("ignore")
    import leaspy.algo  # noqa: F401
    import leaspy.models  # noqa: F401
    import leaspy

    got = Path(leaspy.__file__).resolve()
    if REPO not in got.parents:
        raise RuntimeError(f"leaspy imported from {got}, expected under {REPO}")
    try:
        import torch

        torch.set_num_threads(int(os.environ.get("OMP_NUM_THREADS", "2")))
    except Exception:
        pass
    return leaspy


def repo_head() -> str:
    try:
        h = subprocess.run(["git", "-C", str(REPO), "rev-parse", "HEAD"], capture_output=True, text=True).stdout.strip()
        d = subprocess.run(["git", "-C", str(REPO), "status", "--porcelain", "--untracked-files=no"],
                           capture_output=True, text=True).stdout.strip()
        return h + ("+dirty" if d else "")
    except Exception:
        return "unknown"


# --------------------------------------------------------------------------- exact numbers


def frac(x) -> Fraction:
    """Exact rational of a python/numpy/torch scalar (floats are dyadic rationals)."""
    if isinstance(x, Fraction):
        return x
    if isinstance(x, bool):
        return Fraction(int(x))
    if isinstance(x, int):
        return Fraction(x)
    try:
        x = x.item()
    except AttributeError:
        pass
    return Fraction(*float(x).as_integer_ratio()) if isinstance(x, float) else Fraction(x)


def coq_Z(n: int) -> str:
    return f"({int(n)})%Z"


def coq_Q(x) -> str:
    f = frac(x)
    return f"({f.numerator} # {f.denominator})%Q"


def coq_R(x) -> str:
    """A real literal, exact (numerator / denominator)."""
    f = frac(x)
    if f.denominator == 1:
        return f"({f.numerator})%R"
    return f"({f.numerator} / {f.denominator})%R"


def coq_bool(b) -> str:
    return "true" if b else "false"


def coq_list(items) -> str:
    return "[" + "; ".join(items) + "]"


def coq_string(s: str) -> str:
    return '"' + s.replace('"', '""') + '"%string'


# --------------------------------------------------------------------------- coq driver


class CoqError(Exception):
    def __init__(self, msg, output=""):
        super().__init__(msg)
        self.output = output


def _lock():
    COQ.mkdir(exist_ok=True)
    f = open(COQ / ".build.lock", "w")
    fcntl.flock(f, fcntl.LOCK_EX)
    return f


def write_if_changed(path: Path, text: str) -> bool:
    path.parent.mkdir(parents=True, exist_ok=True)
    if path.exists() and path.read_text() == text:
        return False
    path.write_text(text)
    return True


def coq_sources() -> list[Path]:
    return sorted((COQ / "theories").rglob("*.v")) + sorted(GEN.glob("Gen*.v"))


def scan_forbidden() -> list[str]:
    """Fail-closed scan of the whole development (comments stripped)."""
    hits = []
    for p in coq_sources():
        txt = p.read_text()
        # strip (possibly nested) comments
        out, depth, i = [], 0, 0
        while i < len(txt):
            if txt.startswith("(*", i):
                depth += 1
                i += 2
            elif txt.startswith("*)", i) and depth:
                depth -= 1
                i += 2
            else:
                if not depth:
                    out.append(txt[i])
                i += 1
        sections = 0
        stack = []
        for ln, line in enumerate("".join(out).splitlines(), 1):
            m = FORBIDDEN.search(line)
            if m:
                hits.append(f"{p.relative_to(COQ)}:{ln}: {m.group(0)}")
            m = re.match(r"\s*(Section|Module\s+Type|Module)\s+(?:Import\s+|Export\s+)?([A-Za-z0-9_']+)\s*(.*)$", line)
            if m and not (m.group(1).startswith("Module") and ":=" in m.group(3)):
                stack.append((m.group(1), m.group(2)))
            m = re.match(r"\s*End\s+([A-Za-z0-9_']+)\s*\.", line)
            if m and stack and stack[-1][1] == m.group(1):
                stack.pop()
            if re.match(r"\s*(Local\s+|Global\s+)?(Variable|Variables|Hypothesis|Hypotheses|Context)\b", line):
                if not any(k == "Section" for k, _ in stack):
                    hits.append(f"{p.relative_to(COQ)}:{ln}: Variable/Hypothesis/Context outside a section")
    return hits


def regen_coqproject() -> bool:
    lines = ["-Q theories Leaspy", "-Q gen LeaspyGen", "-arg -w -arg -notation-overridden,-deprecated-hint-without-locality,-deprecated-instance-without-locality,-ambiguous-paths"]
    lines += [str(p.relative_to(COQ)) for p in coq_sources()]
    changed = write_if_changed(COQ / "_CoqProject", "\n".join(lines) + "\n")
    if changed or not (COQ / "Makefile").exists():
        r = subprocess.run(["coq_makefile", "-f", "_CoqProject", "-o", "Makefile"], cwd=COQ, capture_output=True, text=True)
        if r.returncode:
            raise CoqError("coq_makefile failed", r.stdout + r.stderr)
    return changed


def make(targets: list[str] | None = None, jobs: int = 16, timeout: int = 1500) -> tuple[bool, str]:
    """Full .vo build of the given targets (all if None) under a lock and a timeout."""
    lk = _lock()
    try:
        regen_coqproject()
        cmd = ["timeout", str(timeout), "make", f"-j{jobs}"] + (targets or [])
        r = subprocess.run(cmd, cwd=COQ, capture_output=True, text=True)
        return r.returncode == 0, r.stdout + r.stderr
    finally:
        lk.close()


def coqc(path: Path, timeout: int = 600) -> tuple[bool, str]:
    cmd = ["timeout", str(timeout), "coqc", "-w", "-notation-overridden,-deprecated-hint-without-locality,-deprecated-instance-without-locality,-ambiguous-paths"] + COQ_FLAGS + [str(path)]
    r = subprocess.run(cmd, cwd=COQ, capture_output=True, text=True)
    return r.returncode == 0, r.stdout + r.stderr


def parse_assumptions(vfile: Path, output: str) -> dict[str, list[str]]:
    """Pair every `Print Assumptions X.` of a Props file with its output block."""
    names = re.findall(r"^\s*Print\s+Assumptions\s+([A-Za-z0-9_'.]+)\s*\.", vfile.read_text(), re.M)
    blocks, cur = [], None
    for line in output.splitlines():
        if line.startswith("Closed under the global context"):
            if cur is not None:
                blocks.append(cur)
            blocks.append([])
            cur = None
        elif line.startswith("Axioms:"):
            if cur is not None:
                blocks.append(cur)
            cur = []
        elif cur is not None:
            m = re.match(r"^([A-Za-z_][A-Za-z0-9_'.]*)\s*(:|$)", line)
            if m:
                cur.append(m.group(1))
    if cur is not None:
        blocks.append(cur)
    if len(blocks) != len(names):
        raise CoqError(f"{vfile.name}: {len(names)} Print Assumptions but {len(blocks)} output blocks", output)
    return dict(zip(names, blocks))



MAX_COQC = int(os.environ.get("VERIF_MAX_COQC", "12"))


def _run_capped(jobs, cwd, cap: int | None = None):
    """Run the (key..., cmd) jobs with at most `cap` processes alive; yields (s, idxs, f, proc, output) in job order."""
    cap = cap or MAX_COQC
    import tempfile
    running, results, it = [], {}, iter(enumerate(jobs))
    pending = True
    while pending or running:
        while pending and len(running) < cap:
            try:
                k, (s, idxs, f, cmd) = next(it)
            except StopIteration:
                pending = False
                break
            out = tempfile.TemporaryFile(mode="w+")
            running.append((k, s, idxs, f, subprocess.Popen(cmd, cwd=cwd, stdout=out, stderr=subprocess.STDOUT, text=True), out))
        still = []
        for k, s, idxs, f, p, out in running:
            if p.poll() is None:
                still.append((k, s, idxs, f, p, out))
            else:
                out.seek(0)
                results[k] = (s, idxs, f, p, out.read())
                out.close()
        running = still
        if running:
            time.sleep(0.05)
    for k in sorted(results):
        yield results[k]


# --------------------------------------------------------------------------- known findings


def load_known(prop: str) -> dict[str, dict]:
    out = {}
    p = VERIF / "known_findings.jsonl"
    if p.exists():
        for line in p.read_text().splitlines():
            line = line.strip()
            if not line or line.startswith("#"):
                continue
            e = json.loads(line)
            if e.get("property") == prop:
                out[e["signature"]] = e
    return out


# --------------------------------------------------------------------------- a run


class Run:
    def __init__(self, prop: str, tier: str = "quick", seed: int | None = None):
        self.prop = prop
        self.tier = tier if tier in ("quick", "thorough") else "quick"
        self.seed = int(seed if seed is not None else os.environ.get("VERIF_SEED", "20260926") or 0)
        self.t0 = time.time()
        self.known = load_known(prop)
        self.obligations: list[str] = []
        self.discharged: list[str] = []
        self.axioms: dict[str, list[str]] = {}
        self.checker_cmds: list[str] = []
        self.trusted: list[str] = [
            "Coq 8.16.1 kernel (coqc, full .vo build; vm_compute used, native_compute not used)",
        ]
        self.assumptions: list[str] = []
        self.evaluations = 0
        self.nontrivial: set[str] = set()
        self.traces = 0
        self.samples: list = []
        self.rule = ""
        self.explanation = ""
        self.distribution: dict[str, dict] = {}
        self.extra: dict = {}
        self.exhaustive = False
        self._fails: list[dict] = []
        self._broken: list[dict] = []
        self._known_hit: dict[str, str] = {}
        self.log_lines: list[str] = []

    # ---- bookkeeping
    def log(self, msg: str):
        print(f"[{self.prop} {time.time() - self.t0:6.1f}s] {msg}", flush=True)

    def rng(self, *key) -> random.Random:
        h = hashlib.sha256(repr((self.seed, self.prop) + key).encode()).digest()
        return random.Random(int.from_bytes(h[:8], "big"))

    def count(self, table: str, key, n: int = 1):
        d = self.distribution.setdefault(table, {})
        d[str(key)] = d.get(str(key), 0) + n

    def case(self, canon, nontrivial: bool = True, validated: bool = True):
        """Register one explored case (canonical, hashable via repr)."""
        self.evaluations += 1
        if validated:
            self.traces += 1
        if nontrivial:
            self.nontrivial.add(hashlib.sha1(repr(canon).encode()).hexdigest())

    def sample(self, s, limit: int = 5):
        if len(self.samples) < limit:
            self.samples.append(s)

    # ---- failures
    def fail(self, signature: str, what: str, input, expected=None, observed=None, kind="counterexample"):
        """A concrete input on which the property fails on the implementation.
        `signature` identifies the finding (site + condition); a listed known finding with the same
        signature is reported as KNOWN-FINDING, anything else is a violation."""
        e = self.known.get(signature)
        if e is not None and e.get("status") == "known":
            if signature not in self._known_hit:
                self._known_hit[signature] = e.get("what", what)
            return
        self._fails.append(dict(signature=signature, what=what, input=input, expected=expected, observed=observed, kind=kind))

    def broken(self, name: str, detail: str, kind="broken-obligation"):
        """A theorem / translation / correspondence that no longer checks."""
        self._broken.append(dict(name=name, detail=detail[-4000:], kind=kind))

    @property
    def has_problem(self) -> bool:
        return bool(self._fails or self._broken)

    # ---- coq steps
    def forbid_scan(self):
        hits = scan_forbidden()
        if hits:
            self.broken("forbidden-construct", "\n".join(hits))
        return not hits

    def gen(self, name: str, text: str):
        """Write a regenerated model file coq/gen/<name>.v (only when its content changed)."""
        write_if_changed(GEN / f"{name}.v", text)

    def prove(self, props_file: str, obligations: list[str], allowed_axioms: tuple[str, ...] = ()) -> bool:
        """Build theories/Props/<props_file>.vo and everything it depends on, then re-run coqc on the
        Props file to read `Print Assumptions` for every obligation."""
        self.obligations += [o for o in obligations if o not in self.obligations]
        self.forbid_scan()
        target = f"theories/Props/{props_file}.vo"
        ok, out = make([target])
        self.checker_cmds.append(f"make -C coq -j16 {target} && coqc {' '.join(COQ_FLAGS)} theories/Props/{props_file}.v  (Print Assumptions)")
        if not ok:
            m = re.search(r'File "([^"]+)", line (\d+)[^\n]*\n(?:.*\n){0,12}', out)
            self.broken(f"build:{props_file}", (m.group(0) if m else "") + "\n...\n" + out[-1500:])
            return False
        vfile = COQ / "theories" / "Props" / f"{props_file}.v"
        ok, out = coqc(vfile)
        if not ok:
            self.broken(f"coqc:{props_file}", out)
            return False
        try:
            ax = parse_assumptions(vfile, out)
        except CoqError as e:
            self.broken(f"assumptions:{props_file}", str(e) + "\n" + e.output)
            return False
        good = True
        for o in obligations:
            if o not in ax:
                self.broken(f"missing-theorem:{o}", f"{props_file}.v has no `Print Assumptions {o}`")
                good = False
                continue
            self.axioms[o] = ax[o]
            bad = [a for a in ax[o] if not is_stdlib_axiom(a) and a not in allowed_axioms]
            if bad:
                self.broken(f"axiom:{o}", "depends on non-library axioms: " + ", ".join(bad))
                good = False
            else:
                if o not in self.discharged:
                    self.discharged.append(o)
        return good

    def vm_bad_indices(self, name: str, header: str, case_type: str, cases: list[str], checker: str,
                       shard: int = 400) -> list[int] | None:
        """T2: evaluate `checker : case_type -> bool` on every case inside Coq (vm_compute) and
        return the indices of the cases where it is false.  None when Coq itself failed."""
        TMP.mkdir(exist_ok=True)
        bad: list[int] = []
        files = []
        for s in range(0, len(cases), shard):
            chunk = cases[s:s + shard]
            body = [header, "From Coq Require Import List. Import ListNotations.",
                    f"Definition cases : list ({case_type}) := ["]
            body.append(";\n".join("  " + c for c in chunk))
            body.append("].")
            body.append("Fixpoint bad_ix (i : nat) (l : list (" + case_type + ")) : list nat :=\n"
                        "  match l with [] => [] | c :: r => if " + checker + " c then bad_ix (S i) r else i :: bad_ix (S i) r end.")
            body.append("Definition result := Eval vm_compute in bad_ix 0 cases.")
            body.append("Print result.")
            f = TMP / f"cases_{self.prop}_{name}_{s // shard}.v"
            f.write_text("\n".join(body) + "\n")
            files.append((s, f))
        procs = []
        for s, f in files:
            cmd = ["timeout", "900", "coqc"] + COQ_FLAGS + [str(f)]
            procs.append((s, f, subprocess.Popen(cmd, cwd=COQ, stdout=subprocess.PIPE, stderr=subprocess.STDOUT, text=True)))
            if len(procs) >= 12:
                self._drain(procs, bad, name)
                procs = []
        r = self._drain(procs, bad, name)
        self.checker_cmds.append(f"coqc {' '.join(COQ_FLAGS)} tmp/cases_{self.prop}_{name}_*.v  ({len(cases)} cases, vm_compute)")
        if any(b is None for b in bad):
            return None
        return sorted(bad)

    def _drain(self, procs, bad, name):
        for s, f, p in procs:
            out, _ = p.communicate()
            m = re.search(r"result\s*=\s*\[(.*?)\]\s*:\s*list nat", out, re.S)
            if p.returncode != 0 or not m:
                self.broken(f"model-execution:{name}", f"{f.name}: coqc failed\n{out[-2000:]}", kind="broken-correspondence")
                bad.append(None)
                continue
            txt = m.group(1).strip()
            if txt:
                bad += [s + int(x) for x in re.findall(r"\d+", txt)]
            for ext in (".vo", ".vok", ".vos", ".glob"):
                q = f.with_suffix(ext)
                if q.exists():
                    q.unlink()
            aux = f.parent / ("." + f.stem + ".aux")
            if aux.exists():
                aux.unlink()

    def interval_lemmas(self, name: str, header: str, lemmas: list[str], tactic: str,
                        shard: int = 60) -> list[int] | None:
        """T3: each entry of `lemmas` is a Coq statement; it is proved by `tactic` (normally
        `interval`) with Qed.  Returns indices of statements Coq could not prove."""
        TMP.mkdir(exist_ok=True)
        failing: list[int] = []
        pending = [(s, list(range(s, min(s + shard, len(lemmas))))) for s in range(0, len(lemmas), shard)]
        rounds = 0
        while pending and rounds < 6:
            rounds += 1
            jobs = []
            for s, idxs in pending:
                f = TMP / f"lem_{self.prop}_{name}_{s}.v"
                lines = [header]
                for i in idxs:
                    lines.append(f"Lemma case_{i} : {lemmas[i]}.\nProof. {tactic} Qed.")
                f.write_text("\n".join(lines) + "\n")
                jobs.append((s, idxs, f, ["timeout", "900", "coqc"] + COQ_FLAGS + [str(f)]))
            nxt = []
            # at most MAX_COQC coqc processes at a time (each holds up to ~1 GB with Coq-Interval loaded)
            for s, idxs, f, p, out in _run_capped(jobs, COQ):
                if p.returncode != 0:
                    m = re.search(r'line (\d+), characters', out)
                    if not m:
                        self.broken(f"model-execution:{name}", f"{f.name}\n{out[-2000:]}", kind="broken-correspondence")
                        return None
                    # which lemma contains that line?
                    ln = int(m.group(1))
                    txt = f.read_text().splitlines()
                    k = None
                    for j in range(ln - 1, -1, -1):
                        mm = re.match(r"Lemma case_(\d+) ", txt[j])
                        if mm:
                            k = int(mm.group(1))
                            break
                    if k is None:
                        self.broken(f"model-execution:{name}", f"{f.name}\n{out[-2000:]}", kind="broken-correspondence")
                        return None
                    failing.append(k)
                    rest = [i for i in idxs if i > k]
                    if rest:
                        nxt.append((rest[0], rest))
                for ext in (".vo", ".vok", ".vos", ".glob"):
                    q = f.with_suffix(ext)
                    if q.exists():
                        q.unlink()
                aux = f.parent / ("." + f.stem + ".aux")
                if aux.exists():
                    aux.unlink()
            pending = nxt
        self.checker_cmds.append(f"coqc tmp/lem_{self.prop}_{name}_*.v  ({len(lemmas)} kernel-checked enclosure lemmas: {tactic.strip()})")
        return sorted(failing)

    # ---- end
    def finish(self) -> int:
        (VERIF / "evidence").mkdir(exist_ok=True)
        (VERIF / "replays").mkdir(exist_ok=True)
        violations = []
        head = repo_head()
        for old in (VERIF / "replays").glob(f"{self.prop}-*.json"):
            old.unlink()
        # one replay per distinct signature: the smallest failing input found for it
        by_sig: dict[str, dict] = {}
        for f in self._fails:
            cur = by_sig.get(f["signature"])
            size = len(json.dumps(f["input"], default=str))
            if cur is None or size < cur["_size"]:
                by_sig[f["signature"]] = dict(f, _size=size, occurrences=(cur["occurrences"] if cur else 0) + 1)
            else:
                cur["occurrences"] += 1
        self._fails = [{k: v for k, v in f.items() if k != "_size"} for f in by_sig.values()]
        for f in self._fails:
            h = hashlib.sha1(json.dumps(f, sort_keys=True, default=str).encode()).hexdigest()[:10]
            path = VERIF / "replays" / f"{self.prop}-{h}.json"
            path.write_text(json.dumps(dict(property=self.prop, seed=self.seed, tier=self.tier, repo_head=head, **f),
                                       indent=1, default=str))
            violations.append((path, ""))
        if self._broken:
            # a broken obligation / correspondence is reported once; if a failing input was found above it is the replay
            if not self._fails:
                h = hashlib.sha1(json.dumps(self._broken, sort_keys=True).encode()).hexdigest()[:10]
                path = VERIF / "replays" / f"{self.prop}-broken-{h}.json"
                path.write_text(json.dumps(dict(property=self.prop, seed=self.seed, tier=self.tier, repo_head=head,
                                                kind="broken-obligation", broken=self._broken,
                                                note="no failing input was found by the search of this run"), indent=1))
                violations.append((path, " no-failing-input-found"))
            else:
                for v, _ in violations[:1]:
                    d = json.loads(v.read_text())
                    d["also_broken"] = self._broken
                    v.write_text(json.dumps(d, indent=1, default=str))
        cov = dict(
            obligations=len(self.obligations),
            discharged=len(self.discharged),
            obligation_names=self.obligations,
            undischarged=[o for o in self.obligations if o not in self.discharged],
            checker_cmd=" ; ".join(dict.fromkeys(self.checker_cmds)) or "none",
            trusted_base=self.trusted + sorted({f"axiom (Print Assumptions): {a}" for l in self.axioms.values() for a in l}),
            axioms_per_theorem=self.axioms,
            evaluations=self.evaluations,
            distinct_nontrivial=len(self.nontrivial),
            traces_validated_against_impl=self.traces,
            rule=self.rule,
            samples=self.samples,
            input_distribution=self.distribution,
            explanation=self.explanation,
            exhaustive=self.exhaustive,
            known_findings_reported=sorted(self._known_hit),
            repo_head=head,
        )
        cov.update(self.extra)
        ev = dict(property_id=self.prop, tier=self.tier, seed=self.seed, level="proof", coverage=cov,
                  assumptions=self.assumptions, wall_s=round(time.time() - self.t0, 2), violations=len(violations))
        (VERIF / "evidence" / f"{self.prop}.json").write_text(json.dumps(ev, indent=1, default=str) + "\n")
        for sig, what in sorted(self._known_hit.items()):
            print(f"KNOWN-FINDING: property={self.prop} {sig}: {what}")
        for b in self._broken:
            print(f"BROKEN {b['kind']} {b['name']}:\n{b['detail'][:1500]}")
        for f in self._fails[:10]:
            print(f"FAIL {f['signature']}: {f['what']}")
        for path, suffix in violations:
            print(f"VIOLATION property={self.prop} replay={path}{suffix}")
        self.log(f"done: evaluations={self.evaluations} distinct_nontrivial={len(self.nontrivial)} "
                 f"obligations={len(self.discharged)}/{len(self.obligations)} violations={len(violations)}")
        return 1 if violations else 0


STDLIB_AXIOM_PREFIXES = (
    "ClassicalDedekindReals.", "FunctionalExtensionality.", "Classical_Prop.", "ProofIrrelevance.",
    "Eqdep.", "JMeq.", "ClassicalEpsilon.", "ChoiceFacts.", "ClassicalFacts.", "PropExtensionality.",
    "Uint63.", "PrimInt63.", "PrimFloat.", "FloatAxioms.", "Int63.", "Coq.", "Reals.", "Rdefinitions.", "Raxioms.",
    "ClassicalUniqueChoice.", "IndefiniteDescription.", "Epsilon.", "Float", "SpecFloat.", "Sint63.", "PArray.",
    "FloatOps.", "FloatLemmas.", "Uint63Axioms.", "CarryType.", "Description.", "ClassicalDescription.",
)
STDLIB_AXIOM_NAMES = {
    "sig_not_dec", "sig_forall_dec", "functional_extensionality_dep", "classic", "proof_irrelevance",
    "eq_rect_eq", "JMeq_eq", "constructive_indefinite_description", "propositional_extensionality",
    "constructive_definite_description", "dependent_unique_choice", "relational_choice", "epsilon_statement",
}


def is_stdlib_axiom(name: str) -> bool:
    """Axioms declared by the standard library / installed libraries (never by this development:
    the development declares none, see scan_forbidden)."""
    if name.startswith("Leaspy.") or name.startswith("LeaspyGen."):
        return False
    return name.startswith(STDLIB_AXIOM_PREFIXES) or name.split(".")[-1] in STDLIB_AXIOM_NAMES
