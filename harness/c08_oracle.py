"""C08 — implementation-side oracle and search (step 4 of the check).

Independent densities written from the documentation (scipy.stats norm / bernoulli / weibull_min, numpy float64) are compared
ENTRY BY ENTRY with what the real code returns: the distribution families (`_nll`, `nll`, `regularization`), the public
`SymbolicDistribution.get_func_nll / get_func_regularization` routes, the observation models, and real model states
(`state['nll_attach_ind']`, `['nll_attach']`, `['nll_attach_event_ind']`, every `['nll_regul_*']`), on random inputs and on a
directed sweep of extreme inputs (events at / before the reference time, saturated Bernoulli probabilities, tiny / huge sigma,
rho near 0 / large, xi = +-40, competing events, float32 and float64).

Nothing here uses Coq or the generated file: it runs whatever happened to translation and proof, and every failure is a
self-contained JSON case that `evaluate(case)` re-runs (that is what `./check C08 --replay` does).

What the property demands where floating point matters (DECISIONS, see docs/C08.md):
  * an observed event at or before the reference time: finite, not NaN, and prohibitive (>= 1e30) — whatever the other parameters;
  * Bernoulli with a probability inside [eps, 1-eps] of its dtype: the negative log-pmf; with a SATURATED probability (outside that
    interval, 0.0 and 1.0 included) the documented value is 0 (matching outcome) or +infinity (non-matching); torch clamps the
    probability to [eps, 1-eps] and returns -ln(1-eps) resp. -ln(eps).  Accepted: anything between the value at the clamped
    probability and the exact value (both ends included, +inf allowed for a non-matching outcome).  NaN is never accepted.
  * everything else: |implementation - reference| <= rtol(dtype) * magnitude of the terms, only where the exact value and its terms
    are representable in the dtype (an exact value beyond the dtype's range is outside the comparison, never a failure).
"""
from __future__ import annotations

import math

EPS = {"float32": 2.0 ** -23, "float64": 2.0 ** -52}
FMAX = {"float32": 3.4028234663852886e38, "float64": 1.7976931348623157e308}
RTOL = {"float32": 5e-5, "float64": 1e-9}
PROHIBITIVE = 1e30          # "prohibitive": beyond any attainable likelihood term of a fit
MAX_PENALISED_IN_TOTAL = 3  # model-level sweeps keep the number of penalised individuals small (their SUM is not an entry)


def _np():
    import numpy as np
    return np


def _dt(torch, name):
    return {"float32": torch.float32, "float64": torch.float64}[name]


def _t(torch, v, dtype):
    """tensor of the given dtype from a nested list / scalar of python floats (rounded to the dtype exactly like the caller's)"""
    return torch.tensor(v, dtype=torch.float64).to(dtype)


def _f64(t):
    if hasattr(t, "value") and hasattr(t, "weight") and not hasattr(t, "detach"):   # WeightedTensor
        t = t.value
    return t.detach().double().numpy()


# ----------------------------------------------------------------------------- reference densities (from the docs)


def ref_normal_nll(x, mu, sigma):
    """-ln N(x; mu, sigma^2), sigma = standard deviation"""
    from scipy.stats import norm
    np = _np()
    with np.errstate(all="ignore"):
        return -norm.logpdf(x, loc=mu, scale=sigma)


def ref_bernoulli_nll(y, p):
    """-ln (p^y (1-p)^(1-y)); +inf where the pmf is 0"""
    from scipy.stats import bernoulli
    np = _np()
    with np.errstate(all="ignore"):
        return -bernoulli.logpmf(y, p)


def ref_weibull_terms(x, delta, nu, rho, xi, tau, s=None, scale_range=(1e-300, 1e300)):
    """Right-censored Weibull on the reparametrised time t = x - tau with individual scale nu~ = nu exp(-(xi + s/rho)) (docs/models.md):
    returns (nll, log_survival, log_hazard_term, penalty mask, magnitude, representable mask).  Observed event, t > 0: -ln(h S);
    censored: -ln S(max(t, 0)); observed event with t <= 0: penalty (entry excluded from the comparison, see PROHIBITIVE)."""
    from scipy.stats import weibull_min
    np = _np()
    with np.errstate(all="ignore"):
        shift = xi if s is None else xi + s / rho
        lam = nu * np.exp(-shift)
        t = x - tau
        tpos = np.where(t > 0, t, 1.0)
        log_s = weibull_min.logsf(np.maximum(t, 0.0), c=rho, scale=lam) + 0.0 * tpos
        log_f = weibull_min.logpdf(tpos, c=rho, scale=lam)
        log_h = log_f - weibull_min.logsf(tpos, c=rho, scale=lam)
        delta = np.broadcast_to(delta, log_s.shape)
        penalty = delta & (t <= 0)
        log_h_term = np.where(delta, np.where(t > 0, log_h, np.nan), 0.0)
        nll = -(log_s + log_h_term)
        pw = (np.maximum(t, 0.0) / lam) ** rho
        mag = 1.0 + np.abs(log_s) * (1.0 + rho) + np.where(delta & (t > 0), np.abs(np.log(rho / lam)) + np.abs((rho - 1.0) * np.log(tpos / lam)), 0.0)
        # the terms the documented formula is made of must themselves be representable: scale, (t/nu~)^rho, the hazard
        haz = (rho / lam) * (tpos / lam) ** (rho - 1.0)
        lo_, hi_ = scale_range      # the individual scale nu~ and exp(-(xi + s/rho)) are computed in the parameters' dtype
        ex = np.exp(-shift)
        ok = np.isfinite(lam) & (lam > lo_) & (lam < hi_) & (ex > lo_) & (ex < hi_) & np.isfinite(pw) & (pw < 1e300)
        ok &= ~(delta & (t > 0)) | (np.isfinite(haz) & (haz > 1e-300) & (haz < 1e300))
        ok &= np.isfinite(shift) & (np.abs(shift) < 700)
    return nll, log_s, log_h_term, penalty, mag, ok & ~penalty


# ----------------------------------------------------------------------------- problems


def _problem(sig, what, index=None, expected=None, observed=None):
    return dict(sig=sig, what=what, index=index, expected=expected, observed=observed)


def _classify(out_v):
    if math.isnan(out_v):
        return "nan"
    if math.isinf(out_v):
        return "inf"
    return "mismatch"


CALIB: dict = {}     # site -> largest observed |implementation - reference| / (rtol * magnitude) among the accepted entries


C32_SLACK = 2.0 ** -25   # the code adds the float32 constant c32 for 1/2 ln(2 pi) in every dtype; |c32 - 1/2 ln(2 pi)| <= 2^-25 is theorem C08_const


def _compare(np, out, ref, mag, ok, rtol, site, label, problems, limit=3, atol=0.0):
    """entry-wise comparison on the entries selected by `ok`; at most `limit` problems per class are recorded"""
    out, ref, ok = np.atleast_1d(out), np.atleast_1d(ref), np.atleast_1d(ok)
    mag = np.broadcast_to(np.atleast_1d(mag), ref.shape)
    atol = np.broadcast_to(np.atleast_1d(atol), ref.shape)
    out = np.broadcast_to(out, ref.shape) if out.shape != ref.shape else out
    with np.errstate(all="ignore"):
        err = np.abs(out - ref)
        tol = rtol * mag + atol
        bad = ok & ~(err <= tol)
        good = ok & ~bad
        if good.any():
            CALIB[site] = max(CALIB.get(site, 0.0), float((err[good] / tol[good]).max()))
    seen = {}
    for idx in zip(*np.nonzero(bad)):
        o, r = float(out[idx]), float(ref[idx])
        cls = _classify(o)
        seen[cls] = seen.get(cls, 0) + 1
        if seen[cls] <= limit:
            problems.append(_problem(f"{site}:{cls}", f"{label}: implementation {o!r}, documented density gives {r!r}",
                                     [int(i) for i in idx], r, o))
    return int(bad.sum())


# ----------------------------------------------------------------------------- family-level cases


def eval_family(case: dict) -> tuple[list, dict]:
    """Run one family-level case on the implementation; returns (problems, statistics)."""
    import torch
    from leaspy.utils.weighted_tensor import WeightedTensor
    from leaspy.variables import distributions as D
    np = _np()
    fam, via, a = case["family"], case.get("via", "_nll"), case["args"]
    dname = case.get("dtype", "float64")
    dt, rtol = _dt(torch, dname), RTOL[dname] * case.get("rtol_factor", 1.0)
    problems, stats = [], dict(entries=0, compared=0, skipped=0)
    site = "oracle:weibull" if fam == "weibull_src" else f"oracle:{fam}"

    def W(v, w=None):
        return WeightedTensor(v) if w is None else WeightedTensor(v, w)

    try:
        if fam == "normal":
            x, mu, sg = _t(torch, a["x"], dt), _t(torch, a["mu"], dt), _t(torch, a["sigma"], dt)
            w = torch.tensor(a["weight"], dtype=torch.bool) if a.get("weight") is not None else None
            NF, sd = D.NormalFamily, D.Normal("mu", "sigma")
            if via == "_nll":
                o = NF._nll(W(x, w), mu, sg)
            elif via == "nll":
                o = NF.nll(W(x, w), mu, sg)
            elif via == "aj":
                o = NF._nll_and_jacobian(W(x, w), mu, sg)[0]
            elif via == "regularization":
                o = NF.regularization(x, mu, sg)
            elif via == "route-nll":
                o = sd.get_func_nll("x")(x=W(x, w), mu=mu, sigma=sg)
            elif via == "route-regul":
                o = sd.get_func_regularization("x")(x=x, mu=mu, sigma=sg)
            else:
                raise ValueError(f"unknown via {via}")
            out = _f64(o.value)
            xs, ms, ss = np.broadcast_arrays(_f64(x), _f64(mu), _f64(sg))
            ref = ref_normal_nll(xs, ms, ss)
            if out.shape != ref.shape:
                return [_problem(f"{site}:shape", f"result shape {out.shape}, expected the broadcast shape {ref.shape}")], stats
            if w is not None and "regul" not in via and (o.weight is None or not torch.equal(torch.broadcast_to(o.weight, x.shape), torch.broadcast_to(w, x.shape))):
                problems.append(_problem(f"{site}:weight", "the weight of the value is not carried to the likelihood term"))
            with np.errstate(all="ignore"):
                z2 = 0.5 * ((xs - ms) / ss) ** 2
                mag = 1.0 + z2 + np.abs(np.log(ss))
                ok = np.isfinite(ref) & (z2 < FMAX[dname] / 8)
            stats.update(entries=ref.size, compared=int(ok.sum()), skipped=int((~ok).sum()))
            _compare(np, out, ref, mag, ok, rtol, site, f"Normal {via}", problems, atol=C32_SLACK)
        elif fam == "bernoulli":
            y, p = _t(torch, a["y"], dt), _t(torch, a["p"], dt)
            yw = W(y, torch.ones_like(y, dtype=torch.bool))
            if via == "_nll":
                o = D.BernoulliFamily._nll(yw, p)
            elif via == "nll":
                o = D.BernoulliFamily.nll(yw, p)
            elif via == "route-nll":
                o = D.Bernoulli("p").get_func_nll("y")(y=yw, p=p)
            elif via == "obs-model":
                from leaspy.models.obs_models import observation_model_factory
                ob = observation_model_factory("bernoulli")
                o = ob.dist.get_func_nll(ob.name)(y=yw, model=p)
            else:
                raise ValueError(f"unknown via {via}")
            out = _f64(o.value)
            ys, ps = np.broadcast_arrays(_f64(y), _f64(p))
            if out.shape != ys.shape:
                return [_problem(f"{site}:shape", f"result shape {out.shape}, expected {ys.shape}")], stats
            eps = EPS[dname]
            exact = ref_bernoulli_nll(ys, ps)
            clamped = ref_bernoulli_nll(ys, np.clip(ps, eps, 1 - eps))
            lo, hi = np.minimum(exact, clamped), np.maximum(exact, clamped)
            tol = rtol * (1.0 + np.abs(clamped))
            with np.errstate(all="ignore"):
                good = (out >= lo - tol) & (out <= hi + tol)      # NaN compares false
            stats.update(entries=out.size, compared=out.size)
            sat = (ps < eps) | (ps > 1 - eps)
            shown = {}
            for idx in zip(*np.nonzero(~good)):
                o_, cls = float(out[idx]), _classify(float(out[idx]))
                where = "saturated-probability" if sat[idx] else "interior-probability"
                key = (cls, where)
                shown[key] = shown.get(key, 0) + 1
                if shown[key] <= 3:
                    problems.append(_problem(f"{site}:{cls}-at-{where}",
                                             f"Bernoulli {via}: y={float(ys[idx])!r} p={float(ps[idx])!r}: implementation {o_!r}, documented "
                                             f"-ln pmf = {float(exact[idx])!r} (value at the clamped probability {float(clamped[idx])!r})",
                                             [int(i) for i in idx], [float(lo[idx]), float(hi[idx])], o_))
        elif fam in ("weibull", "weibull_src"):
            src = fam == "weibull_src"
            edt = _dt(torch, case.get("dtype_event", "float64"))
            x = _t(torch, a["x"], edt)
            delta = torch.tensor(a["delta"], dtype=torch.bool)
            nu, rho, xi, tau = (_t(torch, a[k], dt) for k in ("nu", "rho", "xi", "tau"))
            s = _t(torch, a["s"], dt) if src else None
            F_ = D.WeibullRightCensoredWithSourcesFamily if src else D.WeibullRightCensoredFamily
            extra = (s,) if src else ()
            xw = W(x, delta)
            parts = None
            if via == "_nll":
                o = F_._nll(xw, nu, rho, xi, tau, *extra).value
            elif via == "nll":
                o = F_.nll(xw, nu, rho, xi, tau, *extra).value
            elif via == "route-nll":
                sd = (D.WeibullRightCensoredWithSources if src else D.WeibullRightCensored)(*(("nu", "rho", "xi", "tau") + (("s",) if src else ())))
                o = sd.get_func_nll("x")(x=xw, nu=nu, rho=rho, xi=xi, tau=tau, **({"s": s} if src else {})).value
            elif via == "obs-model":
                from leaspy.models.obs_models import observation_model_factory
                if src:
                    ob = observation_model_factory("weibull-right-censored-with-sources", nu="nu", rho="rho", xi="xi", tau="tau",
                                                   survival_shifts="survival_shifts")
                    o = ob.dist.get_func_nll(ob.name)(event=xw, nu=nu, rho=rho, xi=xi, tau=tau, survival_shifts=s).value
                else:
                    ob = observation_model_factory("weibull-right-censored", nu="nu", rho="rho", xi="xi", tau="tau")
                    o = ob.dist.get_func_nll(ob.name)(event=xw, nu=nu, rho=rho, xi=xi, tau=tau).value
            elif via == "parts":
                parts = (F_.compute_log_survival(xw, nu, rho, xi, tau, *extra), F_.compute_log_likelihood_hazard(xw, nu, rho, xi, tau, *extra))
                o = -(parts[0] + parts[1])
            else:
                raise ValueError(f"unknown via {via}")
            out = _f64(o)
            n, e = x.shape
            if out.shape != (n, e):
                return [_problem(f"{site}:shape", f"result shape {out.shape}, expected (n_individuals, n_events) = {(n, e)}")], stats
            bc = lambda t_: np.broadcast_to(_f64(t_), (n, e))  # noqa: E731
            dl = delta.numpy()
            ref, log_s, log_h, penalty, mag, ok = ref_weibull_terms(bc(x), dl, bc(nu), bc(rho), bc(xi), bc(tau), bc(s) if src else None,
                                                                      scale_range=(1e-36, 1e36) if dname == "float32" else (1e-300, 1e300))
            stats.update(entries=out.size, compared=int(ok.sum()) + int(penalty.sum()), skipped=int((~ok & ~penalty).sum()),
                         penalty=int(penalty.sum()))
            _compare(np, out, ref, mag, ok, rtol, site, f"{F_.__name__} {via}", problems)
            for idx in zip(*np.nonzero(penalty)):
                v = float(out[idx])
                if not (math.isfinite(v) and v >= PROHIBITIVE):
                    cls = _classify(v) if not math.isfinite(v) else "not-prohibitive"
                    problems.append(_problem(f"{site}:event-before-reference-time:{cls}",
                                             f"{F_.__name__} {via}: observed event at t - tau = {float(bc(x)[idx] - bc(tau)[idx])!r} <= 0 must get a "
                                             f"prohibitive FINITE penalty, implementation returns {v!r}", [int(i) for i in idx], f">= {PROHIBITIVE}, finite", v))
            if parts is not None:
                ls, lh = _f64(parts[0]), _f64(parts[1])
                _compare(np, ls, log_s, mag, ok, rtol, site, f"{F_.__name__}.compute_log_survival", problems)
                cens = ~dl & np.ones((n, e), dtype=bool)
                for idx in zip(*np.nonzero(cens & (lh != 0.0))):
                    problems.append(_problem(f"{site}:censored-has-hazard-term", f"{F_.__name__}.compute_log_likelihood_hazard: a censored "
                                             f"individual contributes {float(lh[idx])!r} instead of 0 (survival term only)", [int(i) for i in idx], 0.0, float(lh[idx])))
                    break
                _compare(np, lh, np.where(dl, log_h, 0.0), mag, ok & dl, rtol, site, f"{F_.__name__}.compute_log_likelihood_hazard", problems)
        elif fam == "mixture":
            x, loc, sc, pr = (_t(torch, a[k], dt) for k in ("x", "loc", "scale", "probs"))
            MF = D.MixtureNormalFamily
            if via == "_nll":
                o = MF._nll(W(x), loc, sc, pr).value
            elif via == "regularization":
                o = MF.regularization(x, loc, sc, pr).value
            elif via == "route-regul":
                o = D.MixtureNormal("loc", "scale", "probs").get_func_regularization("x")(x=x, loc=loc, scale=sc, probs=pr).value
            else:
                raise ValueError(f"unknown via {via}")
            out = _f64(o)
            X, L, S_ = _f64(x), _f64(loc), _f64(sc)
            if L.ndim == 1:       # xi / tau: x (n, 1), loc / scale (K,)  ->  (n, K)
                ref = ref_normal_nll(X[:, 0][:, None], L[None, :], S_[None, :] if S_.ndim else S_)
                z2 = 0.5 * ((X[:, 0][:, None] - L[None, :]) / (S_[None, :] if S_.ndim else S_)) ** 2
            else:                 # sources: x (n, S), loc (S, K), scale scalar  ->  (n, S, K)
                ref = ref_normal_nll(X[:, :, None], L[None, :, :], S_)
                z2 = 0.5 * ((X[:, :, None] - L[None, :, :]) / S_) ** 2
            if out.shape != ref.shape:
                return [_problem(f"{site}:shape", f"result shape {out.shape}, expected {ref.shape}")], stats
            mag = 1.0 + z2 + np.abs(np.log(S_)) * np.ones_like(z2)
            ok = np.isfinite(ref)
            stats.update(entries=ref.size, compared=int(ok.sum()))
            _compare(np, out, ref, mag, ok, rtol, site, f"MixtureNormalFamily {via} (per-cluster Gaussian nll)", problems, atol=C32_SLACK)
        else:
            raise ValueError(f"unknown family {fam}")
    except Exception as e:  # an exception on an accepted input is a failure of the property, with this very input
        import traceback
        problems.append(_problem(f"{site}:raises", f"{fam} {via} raised {type(e).__name__}: {e}", None, "a likelihood term", traceback.format_exc()[-500:]))
    return problems, stats


def shrink_family(case: dict, problem: dict) -> dict:
    """the single failing entry as a minimal case (1-element tensors), when it still fails alone; else the full case"""
    idx = problem.get("index")
    if not idx:
        return case
    np = _np()
    try:
        a, fam = case["args"], case["family"]
        small = dict(case, args={})
        if fam in ("weibull", "weibull_src"):
            i, k = idx
            g = lambda v, shape, ix: float(np.broadcast_to(np.array(v, dtype=float), shape)[ix])  # noqa: E731
            n, e = np.array(a["x"]).shape
            small["args"] = dict(x=[[g(a["x"], (n, e), (i, k))]], delta=[[bool(np.array(a["delta"])[i, k])]],
                                 nu=[g(a["nu"], (e,), (k,))], rho=[g(a["rho"], (e,), (k,))], xi=[[g(a["xi"], (n, 1), (i, 0))]],
                                 tau=[[g(a["tau"], (n, 1), (i, 0))]])
            if "s" in a:
                small["args"]["s"] = [[g(a["s"], (n, e), (i, k))]]
        elif fam == "normal":
            shape = np.broadcast_shapes(*(np.array(a[k], dtype=float).shape for k in ("x", "mu", "sigma")))
            small["args"] = {k: float(np.broadcast_to(np.array(a[k], dtype=float), shape)[tuple(idx)]) for k in ("x", "mu", "sigma")}
        elif fam == "bernoulli":
            small["args"] = {k: [float(np.array(a[k], dtype=float)[tuple(idx)])] for k in ("y", "p")}
        else:
            return case
        small["shrunk_from_index"] = idx
        pb, _ = eval_family(small)
        if any(q["sig"] == problem["sig"] for q in pb):
            return small
        if fam in ("weibull", "weibull_src"):      # one individual with all its (competing) events
            i = idx[0]
            row = dict(case, args={k: ([v[i]] if k in ("x", "delta", "xi", "tau", "s") else v) for k, v in a.items()}, shrunk_to_individual=i)
            pb, _ = eval_family(row)
            if any(q["sig"] == problem["sig"] for q in pb):
                return row
    except Exception:
        pass
    return case


# ----------------------------------------------------------------------------- state-level cases


def eval_state(case: dict) -> tuple[list, dict]:
    """Build the real model described by case['model'], put case['set'] in a fresh clone of its state and compare every
    likelihood variable of the state with the documented densities recomputed from the state's own inputs."""
    import torch
    from harness.props import c08
    np = _np()
    cfg = case["model"]
    problems, stats = [], dict(entries=0, compared=0, skipped=0, penalty=0)
    try:
        m, ds, st = c08._build(cfg["kind"], cfg["n_feat"], cfg.get("sd"), cfg.get("noise"), n_ind=cfg.get("n_ind", 6), seed=cfg.get("seed", 11),
                               binary=(cfg.get("noise") == "bernoulli"), nb_events=cfg.get("nb_events", 1))
    except Exception as e:
        return [_problem("state:setup:raises", f"building the model raised {type(e).__name__}: {e}")], stats
    try:
        for name, val in (case.get("set") or {}).items():
            c08._set(torch, st, name, torch.tensor(val, dtype=torch.float64))
        names = set(st.dag.sorted_variables_names)
        n = ds.n_individuals

        def low(*ts):   # float32 anywhere -> float32 tolerance
            return RTOL["float32" if any(getattr(t_, "dtype", None) == torch.float32 for t_ in ts) else "float64"] * case.get("rtol_factor", 1.0)

        def group(var):
            """signature site of a state variable: entries keep their own site, per-individual sums and totals share one"""
            if var.startswith(("attach-entry", "regul-entry")):
                return var.split(":")[0] + (":" + var.split(":")[1] if var.startswith("attach-entry") else "")
            return "attach-sums" if var.startswith("nll_attach") else "regul-sums"

        def check(var, out, ref, mag, ok, rtol, label, atol=0.0):
            out = _f64(out)
            if out.shape != ref.shape:
                problems.append(_problem(f"state:{group(var)}:shape", f"state['{var}'] ({label}): shape {out.shape}, expected {ref.shape}"))
                return
            stats["entries"] += ref.size
            stats["compared"] += int(ok.sum())
            _compare(np, out, ref, mag, ok, rtol, f"state:{group(var)}", f"state['{var}'] ({label})", problems, atol=atol)

        ind_terms, ind_ok, ind_mag, ind_pen = np.zeros(n), np.ones(n, dtype=bool), np.ones(n), np.zeros(n, dtype=bool)
        worst_rtol = RTOL["float64"]
        for ob in m.obs_models:
            named = f"nll_attach_{ob.name}_ind" in names
            v_ind = f"nll_attach_{ob.name}_ind" if named else "nll_attach_ind"
            v_tot = f"nll_attach_{ob.name}" if named else "nll_attach"
            if ob.name == "y":
                y, mod = st["y"], st["model"]
                w = np.broadcast_to(_f64(y.weight) != 0, tuple(y.value.shape)) if y.weight is not None else np.ones(tuple(y.value.shape), dtype=bool)
                Y = np.where(w, np.nan_to_num(_f64(y.value)), 0.0)
                Mo = _f64(mod)
                fam = ob.dist.dist_family.__name__
                if Mo.shape != Y.shape:       # mixture model: per-cluster trajectories; outside this comparison
                    stats["skipped"] += Y.size
                    continue
                if fam == "BernoulliFamily":
                    rtol = low(mod, y.value)
                    eps = EPS["float32" if mod.dtype == torch.float32 else "float64"]
                    exact, clamped = ref_bernoulli_nll(Y, Mo), ref_bernoulli_nll(Y, np.clip(Mo, eps, 1 - eps))
                    # entries
                    f = ob.dist.get_func_nll(ob.name)
                    ent = _f64(f(**{q: st[q] for q in f.parameters}).value)
                    lo, hi = np.minimum(exact, clamped), np.maximum(exact, clamped)
                    tol = rtol * (1.0 + np.abs(clamped))
                    with np.errstate(all="ignore"):
                        good = ~w | ((ent >= lo - tol) & (ent <= hi + tol))
                    stats["entries"] += int(w.sum())
                    stats["compared"] += int(w.sum())
                    for idx in list(zip(*np.nonzero(~good)))[:3]:
                        o_ = float(ent[idx])
                        sat = Mo[idx] < eps or Mo[idx] > 1 - eps
                        problems.append(_problem(f"state:attach-entry:bernoulli:{_classify(o_)}-at-{'saturated' if sat else 'interior'}-probability",
                                                 f"Bernoulli attachment entry: y={float(Y[idx])!r} model={float(Mo[idx])!r}: implementation {o_!r}, documented -ln pmf "
                                                 f"= {float(exact[idx])!r} (at the clamped probability {float(clamped[idx])!r})", [int(i) for i in idx],
                                                 [float(lo[idx]), float(hi[idx])], o_))
                    # the per-individual sum must lie between the sums of the two accepted entry values
                    s_lo = np.where(w, lo, 0.0).reshape(n, -1).sum(1)
                    s_hi = np.where(w, hi, 0.0).reshape(n, -1).sum(1)
                    got = _f64(st[v_ind])
                    tol_i = rtol * (1.0 + np.where(w, np.abs(clamped), 0.0).reshape(n, -1).sum(1)) * 4
                    with np.errstate(all="ignore"):
                        good_i = (got >= s_lo - tol_i) & (got <= s_hi + tol_i)
                    stats["entries"] += n
                    stats["compared"] += n
                    for i in list(np.nonzero(~good_i)[0])[:3]:
                        problems.append(_problem(f"state:attach-sums:bernoulli:{_classify(float(got[i]))}", f"state['{v_ind}'][{i}] = {float(got[i])!r}, documented sum of the "
                                                 f"observed entries in [{float(s_lo[i])!r}, {float(s_hi[i])!r}]", [int(i)], [float(s_lo[i]), float(s_hi[i])], float(got[i])))
                    gt = float(_f64(st[v_tot]))
                    if not (s_lo.sum() - tol_i.sum() <= gt <= s_hi.sum() + tol_i.sum()):
                        problems.append(_problem(f"state:attach-sums:bernoulli:{_classify(gt)}", f"state['{v_tot}'] = {gt!r}, documented total in "
                                                 f"[{float(s_lo.sum())!r}, {float(s_hi.sum())!r}]", None, [float(s_lo.sum()), float(s_hi.sum())], gt))
                    ind_terms = ind_terms + np.where(np.isfinite(s_hi), s_hi, s_lo)
                    ind_ok &= np.isfinite(s_hi) & (np.abs(s_hi - s_lo) <= tol_i)      # totals compared only where the entries are unambiguous
                    ind_mag = ind_mag + np.abs(s_lo)
                    worst_rtol = max(worst_rtol, rtol * 4)
                    continue
                sg = st["noise_std"]
                rtol = low(mod, y.value, sg)
                SG = np.broadcast_to(_f64(sg), Y.shape)
                ref = ref_normal_nll(Y, Mo, SG)
                with np.errstate(all="ignore"):
                    z2 = 0.5 * ((Y - Mo) / SG) ** 2
                mag = 1.0 + z2 + np.abs(np.log(SG))
                f = ob.dist.get_func_nll(ob.name)
                ent = f(**{q: st[q] for q in f.parameters}).value
                check("attach-entry:gaussian", ent, ref, mag, w & np.isfinite(ref), rtol, "entries of the Gaussian attachment", atol=C32_SLACK)
                r_ind = np.where(w, ref, 0.0).reshape(n, -1).sum(1)
                m_ind = np.where(w, mag, 0.0).reshape(n, -1).sum(1) + 1.0
                check(v_ind, st[v_ind], r_ind, m_ind, np.isfinite(r_ind), rtol * 4, "sum of the individual's observed Gaussian entries", atol=C32_SLACK * w.reshape(n, -1).sum(1))
                check(v_tot, st[v_tot], np.array(r_ind.sum()), np.array(m_ind.sum()), np.array(np.isfinite(r_ind.sum())), rtol * 4, "sum over individuals", atol=C32_SLACK * w.sum())
                ind_terms, ind_mag, worst_rtol = ind_terms + r_ind, ind_mag + m_ind + C32_SLACK * w.reshape(n, -1).sum(1) / RTOL["float64"], max(worst_rtol, rtol * 4)
            elif ob.name == "event":
                evw = st["event"]
                X, dl = _f64(evw.value), _f64(evw.weight) != 0
                E = X.shape[1]
                nu = np.exp(-_f64(st["n_log_nu"]))            # documented wiring: nu = exp(-n_log_nu), rho = exp(log_rho)
                rho = np.exp(_f64(st["log_rho"]))
                xi, tau = _f64(st["xi"]), _f64(st["tau"])
                src = "survival_shifts" in names
                s = _f64(st["sources"]) @ _f64(st["zeta"]) if src else None       # documented: survival shift = sources . zeta
                bc = lambda v: np.broadcast_to(v, (n, E))  # noqa: E731
                ref, log_s, log_h, penalty, mag, ok = ref_weibull_terms(X, dl, bc(nu), bc(rho), bc(xi), bc(tau), s)
                rtol = RTOL["float32"] * case.get("rtol_factor", 1.0)     # nu, rho (and the shifts) are float32 in the models
                f = ob.dist.get_func_nll(ob.name)
                ent = _f64(f(**{q: st[q] for q in f.parameters}).value)
                if ent.shape != (n, E):
                    problems.append(_problem("state:attach-entry:event:shape", f"entries of the event attachment have shape {ent.shape}, expected {(n, E)}"))
                    continue
                stats["entries"] += ent.size
                stats["compared"] += int(ok.sum()) + int(penalty.sum())
                stats["penalty"] += int(penalty.sum())
                _compare(np, ent, ref, mag, ok, rtol, "state:attach-entry:event", "entries (individual, event) of the event attachment", problems)
                for idx in zip(*np.nonzero(penalty)):
                    v = float(ent[idx])
                    if not (math.isfinite(v) and v >= PROHIBITIVE):
                        cls = _classify(v) if not math.isfinite(v) else "not-prohibitive"
                        problems.append(_problem(f"state:attach-entry:event:event-before-reference-time:{cls}",
                                                 f"event attachment entry {list(map(int, idx))}: observed event at t - tau = {float(X[idx] - bc(tau)[idx])!r} <= 0 "
                                                 f"must get a prohibitive FINITE penalty, implementation returns {v!r}", [int(i) for i in idx], f">= {PROHIBITIVE}, finite", v))
                pen_i = penalty.any(1)
                ok_i = (ok | penalty).all(1) & ~pen_i
                r_ind = np.where(ok, ref, 0.0).sum(1)
                m_ind = np.where(ok, mag, 0.0).sum(1) + 1.0
                got = _f64(st[v_ind])
                check(v_ind, st[v_ind], r_ind, m_ind, ok_i, rtol * 2, "sum over the events of the individual's entries")
                for i in np.nonzero(pen_i)[0]:
                    v = float(got[i])
                    if not (math.isfinite(v) and v >= PROHIBITIVE):
                        cls = _classify(v) if not math.isfinite(v) else "not-prohibitive"
                        problems.append(_problem(f"state:attach-sums:event-before-reference-time:{cls}", f"state['{v_ind}'][{int(i)}] = {v!r} for an individual with an "
                                                 "observed event at or before its reference time: must be a prohibitive FINITE penalty", [int(i)], f">= {PROHIBITIVE}, finite", v))
                gt = float(_f64(st[v_tot]))
                if pen_i.any():
                    if pen_i.sum() <= MAX_PENALISED_IN_TOTAL and not (math.isfinite(gt) and gt >= PROHIBITIVE):
                        cls = _classify(gt) if not math.isfinite(gt) else "not-prohibitive"
                        problems.append(_problem(f"state:attach-sums:event-before-reference-time:{cls}", f"state['{v_tot}'] = {gt!r} with {int(pen_i.sum())} penalised "
                                                 "individual(s): must be finite", None, f">= {PROHIBITIVE}, finite", gt))
                elif ok_i.all():
                    check(v_tot, st[v_tot], np.array(r_ind.sum()), np.array(m_ind.sum()), np.array(True), rtol * 2, "sum over individuals")
                ind_terms, ind_mag, worst_rtol = ind_terms + r_ind, ind_mag + m_ind, max(worst_rtol, rtol * 2)
                ind_ok &= ok_i
                ind_pen |= pen_i
        # totals across the observation models (joint model: nll_attach_ind = nll_attach_y_ind + nll_attach_event_ind)
        if len(m.obs_models) > 1 and "nll_attach_ind" in names:
            got = _f64(st["nll_attach_ind"])
            check("nll_attach_ind", st["nll_attach_ind"], ind_terms, ind_mag, ind_ok & ~ind_pen, worst_rtol, "sum of the observation models' per-individual terms")
            for i in np.nonzero(ind_pen)[0]:
                v = float(got[i])
                if not (math.isfinite(v) and v >= PROHIBITIVE):
                    cls = _classify(v) if not math.isfinite(v) else "not-prohibitive"
                    problems.append(_problem(f"state:attach-sums:event-before-reference-time:{cls}", f"state['nll_attach_ind'][{int(i)}] = {v!r} for an individual "
                                             "with an observed event at or before its reference time", [int(i)], f">= {PROHIBITIVE}, finite", v))
            gt = float(_f64(st["nll_attach"]))
            if ind_pen.any():
                if ind_pen.sum() <= MAX_PENALISED_IN_TOTAL and not (math.isfinite(gt) and gt >= PROHIBITIVE):
                    cls = _classify(gt) if not math.isfinite(gt) else "not-prohibitive"
                    problems.append(_problem(f"state:attach-sums:event-before-reference-time:{cls}", f"state['nll_attach'] = {gt!r} with {int(ind_pen.sum())} "
                                             "penalised individual(s): must be finite", None, f">= {PROHIBITIVE}, finite", gt))
            elif ind_ok.all():
                check("nll_attach", st["nll_attach"], np.array(ind_terms.sum()), np.array(ind_mag.sum()), np.array(True), worst_rtol, "sum over individuals")
        # ---- regularity of every latent variable: Gaussian nll of the value with the prior mean / std read from the graph
        for name, is_ind, fam, pn in c08.latent_inventory(m):
            x = st[name]
            rtol = low(x, *(st[q] for q in pn if hasattr(st[q], "dtype")))
            X = _f64(x)
            if fam == "NormalFamily":
                mu, sg = np.broadcast_to(_f64(st[pn[0]]), X.shape), np.broadcast_to(_f64(st[pn[1]]), X.shape)
                ref = ref_normal_nll(X, mu, sg)
                with np.errstate(all="ignore"):
                    mag = 1.0 + 0.5 * ((X - mu) / sg) ** 2 + np.abs(np.log(sg))
                ent = st.dag[name].prior.get_func_regularization(name)(**{q: st[q] for q in (name,) + pn}).value
                lvl = "individual" if is_ind else "population"
                check("regul-entry", ent, ref, mag, np.isfinite(ref), rtol, f"entries of the regularization of `{name}` (Normal prior)", atol=C32_SLACK)
                if is_ind:
                    r_i, m_i = ref.reshape(n, -1).sum(1), mag.reshape(n, -1).sum(1)
                    check("nll_regul_*_ind", st[f"nll_regul_{name}_ind"], r_i, m_i, np.isfinite(r_i), rtol * 4,
                          f"nll_regul_{name}_ind: Gaussian prior, summed per individual", atol=C32_SLACK * ref.reshape(n, -1).shape[1])
                check(f"nll_regul_*:{lvl}", st[f"nll_regul_{name}"], np.array(ref.sum()), np.array(mag.sum()), np.array(np.isfinite(ref.sum())), rtol * 4,
                      f"nll_regul_{name}: Gaussian prior, summed", atol=C32_SLACK * ref.size)
            elif fam == "MixtureNormalFamily":
                L, S_ = _f64(st[pn[0]]), _f64(st[pn[1]])
                if L.ndim == 1:     # xi, tau: per individual and cluster
                    ref = ref_normal_nll(X[:, 0][:, None], L[None, :], S_[None, :])
                    mag = 1.0 + 0.5 * ((X[:, 0][:, None] - L[None, :]) / S_[None, :]) ** 2 + np.abs(np.log(S_))[None, :]
                else:               # sources: summed over the sources, per individual and cluster
                    full = ref_normal_nll(X[:, :, None], L[None, :, :], S_)
                    ref = full.sum(1)
                    mag = (1.0 + 0.5 * ((X[:, :, None] - L[None, :, :]) / S_) ** 2 + abs(math.log(float(S_)))).sum(1)
                check("nll_regul_*_ind:mixture", st[f"nll_regul_{name}_ind"], ref, mag, np.isfinite(ref), rtol * 4,
                      f"nll_regul_{name}_ind: per-cluster Gaussian prior (mixture model)", atol=C32_SLACK * max(1, X.shape[1]))
            else:
                stats["skipped"] += X.size
    except Exception as e:
        import traceback
        problems.append(_problem("state:raises", f"reading the likelihood variables raised {type(e).__name__}: {e}", None, "likelihood terms", traceback.format_exc()[-700:]))
    return problems, stats


def evaluate(case: dict) -> tuple[list, dict]:
    return eval_state(case) if case.get("what") == "state" else eval_family(case)


# ----------------------------------------------------------------------------- case generation (random + directed)


def _rl(rng, shape, lo, hi, logu=False):
    """nested list of the given shape; values uniform (or log-uniform) in [lo, hi], mostly short dyadic rationals"""
    def one():
        u = math.exp(rng.uniform(math.log(lo), math.log(hi))) if logu else rng.uniform(lo, hi)
        if rng.random() < 0.6:
            k = rng.choice([4, 16, 64])
            d = round(u * k) / k
            if lo <= d <= hi and d != 0:
                return d
        return u
    if not shape:
        return one()
    return [_rl(rng, shape[1:], lo, hi, logu) for _ in range(shape[0])]


NORMAL_LAYOUTS = [   # (name, shapes of value / loc / scale as functions of n individuals, v visits, f features, k sources)
    ("attach-scalar", lambda n, v, f, k: ((n, v, f), (n, v, f), ())), ("attach-scalar1", lambda n, v, f, k: ((n, v, f), (n, v, f), (1,))),
    ("attach-diagonal", lambda n, v, f, k: ((n, v, f), (n, v, f), (f,))), ("ind-xi-tau", lambda n, v, f, k: ((n, 1), (), (1,))),
    ("ind-xi-tau1", lambda n, v, f, k: ((n, 1), (1,), (1,))), ("ind-sources", lambda n, v, f, k: ((n, k), (k,), ())),
    ("pop-vector", lambda n, v, f, k: ((f,), (f,), ())), ("pop-matrix", lambda n, v, f, k: ((f, k), (f, k), ())), ("pop-scalar", lambda n, v, f, k: ((), (), ())),
]


def random_family_cases(rng, n_cases: int):
    vias_n = ["_nll", "nll", "aj", "regularization", "route-nll", "route-regul"]
    for j in range(n_cases):
        dt = "float64" if rng.random() < 0.5 else "float32"
        which = j % 10
        if which < 3:      # Normal, every broadcasting layout of the models
            name, lay = NORMAL_LAYOUTS[rng.randrange(len(NORMAL_LAYOUTS))]
            sx, sl, ss = lay(rng.randint(1, 5), rng.randint(1, 4), rng.randint(1, 4), rng.randint(1, 3))
            via = vias_n[rng.randrange(len(vias_n))]
            w = None
            if sx and "regul" not in via and rng.random() < 0.7:
                w = _rl(rng, sx, 0, 1)
                w = _map(w, lambda u: u < 0.7)
            yield dict(what="family", family="normal", via=via, dtype=dt, layout=name,
                       args=dict(x=_rl(rng, sx, -3, 3), mu=_rl(rng, sl, -3, 3), sigma=_rl(rng, ss, 0.01, 10, logu=True), weight=w))
        elif which < 5:    # Bernoulli, interior with a few saturated entries
            shape = (rng.randint(1, 5), rng.randint(1, 4), rng.randint(1, 3))
            p = _rl(rng, shape, 0.001, 0.999)
            p = _map(p, lambda u: rng.choice([0.0, 1.0, 1e-30, 1.0 - 2.0 ** -24, 2.0 ** -30]) if rng.random() < 0.15 else u)
            y = _map(_rl(rng, shape, 0, 1), lambda u: float(u < 0.5))
            yield dict(what="family", family="bernoulli", via=rng.choice(["_nll", "nll", "route-nll", "obs-model"]), dtype=dt, args=dict(y=y, p=p))
        elif which < 9:    # Weibull, 1 to 3 (competing) events, with and without sources
            src = rng.random() < 0.4
            n, e = rng.randint(1, 6), rng.randint(1, 3)
            tau = _rl(rng, (n, 1), 55, 85)
            x, delta = [], []
            for i in range(n):
                row, drow = [], []
                for _ in range(e):
                    mode = rng.choice(["after", "after", "after", "before", "at"])
                    d = _rl(rng, (), 0.01, 20, logu=True)
                    row.append(tau[i][0] + d if mode == "after" else (tau[i][0] - d if mode == "before" else tau[i][0]))
                    drow.append(rng.random() < 0.6)
                x.append(row)
                delta.append(drow)
            args = dict(x=x, delta=delta, nu=_rl(rng, (e,), 1, 40, logu=True), rho=_rl(rng, (e,), 0.3, 5, logu=True), xi=_rl(rng, (n, 1), -1.5, 1.5), tau=tau)
            if src:
                args["s"] = _rl(rng, (n, e), -2, 2)
            yield dict(what="family", family="weibull_src" if src else "weibull", via=rng.choice(["_nll", "nll", "route-nll", "obs-model", "parts"]),
                       dtype=dt, dtype_event="float64", args=args)
        else:              # mixture family: (n, 1) against K clusters, or (n, S) sources against (S, K)
            n, k = rng.randint(1, 6), rng.randint(1, 4)
            if rng.random() < 0.5:
                args = dict(x=_rl(rng, (n, 1), -3, 3), loc=_rl(rng, (k,), -3, 3), scale=_rl(rng, (k,), 0.05, 5, logu=True), probs=[1.0 / k] * k)
            else:
                S_ = rng.randint(1, 3)
                args = dict(x=_rl(rng, (n, S_), -3, 3), loc=_rl(rng, (S_, k), -3, 3), scale=1.0, probs=[1.0 / k] * k)
            yield dict(what="family", family="mixture", via=rng.choice(["_nll", "regularization", "route-regul"]), dtype=dt, args=args)


def _map(v, f):
    return [_map(u, f) for u in v] if isinstance(v, list) else f(v)


def directed_family_cases():
    """the directed sweep of extreme inputs (deterministic)"""
    # ---- Normal: sigma tiny / huge, residual 0 / small / large
    for dt, sigmas in (("float32", [1e-6, 1e-3, 1.0, 1e3, 1e6]), ("float64", [1e-150, 1e-6, 1.0, 1e6, 1e150])):
        res = [0.0, 1e-3, 1.0, 50.0]
        x = [[r for r in res] for _ in sigmas]
        sg = [[s_] for s_ in sigmas]
        for via in ("_nll", "route-nll", "route-regul"):
            yield dict(what="family", family="normal", via=via, dtype=dt, directed="sigma tiny/huge",
                       args=dict(x=x, mu=0.0, sigma=sg, weight=None))
    # ---- Bernoulli: saturated probabilities 0.0 / 1.0 (and around eps), matching and non-matching outcome
    for dt in ("float32", "float64"):
        eps = EPS[dt]
        ps = [0.0, 1.0, 1e-30 if dt == "float32" else 1e-300, eps / 2, eps, 2 * eps, 1 - 2 * eps, 1 - eps, 1 - eps / 2, 0.5, 1e-3, 1 - 1e-3]
        for via in ("_nll", "nll", "route-nll", "obs-model"):
            yield dict(what="family", family="bernoulli", via=via, dtype=dt, directed="saturated probabilities",
                       args=dict(y=[[0.0] * len(ps), [1.0] * len(ps)], p=[ps, ps]))
    # ---- Weibull: events before / exactly at / just after the reference time, censored and observed, rho near 0 and large,
    #      xi = +-40, nu small / large, with and without sources, 3 (competing) events per call
    ts = [-10.0, -2.0 ** -20, 0.0, 2.0 ** -20, 0.5, 5.0, 40.0]
    xis = [-40.0, -3.0, 0.0, 3.0, 40.0]
    rows = [(t, d, xi) for t in ts for d in (True, False) for xi in xis]
    pairs = [(nu, rho) for nu in (0.5, 10.0, 200.0) for rho in (0.05, 0.3, 1.0, 1.5, 5.0, 20.0)]
    tau0 = 70.0
    for dt in ("float32", "float64"):
        for src in (None, -3.0, 3.0):
            for g in range(0, len(pairs), 3):
                ev = pairs[g:g + 3]
                args = dict(x=[[tau0 + t] * len(ev) for t, d, xi in rows], delta=[[d] * len(ev) for t, d, xi in rows],
                            nu=[nu for nu, _ in ev], rho=[rho for _, rho in ev], xi=[[xi] for t, d, xi in rows], tau=[[tau0] for _ in rows])
                if src is not None:
                    args["s"] = [[src] * len(ev) for _ in rows]
                for via in (("_nll", "parts") if g % 2 == 0 else ("route-nll", "obs-model")):
                    yield dict(what="family", family="weibull" if src is None else "weibull_src", via=via, dtype=dt, dtype_event="float64",
                               directed="reference time / rho / xi sweep", args=args)


def state_cases(rng, thorough: bool):
    """Model-level cases: real models (cached per configuration), values put in a fresh clone of the state.  Joint models: events
    after / exactly at / before the reference time, censored and observed, 1 and 2 competing events, with and without sources
    (at most MAX_PENALISED_IN_TOTAL observed events at/before the reference time per case); logistic + Bernoulli with the curve
    saturated to 1.0 / 0.0 in float32; Gaussian scalar / diagonal with tiny / huge noise; linear, shared-speed, mixture."""
    from harness.props import c08
    rounds = 2 if not thorough else 12
    joint_cfgs = [dict(kind="joint", n_feat=1, sd=None, nb_events=1, n_ind=7, seed=6), dict(kind="joint", n_feat=2, sd=1, nb_events=1, n_ind=7, seed=7),
                  dict(kind="joint", n_feat=1, sd=None, nb_events=2, n_ind=7, seed=6), dict(kind="joint", n_feat=2, sd=1, nb_events=2, n_ind=7, seed=7),
                  dict(kind="joint", n_feat=3, sd=2, nb_events=1, n_ind=7, seed=8)]
    joint_cfgs.append(dict(kind="joint", n_feat=2, sd=1, nb_events=3, n_ind=9, seed=7))
    for cfg in joint_cfgs:
        try:
            m, ds, st = c08._build("joint", cfg["n_feat"], cfg["sd"], None, n_ind=cfg["n_ind"], seed=cfg["seed"], nb_events=cfg["nb_events"])
        except Exception as e:
            yield dict(what="state", model=cfg, set={}, label=f"setup failed: {e}")
            continue
        ev_t = st["event"].value[:, 0].tolist()
        observed = st["event"].weight.any(1).tolist()
        n, E = len(ev_t), cfg["nb_events"]
        for r in range(rounds + 2):
            directed = r < 2
            tau, xi, pen = [], [], 0
            for i in range(n):
                mode = rng.choice(["after", "after", "before", "at"]) if (directed or rng.random() < 0.3) else "after"
                if mode != "after" and observed[i]:
                    if pen >= MAX_PENALISED_IN_TOTAL:
                        mode = "after"
                    else:
                        pen += 1
                d = _rl(rng, (), 0.01, 20, logu=True)
                tau.append([ev_t[i] - d if mode == "after" else (ev_t[i] + d if mode == "before" else ev_t[i])])
                xi.append([rng.choice([-40.0, 40.0, -3.0, 3.0]) if (directed and r == 1 and mode != "after") else _rl(rng, (), -1.5, 1.5)])
            sets = dict(tau=tau, xi=xi, n_log_nu=_rl(rng, (E,), -3.5, -0.5), log_rho=_rl(rng, (E,), -1.0, 1.6))
            if cfg["sd"]:
                sets["sources"] = _rl(rng, (n, cfg["sd"]), -2, 2)
                sets["zeta"] = _rl(rng, (cfg["sd"], E), -1, 1)
            yield dict(what="state", model=cfg, set=sets, label="directed reference-time sweep" if directed else "random")
    # ---- logistic + Bernoulli: interior, saturated to 1.0 (tau long before the visits) and to 0.0 (long after)
    cfg = dict(kind="logistic", n_feat=2, sd=1, noise="bernoulli", n_ind=6, seed=11)
    for shift in [0.0, -3000.0, 20000.0] + [0.0] * (rounds - 1):
        n = cfg["n_ind"]
        yield dict(what="state", model=cfg, label=f"tau shifted by {shift}",
                   set=dict(tau=[[u + shift] for u in _rl(rng, (n,), 62, 78)], xi=_rl(rng, (n, 1), -0.8, 0.8), sources=_rl(rng, (n, 1), -1.5, 1.5)))
    # ---- Gaussian attachments: scalar / diagonal noise, current noise level tiny / ordinary / huge
    for cfg in [dict(kind="logistic", n_feat=3, sd=2, noise="gaussian-diagonal", n_ind=6, seed=11), dict(kind="logistic", n_feat=2, sd=1, noise="gaussian-scalar", n_ind=6, seed=11),
                dict(kind="linear", n_feat=2, sd=1, noise=None, n_ind=6, seed=11), dict(kind="shared_speed_logistic", n_feat=3, sd=2, noise=None, n_ind=6, seed=11),
                dict(kind="mixture_logistic", n_feat=3, sd=2, noise=None, n_ind=6, seed=11)]:
        n = cfg["n_ind"]
        for r, noise in enumerate([None, 1e-4, 1e4] + [None] * (rounds - 1)):
            sets = dict(tau=_rl(rng, (n, 1), 62, 78), xi=_rl(rng, (n, 1), -0.8, 0.8), sources=_rl(rng, (n, cfg["sd"]), -1.5, 1.5))
            if noise is not None:
                if cfg["kind"] == "mixture_logistic":
                    continue
                sets["noise_std"] = [noise * (1 + j) for j in range(cfg["n_feat"])] if cfg["noise"] == "gaussian-diagonal" else [noise]
            yield dict(what="state", model=cfg, set=sets, label="random" if noise is None else f"noise_std = {noise}")
