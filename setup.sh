#!/bin/sh
# MANIFEST.setup_cmd — offline: regenerate translated model files from /repo and build all .vo files.
set -e
cd "$(dirname "$0")"
export PIP_NO_INDEX=1
exec /venv/bin/python -m harness.setup
