"""Seeded single-site changes of leaspy for C13 (scratch worktree only)."""
import subprocess, sys, os, json, re, time
WT = "/tmp/scratch/c13/wt"
SRC = WT + "/src/leaspy/"

def rep(path, old, new, count=1):
    p = SRC + path
    s = open(p).read()
    assert old in s, (path, old)
    s = s.replace(old, new, count)
    open(p, "w").write(s)

MUT = {}
def m(f): MUT[f.__name__] = f; return f

@m
def M1_estimate_on_model_state():
    rep("models/mcmc_saem_compatible.py", "        local_state = self.state.clone(disable_auto_fork=True)\n        self._put_data_timepoints(local_state, timepoints)\n        for (",
        "        local_state = self.state\n        self._put_data_timepoints(local_state, timepoints)\n        for (")

@m
def M2_mcmc_no_cleaning():
    rep("algo/personalize/mcmc.py", "            model.reset_data_variables(model_state)\n            model_state.put_individual_latent_variables(None)\n", "            pass\n")

@m
def M3_settings_not_copied():
    rep("algo/base.py", "self.algo_parameters = deepcopy(settings.parameters)", "self.algo_parameters = settings.parameters")

@m
def M4_simulate_squares_noise_in_place():
    rep("algo/simulate/simulate.py", "                var = model.parameters[\"noise_std\"].numpy() ** 2\n            else:",
        "                var = model.parameters[\"noise_std\"].numpy()\n                var **= 2\n            else:")
    rep("algo/simulate/simulate.py", "                var = model.parameters[\"noise_std\"][i].numpy() ** 2\n",
        "                var = model.parameters[\"noise_std\"][i].numpy()\n                var **= 2\n")

@m
def M5_reader_works_on_caller_table():
    p = SRC + "io/data/abstract_dataframe_data_reader.py"
    s = open(p).read()
    assert s.count("df = df.copy(deep=True)") == 2
    s = s.replace("df = df.copy(deep=True)", "pass")
    open(p, "w").write(s)

@m
def M6_mcmc_perturbs_population_variable():
    rep("algo/personalize/mcmc.py", "            model_state.put_individual_latent_variables(None)\n",
        "            model_state.put_individual_latent_variables(None)\n            _pop = sorted(model.population_variables_names)[0]\n            model_state[_pop] = model_state[_pop] * (1 + 1e-6)\n")

@m
def M7_scipy_loads_data_into_model_state():
    rep("algo/personalize/scipy_minimize.py", "        if self.algo_parameters.get(\"progress_bar\", True):\n            self._display_progress_bar(-1, dataset.n_individuals, suffix=\"subjects\")",
        "        with state.auto_fork(None):\n            model.put_data_variables(state, dataset)\n        if self.algo_parameters.get(\"progress_bar\", True):\n            self._display_progress_bar(-1, dataset.n_individuals, suffix=\"subjects\")")

@m
def M8_dataset_rounds_callers_data_object():
    rep("io/data/dataset.py", "        nbs_vis = [len(_.timepoints) for _ in data]\n",
        "        for _ind in data:\n            _ind.timepoints[:] = [round(float(_t), 4) for _t in _ind.timepoints]\n        nbs_vis = [len(_.timepoints) for _ in data]\n")

@m
def M9_seed_skipped_when_unchanged():
    rep("algo/base.py", "        if seed is not None:\n            random.seed(seed)", "        if seed is not None and seed != getattr(BaseAlgorithm, \"_last_seed\", None):\n            BaseAlgorithm._last_seed = seed\n            random.seed(seed)")

@m
def M10_mcmc_keeps_individual_values():
    rep("algo/personalize/mcmc.py", "            model_state.put_individual_latent_variables(None)\n", "")

@m
def M11_burn_in_written_into_callers_settings():
    rep("algo/base.py", "        self.algo_parameters = deepcopy(settings.parameters)\n",
        "        self.algo_parameters = deepcopy(settings.parameters)\n        if \"n_iter\" in settings.parameters and \"n_burn_in_iter_frac\" in settings.parameters:\n            settings.parameters[\"n_burn_in_iter\"] = int(0.9 * settings.parameters[\"n_iter\"])\n")

@m
def M12_mcmc_tracks_variable_in_model():
    rep("algo/personalize/mcmc.py", "        self._initialize_samplers(state, dataset)\n", "        self._initialize_samplers(state, dataset)\n        model.tracked_variables.add(\"nll_attach_ind\")\n")

def run(name):
    subprocess.run(["git", "-C", WT, "checkout", "-q", "."], check=True)
    MUT[name]()
    diff = subprocess.run(["git", "-C", WT, "diff", "--stat"], capture_output=True, text=True).stdout.strip().splitlines()[-1]
    t = time.time()
    env = dict(os.environ, VERIF_REPO=WT)
    r = subprocess.run(["./check", "C13", "--tier", "quick"], cwd="/tmp/agents/c13", env=env, capture_output=True, text=True)
    out = r.stdout + r.stderr
    lines = [l for l in out.splitlines() if l.startswith(("FAIL", "VIOLATION", "BROKEN", "KNOWN"))]
    print(f"=== {name}: exit {r.returncode} in {time.time()-t:.0f}s ({diff})")
    for l in lines: print("   ", l[:230])
    reps = [l.split("replay=")[1].split()[0] for l in lines if l.startswith("VIOLATION")]
    if reps:
        rr = subprocess.run(["./check", "C13", "--replay", reps[0]], cwd="/tmp/agents/c13", env=env, capture_output=True, text=True)
        tail = (rr.stdout + rr.stderr).strip().splitlines()[-5:]
        print("    replay(mutant): exit", rr.returncode, " | ".join(x[:150] for x in tail))
        rr = subprocess.run(["./check", "C13", "--replay", reps[0]], cwd="/tmp/agents/c13", capture_output=True, text=True)
        print("    replay(/repo): exit", rr.returncode, (rr.stdout + rr.stderr).strip().splitlines()[-1][:100])
    subprocess.run(["git", "-C", WT, "checkout", "-q", "."], check=True)
    sys.stdout.flush()

if __name__ == "__main__":
    for n in (sys.argv[1:] or list(MUT)):
        run(n)
