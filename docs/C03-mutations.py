"""Seeded single-site changes of leaspy's samplers for C03 (scratch worktree only; /repo is never edited).

    /venv/bin/python docs/C03-mutations.py [--search-only] [NAME ...]

For each mutation: fresh detached worktree of /repo, one textual edit, `VERIF_REPO=<wt> ./check C03 --tier quick`
(or, with --search-only, only the implementation-side search `check(run)`, to see what it finds without the
translator / proofs), the verdict line, the FAIL signatures and whether a concrete replay was written.  Afterwards
`./check C03` is run on the unchanged /repo (restores coq/gen)."""
import os, re, subprocess, sys, time

ROOT = os.path.dirname(os.path.dirname(os.path.abspath(__file__)))
WT = os.environ.get("C03_MUT_WT", "/tmp/scratch/st3-c03/wtm")
G, B = "samplers/gibbs.py", "samplers/base.py"

POP_ALPHA = """                    (new_regularity - previous_regularity) * temperature_inv
                    + (new_attachment - previous_attachment)
                )
            )
            accepted = self._metropolis_step(alpha)"""
IND_ALPHA = """                (new_regularity - previous_regularity) * temperature_inv
                + (new_attachment - previous_attachment)
            )
        )
        accepted = self._group_metropolis_step(alpha)"""
SECOND_PROBS = """        new_attachment, new_regularity = compute_attachment_regularity()

        if state["nll_regul_ind_sum_ind"].ndim > 1:
            nll_regul_ind_sum_ind = state["nll_regul_ind_sum_ind"].value
            nll_cluster = -nll_regul_ind_sum_ind
            probs_ind = torch.nn.Softmax(dim=1)(torch.clamp(nll_cluster, -100.))
"""

MUT = {
    # name: (file, old, new, what)
    "M01_pop_temperature_on_attachment": (G, POP_ALPHA, POP_ALPHA.replace("(new_regularity - previous_regularity) * temperature_inv", "(new_regularity - previous_regularity)").replace("(new_attachment - previous_attachment)", "(new_attachment - previous_attachment) * temperature_inv"),
                                          "population samplers: inverse temperature applied to the attachment change instead of the regularity change"),
    "M02_ind_temperature_squared": (G, IND_ALPHA, IND_ALPHA.replace("* temperature_inv", "* temperature_inv ** 2"), "individual sampler: regularity change weighted by tinv^2"),
    "M03_pop_regularity_of_other_variable": (G, 'return state["nll_attach"], state[f"nll_regul_{self.name}"]', 'return state["nll_attach"], state["nll_regul_" + ("log_g" if self.name != "log_g" else "log_v0")]',
                                             "population samplers: prior term of ANOTHER variable read"),
    "M04_pop_std_of_first_block": (G, "change_idx = self.std[idx] * torch.randn(shape_idx)", "change_idx = self.std[tuple(0 for _ in idx)] * torch.randn(shape_idx)", "proposal scaled by the std of block 0 whatever the block"),
    "M05_no_draw_when_not_worse": (B, "        return torch.rand(()) < alpha\n", "        if alpha >= 1:\n            return torch.tensor(True)\n        return torch.rand(()) < alpha\n", "uniform draw skipped when alpha >= 1"),
    "M06_proposal_drift": (G, "change_idx = self.std[idx] * torch.randn(shape_idx)", "change_idx = self.std[idx] * (torch.randn(shape_idx) + 0.05)", "population proposal not centred (drift of 0.05 std)"),
    "M07_gibbs_block_of_two_coordinates": (G, "        change_idx = self.std[idx] * torch.randn(shape_idx)\n", "        change_idx = self.std[idx] * torch.randn(shape_idx)\n        if len(idx) == 1 and self.ndim == 1 and idx[0] + 1 < self.shape[0] and len(self.shape_adapted_std) == 1 and type(self).__name__ == 'PopulationGibbsSampler':\n            self._extra = (idx[0] + 1, 0.5 * float(change_idx))\n",
                                           None),   # replaced below by a simpler, real two-coordinate block
    "M08_ind_decision_uses_sum_over_individuals": (G, IND_ALPHA, IND_ALPHA.replace("(new_attachment - previous_attachment)", "(new_attachment - previous_attachment).sum()"), "every individual's decision uses the attachment change summed over individuals"),
    "M09_fastgibbs_first_coordinate_only": (G, "        change_idx = self.std[idx] * torch.randn(shape_idx)\n", "        change_idx = self.std[idx] * torch.randn(shape_idx)\n        if change_idx.ndim == 1 and len(idx) == 1 and change_idx.numel() > 1:\n            change_idx[1:] = 0.0\n", "row proposal (FastGibbs) perturbs only the first coordinate of the row"),
    "M10_group_step_one_shared_uniform": (B, "accepted = torch.rand(alpha.shape) < alpha", "accepted = torch.rand(()) < alpha", "one uniform shared by all individuals"),
    "M11_ind_revert_accepted_rows": (G, "state.revert(~accepted)", "state.revert(accepted)", "individual sampler reverts the accepted rows instead of the rejected ones"),
    "M12_mixture_second_clamp": (G, SECOND_PROBS, SECOND_PROBS.replace("torch.clamp(nll_cluster, -100.)", "torch.clamp(nll_cluster, -1.)"), "mixture: responsibilities of the proposed state floored at -1 instead of -100"),
    "M13_mixture_tempered_responsibilities": (G, SECOND_PROBS, SECOND_PROBS.replace("nll_cluster = -nll_regul_ind_sum_ind\n", "nll_cluster = -nll_regul_ind_sum_ind * temperature_inv\n"), "mixture: responsibilities of the proposed state tempered"),
    "M14_scalar_step_non_strict": (B, "        return torch.rand(()) < alpha\n", "        return torch.rand(()) <= alpha\n", "scalar Metropolis step accepts on u == alpha"),
    "M15_alpha_capped_below_one": (B, "        return torch.rand(()) < alpha\n", "        return torch.rand(()) < torch.clamp(torch.as_tensor(alpha), max=0.99)\n", "not-worse proposals rejected with probability 1%"),
    "M16_pop_regularity_sign": (G, POP_ALPHA, POP_ALPHA.replace("(new_regularity - previous_regularity)", "(previous_regularity - new_regularity)"), "population samplers: sign of the regularity change flipped"),
    "M17_ind_attachment_dropped_when_tempered": (G, IND_ALPHA, IND_ALPHA.replace("+ (new_attachment - previous_attachment)", "+ (new_attachment - previous_attachment) * (1.0 if temperature_inv > 0.5 else 0.97)"), "individual sampler: attachment change scaled by 0.97 only when tinv <= 0.5"),
    "M18_mh_whole_variable_shares_one_normal": (G, "change_idx = self.std[idx] * torch.randn(shape_idx)", "change_idx = self.std[idx] * (torch.randn(shape_idx) if len(idx) else torch.randn(()).expand(shape_idx))", "Metropolis-Hastings proposal: one normal shared by all coordinates"),
    "M19_ind_std_shifted_by_one_individual": (G, "return self.std[std_broadcasting] * torch.randn((self.n_patients, *self.shape))", "return self.std.roll(1)[std_broadcasting] * torch.randn((self.n_patients, *self.shape))", "individual proposal scaled by the previous individual's std"),
    "M20_stale_previous_values": (G, "            previous_attachment, previous_regularity = compute_attachment_regularity()\n            # with state.auto_fork():  # not needed",
                                  "            if idx == self._get_iterator_indices()[0] or not self._random_order_dimension or True:\n                previous_attachment, previous_regularity = (compute_attachment_regularity() if not hasattr(self, '_pv') else self._pv)\n                self._pv = (previous_attachment, previous_regularity)\n            # with state.auto_fork():  # not needed",
                                  "population samplers: values before the proposal read once and kept (stale after an accepted block / another call)"),
    "M21_fit_passes_temperature_one": ("algo/fit/mcmc_saem.py", "sample(state, temperature_inv=self.temperature_inv)", "sample(state, temperature_inv=1.0)",
                                       "the fit algorithm calls the samplers with temperature_inv = 1 whatever its annealing temperature"),
    "M22_fit_passes_temperature_not_inverse": ("algo/fit/mcmc_saem.py", "sample(state, temperature_inv=self.temperature_inv)", "sample(state, temperature_inv=self.temperature)",
                                               "the fit algorithm passes the temperature instead of its inverse"),
    # ---- round 2: non-finite / extreme decisions (exp(-D) = +inf, 0, nan in the state's dtype)
    "M23_seed2_nonfinite_alpha_discarded_without_draw": (G, "            accepted = self._metropolis_step(alpha)\n",
        "            if not torch.isfinite(alpha):\n                state.revert()\n                continue\n            accepted = self._metropolis_step(alpha)\n",
        "seed C03-1 of round 2: population proposal with non-finite alpha (exp overflow of a > 88.7-nat improvement, nan) reverted before any draw"),
    "M24_pop_alpha_clamped_draw_skipped": (G, "            accepted = self._metropolis_step(alpha)\n",
        "            alpha = torch.clamp(alpha, max=1.0)\n            accepted = torch.tensor(True) if alpha >= 1 else self._metropolis_step(alpha)\n",
        "population: alpha clamped to 1 before the draw, the draw skipped when alpha >= 1"),
    "M25_pop_nan_to_num_on_alpha": (G, "            accepted = self._metropolis_step(alpha)\n",
        "            alpha = torch.nan_to_num(alpha, nan=1.0)\n            accepted = self._metropolis_step(alpha)\n",
        "population: nan alpha (non-finite likelihood on both sides) read as 1: the proposal is accepted"),
    "M26_ind_nonfinite_alpha_rows_rejected": (G, "        accepted = self._group_metropolis_step(alpha)\n",
        "        accepted = self._group_metropolis_step(alpha) & torch.isfinite(alpha)\n",
        "individual: rows whose alpha is not finite (exp overflow of a large improvement) masked as rejected"),
    "M27_pop_inf_alpha_rejected_after_draw": (G, "            accepted = self._metropolis_step(alpha)\n",
        "            accepted = self._metropolis_step(alpha) & torch.isfinite(alpha)\n",
        "population: the draw is made but a proposal whose alpha overflowed is rejected"),
    "M28_ind_nan_to_num_on_exponent": (G, IND_ALPHA, IND_ALPHA.replace("        accepted = self._group_metropolis_step(alpha)", "        alpha = torch.nan_to_num(alpha, nan=1.0, posinf=1.0)\n        accepted = self._group_metropolis_step(alpha)"),
        "individual: nan alpha read as 1 (accepted by every draw)"),
    "M29_alpha_floored": (B, "        return torch.rand(()) < alpha\n", "        return torch.rand(()) < torch.clamp(torch.as_tensor(alpha), min=1e-30)\n",
        "scalar Metropolis step: alpha floored at 1e-30, so u = 0 accepts an impossible (D = +inf) proposal"),
    "M30_ind_alpha_floored": (B, "accepted = torch.rand(alpha.shape) < alpha", "accepted = torch.rand(alpha.shape) < torch.clamp(alpha, min=1e-30)",
        "group Metropolis step: alpha floored at 1e-30, so u = 0 accepts an impossible (D = +inf) proposal"),
    "M31_pop_large_improvement_capped": (G, "            accepted = self._metropolis_step(alpha)\n",
        "            accepted = self._metropolis_step(alpha) if alpha < 1e12 else self._metropolis_step(alpha * 0)\n",
        "population: a finite but large alpha (> 1e12, improvement of more than 27.6 nats) treated as a numerical accident and rejected"),
    "M32_ind_exponent_in_half_precision_guarded": (G, "        accepted = self._group_metropolis_step(alpha)\n",
        "        alpha = torch.where(alpha > 3e38, torch.zeros_like(alpha), alpha)\n        accepted = self._group_metropolis_step(alpha)\n",
        "individual: alpha above the single-precision range (inf) zeroed: the largest improvements are rejected"),
}
# round 3: algebraically equal rewritings of exp(-D) whose float evaluation differs (factors beyond the range of exp)
POP_FULL = "            alpha = torch.exp(\n                -1\n                * (\n" + POP_ALPHA
IND_FULL = "        alpha = torch.exp(\n            -1\n            * (\n" + IND_ALPHA
POP_FACT = ("            alpha = torch.exp(previous_attachment - new_attachment) * torch.exp((previous_regularity - new_regularity) * temperature_inv)\n"
            "            accepted = self._metropolis_step(alpha)")
IND_FACT = ("        alpha = torch.exp(previous_attachment - new_attachment) * torch.exp((previous_regularity - new_regularity) * temperature_inv)\n"
            "        accepted = self._group_metropolis_step(alpha)")
MUT.update({
    "M33_pop_alpha_product_of_ratios": (G, POP_FULL, POP_FACT, "population: alpha = likelihood ratio x tempered prior ratio (= seed C03 of round 3, population site)"),
    "M34_ind_alpha_product_of_ratios": (G, IND_FULL, IND_FACT, "individual: alpha = likelihood ratio x tempered prior ratio (= seed C03 of round 3, individual site)"),
    "M35_pop_alpha_quotient": (G, POP_FULL, POP_FACT.replace("* torch.exp((previous_regularity - new_regularity) * temperature_inv)", "/ torch.exp((new_regularity - previous_regularity) * temperature_inv)"),
                               "population: alpha = exp(-d_attach) / exp(tinv * d_regul) (inf / inf, 0 / 0 = nan)"),
    "M36_ind_alpha_prior_ratio_power": (G, IND_FULL, IND_FACT.replace("torch.exp((previous_regularity - new_regularity) * temperature_inv)", "torch.exp(previous_regularity - new_regularity) ** temperature_inv"),
                                        "individual: alpha = exp(-d_attach) * exp(-d_regul) ** tinv (the untempered prior ratio overflows first)"),
})
# a real two-coordinate block for the coordinate-wise Gibbs sampler on vectors: coordinate i+1 moves with coordinate i
MUT["M07_gibbs_block_of_two_coordinates"] = (
    "variables/state.py", None, None, "coordinate-wise Gibbs on a vector: the put of block (i,) also adds half the change to coordinate i+1")


def apply(name):
    f, old, new, _ = MUT[name]
    if name == "M07_gibbs_block_of_two_coordinates":
        p = WT + "/src/leaspy/" + G
        s = open(p).read()
        old = "                self._proposed_change_idx(idx),\n                indices=idx,\n                accumulate=True,  # out-of-place addition\n            )\n"
        new = old + ("            if len(idx) == 1 and self.ndim == 1 and len(self.shape_adapted_std) == 1 and self.shape[0] > 1:\n"
                     "                _j = ((idx[0] + 1) % self.shape[0],)\n"
                     "                state.put(self.name, 0.5 * (state[self.name][idx] - state[self.name][idx]) + 0.5 * self.std[idx] * 0.1, indices=_j, accumulate=True)\n")
        assert s.count(old) == 1
        open(p, "w").write(s.replace(old, new))
        return
    p = WT + "/src/leaspy/" + f
    s = open(p).read()
    assert s.count(old) == 1, (name, s.count(old))
    open(p, "w").write(s.replace(old, new))


def run_one(name, search_only):
    subprocess.run(["git", "-C", "/repo", "worktree", "remove", "--force", WT], capture_output=True)
    subprocess.run(["git", "-C", "/repo", "worktree", "add", "--detach", WT], capture_output=True, check=True)
    try:
        apply(name)
        env = dict(os.environ, VERIF_REPO=WT)
        t = time.time()
        if search_only:
            code = ("import sys,os,collections;sys.path.insert(0,%r);os.chdir(%r);import torch;torch.set_num_threads(2);"
                    "from harness.common import Run;from harness.props import c03;run=Run('C03','quick');c03.check(run);"
                    "c=collections.Counter(f['signature'] for f in run._fails);print('SEARCH',dict(c));"
                    "[print('FAIL',f['signature'],'::',f['what'][:200]) for f in list({f['signature']:f for f in run._fails}.values())[:6]]") % (ROOT, ROOT)
            r = subprocess.run(["/venv/bin/python", "-c", code], env=env, capture_output=True, text=True, timeout=1200)
        else:
            r = subprocess.run(["./check", "C03", "--tier", "quick"], cwd=ROOT, env=env, capture_output=True, text=True, timeout=1500)
        out = r.stdout + r.stderr
        sigs = sorted(set(re.findall(r"^FAIL ([^ :]+(?::[^ :]+)*)", out, re.M)))
        broken = sorted(set(re.findall(r"^BROKEN (\S+ \S+)", out, re.M)))
        viol = re.findall(r"^VIOLATION .*", out, re.M)
        nofail = any("no-failing-input-found" in v for v in viol)
        search = re.findall(r"^SEARCH .*", out, re.M)
        verdict = ("CAUGHT(concrete replay)" if (viol and not nofail) or (search_only and sigs) else "CAUGHT(no failing input)" if viol else "MISSED")
        print(f"{name}: {verdict} rc={r.returncode} {time.time() - t:.0f}s\n   what: {MUT[name][3]}\n   fail signatures: {sigs}\n   broken: {broken} {search}", flush=True)
        if verdict == "MISSED":
            print(out[-1500:])
    finally:
        subprocess.run(["git", "-C", "/repo", "worktree", "remove", "--force", WT], capture_output=True)


if __name__ == "__main__":
    args = [a for a in sys.argv[1:] if not a.startswith("--")]
    so = "--search-only" in sys.argv
    for n in (args or sorted(MUT)):
        run_one(n, so)
    if not so:
        r = subprocess.run(["./check", "C03", "--tier", "quick"], cwd=ROOT, capture_output=True, text=True)
        print("unchanged /repo:", "exit", r.returncode, (r.stdout.strip().splitlines() or [""])[-1])
